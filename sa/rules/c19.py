"""C19  Device waiters are woken by advertisements; advertisement parsing is robust."""

from __future__ import annotations

import ast

from ..engine.context import Context, expand, sync_closure
from ..engine.loader import dotted, walk_expr, walk_own
from ..engine.partial import PartialProfile
from ..engine.report import norm_stmt
from ..engine.terms import contains, show, strip_sites

PROPERTY = "C19"
EXPLANATION = (
    "Static analysis of the discovery waiters and the advertisement callbacks: (T1) in each transport's async_find the "
    "future that is awaited is stored, on every path before the await, in the waiter table that the advertisement "
    "handler of the same controller reads; (G1) the handler completes every listed waiter inside a loop without early "
    "exit, each set_result under a not-done() guard, and removes the table entry; (G2) timeout paths raise "
    "AccessoryNotFoundError, the mDNS timer is cancelled on every exit, the aggregate async_find ends in not-found, "
    "skips only not-found results and cancels/awaits the rest; (X1) the escape set of the BLE scanner callback and of "
    "the mDNS record handler, computed over their synchronous call trees with partial operations enabled (unguarded "
    "dereference of an Optional attribute, unguarded Future.set_result, unguarded index on advertisement bytes, int() "
    "on TXT values, missing dict keys), contains no Exception subclass; (B1) every index in the advertisement parsers "
    "is covered by a length/truthiness guard and parsers only raise ValueError, which both callers catch; (K1) field "
    "mapping of TXT records and manufacturer data against the HAP layout."
)
TRUSTED = ["bleak / zeroconf call the registered callbacks with well-typed objects", "IntFlag constructors accept any int"]

ZC = "aiohomekit.zeroconf.ZeroconfController"
BC = "aiohomekit.controller.ble.controller.BleController"
MD = "aiohomekit.controller.ble.manufacturer_data"
PAIRS = [
    (f"{ZC}.async_find", f"{ZC}._async_handle_loaded_service_info"),
    (f"{BC}.async_find", f"{BC}._device_detected"),
]
NOT_FOUND = "aiohomekit.exceptions.AccessoryNotFoundError"


def _self_tables_in(t) -> set[str]:
    """Names T such that the term mentions self.T"""
    out = set()

    def walk(x):
        if not isinstance(x, tuple):
            return
        if len(x) == 3 and x[0] == "attr" and x[1] == ("param", "self") and isinstance(x[2], str):
            out.add(x[2])
        if x and x[0] == "const":
            return
        for y in x:
            if isinstance(y, tuple):
                walk(y)

    walk(t)
    return out


def run(ctx: Context) -> None:
    ck = ctx.ck
    tables: dict[str, set[str]] = {}
    if ck.rule("C19.T1", "the awaited future is registered in the table the advertisement handler reads"):
        n = 0
        for finder, handler in PAIRS:
            n += _t1(ctx, finder, handler, tables)
        ck.require_min("C19.T1", "async_find implementations with an awaited future", n, 2)
    prof = _profile(ctx)
    if ck.rule("C19.G1", "wake-up is guarded and complete"):
        for finder, handler in PAIRS:
            _g1(ctx, handler, prof)
            _g1_cleanup(ctx, finder, tables.get(finder, set()) or {"_waiters", "_ble_futures"})
    if ck.rule("C19.G2", "timeouts and the aggregate finder"):
        _g2(ctx)
    if ck.rule("C19.X1", "scanner / browser callbacks let no Exception escape"):
        _x1(ctx, prof)
    if ck.rule("C19.B1", "advertisement parsers: indices covered, only ValueError escapes"):
        _b1(ctx, prof)
    if ck.rule("C19.K1", "field mapping of TXT records and manufacturer data"):
        _k1(ctx)


# ---------------------------------------------------------------------- T1
def _t1(ctx: Context, finder: str, handler: str, tables: dict) -> int:
    ck = ctx.ck
    f = ctx.func(finder)
    cfg = ctx.cfg(finder)
    T = ctx.terms
    hf = ctx.func(handler)
    short = finder.split(".")[-2] + ".async_find"
    # futures created here
    # by VALUE: an awaited name whose value term is a create_future() call (through any chain of copies / helper results)
    def is_future(t) -> bool:
        t = strip_sites(t)
        return t[0] == "call" and t[1][0] == "attr" and t[1][2] == "create_future"

    awaited = []
    fut_terms = {}
    for n in cfg.nodes:
        for e in n.exprs:
            if e is None:
                continue
            for sub in walk_expr(e):
                if isinstance(sub, ast.Await) and isinstance(sub.value, ast.Name):
                    t = T.of(cfg, n, sub.value)
                    if is_future(t):
                        awaited.append((n, sub.value.id))
                        fut_terms[sub.value.id] = t
    if not awaited:
        ck.unknown("C19.T1", f"{short}: no awaited create_future() result found", f.loc())
        return 0
    # which tables does the handler read?
    hcfg = ctx.cfg(handler)
    read_tables = set()
    for n in hcfg.nodes:
        for c in ctx.calls(n):
            if isinstance(c.func, ast.Attribute) and c.func.attr in ("get", "pop") and dotted(c.func.value or ast.Name("x")):
                d = dotted(c.func.value)
                if d and d.startswith("self."):
                    read_tables.add(d.split(".", 1)[1])
        for e in n.exprs:
            if e is None:
                continue
            for sub in walk_expr(e):
                if isinstance(sub, ast.Subscript):
                    d = dotted(sub.value)
                    if d and d.startswith("self."):
                        read_tables.add(d.split(".", 1)[1])
    for an, var in awaited:
        # registration nodes: a call  <recv>.append(var) / <recv>.add(var)  or  self.T[k] = [..var..]
        regs = []
        ft = fut_terms[var]

        def is_var(n, a) -> bool:
            # the awaited future itself: the same name, or another name for the same create_future() call site
            return isinstance(a, ast.Name) and (a.id == var or T.of(cfg, n, a) == ft)

        for n in cfg.nodes:
            for c in ctx.calls(n):
                if isinstance(c.func, ast.Attribute) and c.func.attr in ("append", "add") and any(is_var(n, a) for a in c.args):
                    recv = T.of(cfg, n, c.func.value)
                    for tb in _self_tables_in(recv):
                        regs.append((n, tb))
            if n.kind == "stmt" and isinstance(n.ast, ast.Assign):
                for tg in n.ast.targets:
                    if isinstance(tg, ast.Subscript):
                        d = dotted(tg.value)
                        if d and d.startswith("self.") and any(is_var(n, x) for x in ast.walk(n.ast.value)):
                            regs.append((n, d.split(".", 1)[1]))
        good = [(n, tb) for n, tb in regs if tb in read_tables]
        pass_edges = []
        for n, tb in good:
            pass_edges += ctx.normal_out(cfg, n)
        tables.setdefault(finder, set()).update(tb for _n, tb in good)
        ok = ctx.must_pass(
            "C19.T1",
            cfg,
            an,
            f"registration of `{var}` in a waiter table read by {hf.name}",
            pass_edges,
            desc=f"{short}: `{var}` is stored in a table that {hf.name} reads ({sorted(read_tables & {tb for _n, tb in regs}) or 'none'}) before it is awaited",
        )
    return 1


# ---------------------------------------------------------------------- profile
def _wire_vars(ctx: Context, q: str) -> set[str]:
    """locals holding the manufacturer payload: assigned (or walrus-bound) from <manufacturer data dict>.get(<company id>)"""
    f = ctx.func(q)
    out = set()
    for x in walk_own(f.node):
        tgt = val = None
        if isinstance(x, ast.NamedExpr) and isinstance(x.target, ast.Name):
            tgt, val = x.target.id, x.value
        elif isinstance(x, ast.Assign) and len(x.targets) == 1 and isinstance(x.targets[0], ast.Name):
            tgt, val = x.targets[0].id, x.value
        if tgt and isinstance(val, ast.Call) and isinstance(val.func, ast.Attribute) and val.func.attr == "get" and val.args and isinstance(ctx.const(f, val.args[0], None), int):
            out.add(tgt)
        if tgt and isinstance(val, ast.Subscript) and isinstance(ctx.const(f, val.slice, None) if not isinstance(val.slice, ast.Slice) else None, int) and isinstance(val.value, ast.Attribute) and "manufacturer" in val.value.attr:
            out.add(tgt)
        # the payload used in place, without a local: <manufacturer data>[<company id>][i] - the inner subscript is the buffer
        if isinstance(x, ast.Subscript) and isinstance(x.value, ast.Subscript) and not isinstance(x.value.slice, ast.Slice) \
                and isinstance(ctx.const(f, x.value.slice, None), int) and "manufacturer" in " ".join(ast.unparse(x.value.value).split()):
            out.add(" ".join(ast.unparse(x.value).split()))
    return out


def _props_vars(ctx: Context, q: str) -> set[str]:
    """locals holding the TXT record dict: assigned from a dict comprehension over <service>.decoded_properties.items()"""
    f = ctx.func(q)
    out = set()
    for x in walk_own(f.node):
        if isinstance(x, ast.Assign) and len(x.targets) == 1 and isinstance(x.targets[0], ast.Name) and isinstance(x.value, (ast.DictComp, ast.Call, ast.Dict)):
            if any(isinstance(y, ast.Attribute) and y.attr in ("decoded_properties", "properties") for y in ast.walk(x.value)):
                out.add(x.targets[0].id)
    return out


def _profile(ctx: Context) -> PartialProfile:
    roots = [f"{BC}._device_detected", f"{ZC}._async_handle_loaded_service_info"]
    scope = {}
    for q in sync_closure(ctx, roots):
        ops = {"optional_attr": True, "future_set": True, "optional_compare": True}
        if q.startswith(MD) or q == f"{BC}._device_detected":
            ops["index"] = _wire_vars(ctx, q)
        if q.endswith("HomeKitService.from_service_info"):
            ops["dictkey"] = _props_vars(ctx, q)
            ops["int"] = True
        scope[q] = ops
    prof = PartialProfile(
        "c19",
        scope,
        len_facts=[("aiohomekit.crypto.chacha20poly1305.ChaCha20Poly1305PartialTag.open", "nonce")],
    )
    prof.prepare(ctx)
    ctx.ck.stats["c19_length_facts"] = prof.len_fact_results
    return prof


# ---------------------------------------------------------------------- G1
def _g1(ctx: Context, handler: str, prof: PartialProfile) -> None:
    ck = ctx.ck
    f = ctx.func(handler)
    cfg = ctx.cfg(handler)
    T = ctx.terms
    short = handler.split(".")[-2] + "." + f.name
    sets = [(n, c) for n, c in ctx.nodes_calling_name(cfg, "set_result")]
    if not sets:
        ck.violated("C19.G1", f"{ctx.fkey(f)}:no-wakeup", f"{short}: no waiter is ever completed (no set_result)", f.loc())
        return
    for n, c in sets:
        recv = prof._path(ctx, cfg, n, c.func.value)
        guards = prof._done_guards(ctx, cfg, recv)
        p = cfg.find_path(cfg.entry.id, n.id, avoid_edges=guards)
        ck.check(
            "C19.G1",
            p is None,
            f"{short}: {recv}.set_result() only under `not {recv}.done()`",
            f"{ctx.fkey(f)}:unguarded-set_result",
            f"{short}: {recv}.set_result() is not guarded by `not {recv}.done()`: a waiter that was cancelled or timed out "
            "but is still listed raises InvalidStateError inside the callback",
            ctx.loc(f, n),
            cfg.render_path(p) if p else None,
        )
        # inside a for loop over the waiters of this id, loop without early exit
        loops = [fr for fr in n.frames if fr[0] == "loop" and fr[2] == "body" and isinstance(fr[1], (ast.For,))]
        if not loops:
            ck.violated("C19.G1", f"{ctx.fkey(f)}:not-all-waiters", f"{short}: set_result is not inside a loop over all waiters of the id", ctx.loc(f, n))
            continue
        loop = loops[-1][1]
        early = [x for x in ast.walk(loop) if isinstance(x, (ast.Break, ast.Return))]
        ck.check(
            "C19.G1",
            not early,
            f"{short}: the waiter loop has no break/return (every waiter of the id is completed)",
            f"{ctx.fkey(f)}:waiter-loop-early-exit",
            f"{short}: the waiter loop can stop early; later waiters are never woken",
            ctx.loc(f, loop),
        )
        fnodes = cfg.nodes_for(loop)
        heads = [x for x in fnodes if x.kind == "for_iter"]
        it = T.of(cfg, heads[0], loop.iter) if heads else ("unknown", "")
        tabs = _self_tables_in(it)
        ck.check(
            "C19.G1",
            bool(tabs),
            f"{short}: the loop iterates the waiter table entry ({sorted(tabs)})",
            f"{ctx.fkey(f)}:waiter-loop-source",
            f"{short}: the waiter loop does not iterate a self.<table> entry (iterates {show(it, 80)})",
            ctx.loc(f, loop),
        )
        # entry removed: the read is a pop, or a clear()/del follows the loop on every path
        is_pop = contains(it, lambda s: s[0] == "call" and s[1][0] == "attr" and s[1][2] == "pop")
        removed = is_pop
        if not removed:
            fh = [x for x in fnodes if x.kind == "for"]
            rem_nodes = set()
            for m in cfg.nodes:
                for c2 in ctx.calls(m):
                    if isinstance(c2.func, ast.Attribute) and c2.func.attr in ("clear", "pop"):
                        rt = T.of(cfg, m, c2.func.value)
                        if _self_tables_in(rt) & tabs or strip_sites(rt) == strip_sites(it):
                            rem_nodes.add(m.id)
                if m.kind == "stmt" and isinstance(m.ast, ast.Delete):
                    rem_nodes.add(m.id) if any(
                        (dotted(getattr(t, "value", t)) or "").startswith("self.") for t in m.ast.targets
                    ) else None
            if fh and rem_nodes:
                removed = True
                for e in cfg.out_edges(fh[0], ("F",)):
                    if e[1] not in rem_nodes and cfg.find_path(e[1], cfg.exit.id, avoid_nodes=rem_nodes) is not None:
                        removed = False
        ck.check(
            "C19.G1",
            removed,
            f"{short}: the table entry is removed after waking its waiters",
            f"{ctx.fkey(f)}:entry-not-removed",
            f"{short}: completed waiters stay listed in the table",
            ctx.loc(f, loop),
        )


def _g1_cleanup(ctx: Context, finder: str, tables: set[str]) -> None:
    """async_find's own clean-up may drop the table entry of the id only when no waiter is left in it:
    removing the whole entry while other callers wait for the same id unregisters them (they can only time out)."""
    ck = ctx.ck
    f = ctx.func(finder)
    cfg = ctx.cfg(finder)
    T = ctx.terms
    short = finder.split(".")[-2] + ".async_find"
    removals = []
    for n in cfg.nodes:
        for c in ctx.calls(n):
            if isinstance(c.func, ast.Attribute) and c.func.attr in ("pop", "clear", "popitem") and isinstance(c.func.value, ast.Attribute) and dotted(c.func.value) and dotted(c.func.value).split(".", 1)[-1] in tables and dotted(c.func.value).startswith("self."):
                removals.append(n)
        if n.kind == "stmt" and isinstance(n.ast, ast.Delete):
            for t in n.ast.targets:
                if isinstance(t, ast.Subscript) and dotted(t.value) and dotted(t.value).startswith("self.") and dotted(t.value).split(".", 1)[-1] in tables:
                    removals.append(n)
    for rn in {r.id: r for r in removals}.values():
        gate = []
        for m in cfg.nodes:
            if m.kind != "test":
                continue
            t = strip_sites(T.of(cfg, m, m.exprs[0]))
            # truthiness of the entry (self.T[id] / the list obtained from the table): empty on the false outcome
            inner = t
            if inner[0] == "sub" and inner[1][0] == "attr" and inner[1][1] == ("param", "self") and inner[1][2] in tables:
                gate += cfg.out_edges(m, ("F",))
            elif inner[0] == "call" and inner[1][0] == "attr" and inner[1][2] in ("get", "setdefault") and inner[1][1][0] == "attr" and inner[1][1][2] in tables:
                gate += cfg.out_edges(m, ("F",))
            elif inner[0] == "cmp" and inner[1] == ("Eq",) and inner[2][1] == ("const", 0) and inner[2][0][0] == "call" and inner[2][0][1] == ("glob", "len"):
                gate += cfg.out_edges(m, ("T",))
        p = cfg.find_path(cfg.entry.id, rn.id, avoid_edges=gate)
        ck.check(
            "C19.G1",
            p is None,
            f"{short}: its clean-up drops the table entry only when no waiter is left in it",
            f"{ctx.fkey(f)}:cleanup-removes-siblings",
            f"{short}: `{rn.text()[:70]}` removes the whole waiter entry of the id without checking that it is empty: when one caller gives up "
            "(timeout/cancel) every other caller waiting for the same id is unregistered and can no longer be woken",
            ctx.loc(f, rn),
        )


# ---------------------------------------------------------------------- G2
def _always_raises(cfg, start: int) -> tuple[bool, set]:
    reach = cfg.reachable_from(start)
    classes = {exc for (src, lab, exc) in cfg.xexit.pred if src in reach and lab == "x"}
    return cfg.exit.id not in reach, classes


def _g2(ctx: Context) -> None:
    ck = ctx.ck
    for finder, _h in PAIRS:
        f = ctx.func(finder)
        cfg = ctx.cfg(finder)
        short = finder.split(".")[-2] + ".async_find"
        hs = [n for n in cfg.nodes if n.kind == "handler" and n.handler_classes and "TimeoutError" in n.handler_classes]
        if not hs:
            ck.violated("C19.G2", f"{ctx.fkey(f)}:no-timeout-handler", f"{short}: the timeout is not translated to AccessoryNotFoundError", f.loc())
        for h in hs:
            # classes raised explicitly inside the handler body
            body_nodes = [n for n in cfg.nodes if cfg.in_region(n, "try", None, None) and any(
                fr[0] == "try" and isinstance(fr[2], tuple) and fr[2][1] is h.ast for fr in n.frames)]
            raises = [n for n in body_nodes if n.kind == "raise"]
            classes = set()
            for r in raises:
                classes |= {exc for (_d, l, exc) in r.succ if l == "x"}
            falls = False
            # does the handler body reach a normal continuation? (any node of the body with a normal edge leaving the body that is not a raise)
            reach = cfg.reachable_from(h.id, avoid_nodes=[n.id for n in cfg.nodes if n.copy_of and n not in body_nodes])
            for nid in reach:
                n = cfg.nodes[nid]
                if n in body_nodes or n is h:
                    for d, l, e in n.succ:
                        dn = cfg.nodes[d]
                        if l != "x" and dn not in body_nodes and not dn.copy_of:
                            falls = True
            ck.check(
                "C19.G2",
                classes == {NOT_FOUND} and not falls,
                f"{short}: a timeout can only end in AccessoryNotFoundError",
                f"{ctx.fkey(f)}:timeout-class",
                f"{short}: the timeout handler raises {sorted(c.rsplit('.', 1)[-1] for c in classes)} / falls through: {falls}",
                ctx.loc(f, h),
            )
        # cached discovery returns at once
        cached = False
        for n in cfg.nodes:
            if n.kind == "return" and n.exprs:
                t = ctx.terms.of(cfg, n, n.exprs[0])
                if contains(t, lambda s: (s[0] == "call" and s[1] == ("attr", ("attr", ("param", "self"), "discoveries"), "get"))
                            or (s[0] == "sub" and len(s) == 3 and s[1] == ("attr", ("param", "self"), "discoveries"))):  # .get(id) or [id] behind `id in ..`
                    creates = [m.id for m, c in ctx.nodes_calling_name(cfg, "create_future")]
                    if cfg.find_path(cfg.entry.id, n.id, avoid_nodes=creates) is not None:
                        cached = True
        ck.check("C19.G2", cached, f"{short}: an already known discovery is returned without waiting",
                 f"{ctx.fkey(f)}:no-cached-return", f"{short}: a cached discovery is not returned immediately", f.loc())
        # timers are cancelled on every exit
        for n, c in ctx.nodes_calling_name(cfg, "call_later", "call_at"):
            if not (n.kind == "stmt" and isinstance(n.ast, ast.Assign) and isinstance(n.ast.targets[0], ast.Name)):
                ck.violated("C19.G2", f"{ctx.fkey(f)}:timer-handle-dropped", f"{short}: the timer handle is not kept, it cannot be cancelled", ctx.loc(f, n))
                continue
            hv = n.ast.targets[0].id
            canc = {m.id for m in cfg.nodes for c2 in ctx.calls(m)
                    if isinstance(c2.func, ast.Attribute) and c2.func.attr == "cancel" and dotted(c2.func.value) == hv}
            bad = None
            for e in ctx.normal_out(cfg, n):
                p = cfg.find_path(e[1], {cfg.exit.id, cfg.xexit.id}, avoid_nodes=canc)
                if p is not None and e[1] not in canc:
                    bad = p
            ck.check("C19.G2", bad is None, f"{short}: the timeout timer is cancelled on every exit",
                     f"{ctx.fkey(f)}:timer-not-cancelled", f"{short}: an exit leaves the timeout timer armed", ctx.loc(f, n),
                     cfg.render_path(bad) if bad else None)
    # the timeout callback only fails a pending future
    tf = ctx.func(f"{ZC}._async_on_timeout")
    tcfg = ctx.cfg(tf.qualname)
    prof = PartialProfile("c19-timeout", {tf.qualname: {"future_set": True}})
    prof.prepare(ctx)
    ung = [s for s in prof.sites if not s[4]]
    ck.check("C19.G2", not ung and bool(prof.sites), "_async_on_timeout fails the waiter only when it is not done",
             f"{ctx.fkey(tf)}:unguarded", "_async_on_timeout completes a future without a not-done() guard", tf.loc())
    exc_ok = False
    for n, c in ctx.nodes_calling_name(tcfg, "set_exception"):
        if c.args:
            a0 = expand(tf.node, c.args[0])
            a = a0.func if isinstance(a0, ast.Call) else a0
            if ctx.resolve_name(tf, a) in ("TimeoutError", "asyncio.TimeoutError"):
                exc_ok = True
    ck.check("C19.G2", exc_ok, "_async_on_timeout sets asyncio.TimeoutError (the class async_find translates)",
             f"{ctx.fkey(tf)}:class", "_async_on_timeout does not set asyncio.TimeoutError", tf.loc())
    # aggregate finder
    af = ctx.func("aiohomekit.controller.controller.Controller.async_find")
    acfg = ctx.cfg(af.qualname)
    ok, classes = True, set()
    # normal exits are only returns of result.result()
    rets = [n for n in acfg.nodes if n.kind == "return"]
    def _is_result(n) -> bool:
        e = ctx.deref(acfg, n, n.exprs[0])[1] if n.exprs else None
        return isinstance(e, ast.Call) and isinstance(e.func, ast.Attribute) and e.func.attr == "result"

    good_ret = all(_is_result(n) for n in rets)
    # the function end is a raise of not-found: the exit node has only return predecessors (through finally copies)
    fall = acfg.find_path(acfg.entry.id, acfg.exit.id, avoid_nodes=[n.id for n in rets])
    def _alts_g2(t_):
        return [a for x in t_[1] for a in _alts_g2(x)] if t_[0] == "phi" else [t_]

    held = [n for n in rets if n.exprs and not _is_result(n)]
    via_local = bool(held) and all(
        (lambda al: any(a[0] == "call" and a[1][0] == "attr" and a[1][2] == "result" for a in al) and all(
            a == ("const", None) or (a[0] == "call" and a[1][0] == "attr" and a[1][2] == "result") for a in al))(_alts_g2(strip_sites(ctx.terms.of(acfg, n, n.exprs[0]))))
        for n in held)
    if via_local and fall is None:
        # the result is kept in a local that starts as None and is returned behind a `found` flag: whether the flag implies
        # that the local was set is a relation between two variables this analysis does not track - not decided
        ck.unknown("C19.G2", "Controller.async_find returns a local that holds a transport's result or its initial None, selected by a flag: "
                             "that it cannot return without a discovery is not decided", af.loc())
    else:
        ck.check("C19.G2", good_ret and bool(rets) and fall is None,
             "Controller.async_find: returns only a transport's result; otherwise it cannot end normally",
             f"{ctx.fkey(af)}:normal-exit", "Controller.async_find can end normally without a discovery", af.loc(),
             acfg.render_path(fall) if fall else None)
    # the raise that ends the function: not inside a loop / try / with (an `if not found:` around it is the same raise)
    last = [n for n in acfg.nodes if n.kind == "raise" and not any(fr[0] in ("loop", "try", "with") for fr in n.frames)]
    lc = set()
    for r in last:
        lc |= {exc for (_d, l, exc) in r.succ if l == "x"}
    ck.check("C19.G2", lc == {NOT_FOUND}, "Controller.async_find: ends in AccessoryNotFoundError when no transport finds the device",
             f"{ctx.fkey(af)}:final-raise", f"Controller.async_find: final raise is {sorted(lc)}", af.loc())
    # the handler around result() catches exactly not-found and continues
    hs = [n for n in acfg.nodes if n.kind == "handler" and "result" in ast.unparse(ast.Module(body=[x for fr in [n.frames] for x in []], type_ignores=[])) + ast.unparse(n.ast)]
    skip = [n for n in acfg.nodes if n.kind == "handler" and n.handler_classes == [NOT_FOUND]]
    for h in skip:
        reach = acfg.reachable_from(h.id)
        raises_in = any(acfg.nodes[x].kind == "raise" and any(fr[0] == "try" and isinstance(fr[2], tuple) and fr[2][1] is h.ast for fr in acfg.nodes[x].frames) for x in reach)
        back = any(acfg.nodes[x].kind in ("for", "loop_head") for x in reach)
        ck.check("C19.G2", back and not raises_in, "Controller.async_find: a transport that did not find the device is skipped, the others are still awaited",
                 f"{ctx.fkey(af)}:not-found-aborts", "Controller.async_find: one transport's AccessoryNotFoundError aborts the search although another transport may still find the device", ctx.loc(af, h))
    ck.check("C19.G2", len(skip) == 1, "Controller.async_find: only AccessoryNotFoundError results are skipped",
             f"{ctx.fkey(af)}:skip-handler", f"Controller.async_find: handlers around result(): {[n.handler_classes for n in acfg.nodes if n.kind == 'handler']}", af.loc())
    # one task per transport
    per = False
    for n in acfg.nodes:
        if n.kind == "for_iter" and "transports" in ast.unparse(n.ast.iter):
            body_calls = [c for x in ast.walk(n.ast) if isinstance(x, ast.Call) for c in [x]]
            if any(isinstance(c.func, ast.Attribute) and c.func.attr == "async_find" for c in body_calls) and any(
                (dotted(c.func) or "").endswith("create_task") for c in body_calls
            ):
                per = not any(isinstance(x, (ast.Break, ast.Return, ast.Continue)) for x in ast.walk(n.ast))
    # the same as a comprehension (the loader also spells a plain append loop this way): unfiltered, one task per element
    for x in ast.walk(af.node):
        if isinstance(x, (ast.ListComp, ast.SetComp, ast.GeneratorExp)) and len(x.generators) == 1:
            g = x.generators[0]
            calls = [c for y in ast.walk(x.elt) if isinstance(y, ast.Call) for c in [y]]
            if ("transports" in ast.unparse(g.iter) and any(isinstance(c.func, ast.Attribute) and c.func.attr == "async_find" for c in calls)
                    and any((dotted(c.func) or "").endswith("create_task") for c in calls)):
                per = per or not g.ifs
    ck.check("C19.G2", per, "Controller.async_find: one finder task per transport",
             f"{ctx.fkey(af)}:per-transport", "Controller.async_find does not start a finder for every transport", af.loc())
    # finally: cancel + await the rest
    fin_cancel = any(n.copy_of and any(isinstance(c.func, ast.Attribute) and c.func.attr == "cancel" for c in ctx.calls(n)) for n in acfg.nodes)
    fin_await = any(n.copy_of and any(isinstance(s, ast.Await) for e in n.exprs if e is not None for s in walk_expr(e)) for n in acfg.nodes)
    ck.check("C19.G2", fin_cancel and fin_await, "Controller.async_find: remaining finders are cancelled and awaited in finally",
             f"{ctx.fkey(af)}:finally", "Controller.async_find leaves finder tasks running", af.loc())


# ---------------------------------------------------------------------- X1
def _x1(ctx: Context, prof: PartialProfile) -> None:
    ck = ctx.ck
    fl = ctx.flow_with(prof)
    ck.stats["c19_partial_sites"] = len(prof.sites)
    ck.stats["c19_partial_unguarded"] = sorted({f"{s[0].rsplit('.', 2)[-2]}.{s[0].rsplit('.', 1)[-1]}: {s[2]} -> {s[3]}" for s in prof.sites if not s[4]})
    ck.stats["c19_callback_call_tree"] = len(prof.scope)
    for root in (f"{BC}._device_detected", f"{ZC}._async_handle_loaded_service_info"):
        f = ctx.func(root)
        esc = sorted(fl.esc(root))
        bad = [e for e in esc if ctx.prog.is_subclass(e, "Exception") or not ctx.prog.known_class(e)]
        short = root.split(".")[-2] + "." + f.name
        if not bad:
            ck.holds("C19.X1", f"{short}: escape set over {len(prof.scope)} functions with partial operations = {esc}", f.loc())
        for e in bad:
            chain = _chain(ctx, fl, root, e)
            origin = chain[-1] if chain else ""
            key_origin = origin.split(": in ", 1)[-1].split("  ->")[0] if origin else ""
            ck.violated(
                "C19.X1",
                f"{ctx.fkey(f)}:escapes:{e.rsplit('.', 1)[-1]}:{norm_stmt(key_origin)}",
                f"{short} can raise {e.rsplit('.', 1)[-1]} into the scanner/browser ({key_origin})",
                f.loc(),
                chain,
                f"{short} never raises",
            )
    ck.require_min("C19.X1", "functions in the callbacks' synchronous call tree", len(prof.scope), 5)


def _chain(ctx: Context, fl, q: str, exc: str, depth: int = 8) -> list[str]:
    out = []
    seen = set()
    while depth > 0 and q not in seen:
        seen.add(q)
        depth -= 1
        cfg = fl.cfg(q)
        f = cfg.func
        nxt = None
        for src, lab, e in cfg.xexit.pred:
            if lab == "x" and e == exc:
                n = cfg.nodes[src]
                out.append(f"{f.module.relpath}:{n.lineno}: in {f.qualname.rsplit('.', 2)[-2]}.{f.name}: {n.text()}  -> raises {exc.rsplit('.', 1)[-1]}")
                for c in ctx.calls(n):
                    for cal in ctx.callee_names(f, c):
                        if cal in ctx.prog.functions and exc in fl.esc(cal):
                            nxt = cal
                break
        if nxt is None:
            break
        q = nxt
    return out


# ---------------------------------------------------------------------- B1
def _b1(ctx: Context, prof: PartialProfile) -> None:
    ck = ctx.ck
    fl = ctx.flow_with(prof)
    parsers = [
        f"{MD}.HomeKitAdvertisement.from_manufacturer_data",
        f"{MD}.HomeKitEncryptedNotification.from_manufacturer_data",
        "aiohomekit.zeroconf.HomeKitService.from_service_info",
    ]
    nidx = 0
    for q in parsers:
        f = ctx.func(q)
        sites = [s for s in prof.sites if s[0] == q and s[3] in ("IndexError", "KeyError", "struct.error")]
        nidx += len(sites)
        for s in sites:
            ck.check(
                "C19.B1",
                s[4],
                f"{f.qualname.rsplit('.', 2)[-2]}.{f.name}: `{s[2]}` is covered by a guard",
                f"{ctx.fkey(f)}:uncovered:{s[2]}",
                f"{f.qualname.rsplit('.', 2)[-2]}.{f.name}: `{s[2]}` can raise {s[3]} on a truncated advertisement",
                f"{f.module.relpath}:{s[1]}",
            )
        esc = sorted(fl.esc(q))
        bad = [e for e in esc if e != "ValueError"]
        ck.check(
            "C19.B1",
            not bad,
            f"{f.qualname.rsplit('.', 2)[-2]}.{f.name}: only ValueError escapes ({esc})",
            f"{ctx.fkey(f)}:escape-set",
            f"{f.qualname.rsplit('.', 2)[-2]}.{f.name}: lets {bad} escape; callers only ignore ValueError",
            f.loc(),
        )
    ck.require_min("C19.B1", "index/key sites in the parsers", nidx, 2)
    # callers catch ValueError around the parse and return
    for caller in (f"{BC}._device_detected", f"{ZC}._async_handle_loaded_service_info"):
        f = ctx.func(caller)
        cfg = fl.cfg(caller)
        for n, c in ctx.nodes_calling_name(cfg, "from_manufacturer_data", "from_service_info"):
            caught = [d for (d, l, e) in n.succ if l == "x" and e == "ValueError" and cfg.nodes[d].kind == "handler"]
            ck.check(
                "C19.B1",
                bool(caught),
                f"{f.name}: ValueError from the parser is caught",
                f"{ctx.fkey(f)}:parser-valueerror-uncaught",
                f"{f.name}: a malformed advertisement's ValueError is not caught",
                ctx.loc(f, n),
            )


# ---------------------------------------------------------------------- K1
def _k1(ctx: Context) -> None:
    ck = ctx.ck
    T = ctx.terms
    # ---- mDNS
    q = "aiohomekit.zeroconf.HomeKitService.from_service_info"
    f = ctx.func(q)
    cfg = ctx.cfg(q)
    rets = [d for d in (ctx.deref(cfg, n, n.exprs[0]) for n in cfg.nodes if n.kind == "return" and n.exprs) if isinstance(d[1], ast.Call)]
    if len(rets) != 1:
        ck.unknown("C19.K1", "from_service_info: expected one constructor return", f.loc())
        return
    rn, call = rets[0]
    kw = {k.arg: T.of(cfg, rn, k.value) for k in call.keywords if k.arg}
    pv = sorted(_props_vars(ctx, q))
    if len(pv) != 1:
        ck.unknown("C19.K1", f"from_service_info: TXT record dict variable not identified ({pv})", f.loc())
        return
    props = T.var_at(cfg, rn, pv[0])

    def is_props_get(t, key, wrap=None, lower=False):
        s = strip_sites(t)
        if wrap:
            if not (s[0] == "call" and s[1][0] == "glob" and s[1][1].rsplit(".", 1)[-1] in wrap and len(s[2]) == 1):
                return False
            s = s[2][0]
            if s[0] == "call" and s[1] == ("glob", "int") and len(s[2]) == 1:
                s = s[2][0]
            else:
                return False
        if lower:
            if not (s[0] == "call" and s[1][0] == "attr" and s[1][2] == "lower"):
                return False
            s = s[1][1]
        sp = strip_sites(props)
        if s[0] == "call" and s[1] == ("attr", sp, "get") and s[2] and s[2][0] == ("const", key):
            return True
        if s[0] == "sub" and s[1] == sp and s[2] == ("const", key):
            return True
        return False

    def is_int_get(t, key):
        s = strip_sites(t)
        return s[0] == "call" and s[1] == ("glob", "int") and len(s[2]) == 1 and is_props_get(s[2][0], key)

    rows = [
        ("id", lambda t: is_props_get(t, "id", lower=True), "props['id'].lower()"),
        ("config_num", lambda t: is_int_get(t, "c#"), "int(props.get('c#'))"),
        ("state_num", lambda t: is_int_get(t, "s#"), "int(props.get('s#'))"),
        ("feature_flags", lambda t: is_props_get(t, "ff", wrap=("FeatureFlags",)), "FeatureFlags(int(props.get('ff')))"),
        ("status_flags", lambda t: is_props_get(t, "sf", wrap=("StatusFlags",)), "StatusFlags(int(props.get('sf')))"),
        ("category", lambda t: is_props_get(t, "ci", wrap=("Categories",)), "Categories(int(props.get('ci')))"),
        ("model", lambda t: is_props_get(t, "md"), "props.get('md')"),
        ("protocol_version", lambda t: is_props_get(t, "pv"), "props.get('pv')"),
    ]
    for field, pred, want in rows:
        t = kw.get(field, ("unknown", "missing"))
        ck.check("C19.K1", pred(t), f"mDNS: {field} = {want}", f"{ctx.fkey(f)}:field:{field}",
                 f"from_service_info: {field} is {show(t, 120)}, expected {want}", ctx.loc(f, rn))
    # keys lower-cased
    sp = strip_sites(props)
    lowered = sp[0] == "comp" and contains(sp[2], lambda s: s[0] == "call" and s[1][0] == "attr" and s[1][2] == "lower" and s[1][1] == ("cvar", "k") or False)
    if sp[0] == "comp":
        elt = sp[2]
        lowered = elt[0] == "tuple" and elt[1][0][0] == "call" and elt[1][0][1][0] == "attr" and elt[1][0][1][2] == "lower"
    ck.check("C19.K1", lowered, "mDNS: TXT keys are lower-cased before lookup", f"{ctx.fkey(f)}:keys-lowercase",
             f"from_service_info: TXT keys are not lower-cased ({show(props, 120)})", ctx.loc(f, rn))
    # addresses: filtered by not link-local and not unspecified, order preserved, first valid is `address`
    va = strip_sites(kw.get("addresses", ("unknown", "")))
    conds = set()
    ok_va = False
    if va[0] == "comp" and va[1] == "ListComp" and len(va[3]) == 1:
        for c in va[3][0][2]:
            for s in ([c] if c[0] != "bool" else list(c[2])):
                if s[0] == "unop" and s[1] == "Not" and s[2][0] == "attr":
                    conds.add(s[2][2])
                elif s[0] == "bool" and s[1] == "And":
                    for z in s[2]:
                        if z[0] == "unop" and z[1] == "Not" and z[2][0] == "attr":
                            conds.add(z[2][2])
        ok_va = conds >= {"is_link_local", "is_unspecified"}
    ck.check("C19.K1", ok_va, "mDNS: addresses exclude link-local and unspecified, order preserved (list comprehension)",
             f"{ctx.fkey(f)}:address-filter", f"from_service_info: address filter is {sorted(conds)} over {show(va, 100)}", ctx.loc(f, rn))
    ad = strip_sites(kw.get("address", ("unknown", "")))
    ck.check("C19.K1", ad == ("sub", va, ("const", 0)), "mDNS: address is the first valid address",
             f"{ctx.fkey(f)}:first-address", f"from_service_info: address is {show(ad, 100)}", ctx.loc(f, rn))
    # ---- BLE regular advertisement (HAP-BLE 7.4.2.1): SF at 2, device id 3..9, <HHBB at 9..15, setup hash 15..19
    q = f"{MD}.HomeKitAdvertisement.from_manufacturer_data"
    f = ctx.func(q)
    cfg = ctx.cfg(q)
    rets = [d for d in (ctx.deref(cfg, n, n.exprs[0]) for n in cfg.nodes if n.kind == "return" and n.exprs) if isinstance(d[1], ast.Call)]
    if len(rets) != 1:
        ck.unknown("C19.K1", "HomeKitAdvertisement.from_manufacturer_data: expected one constructor return", f.loc())
        return
    rn = rets[0][0]
    kw = {k.arg: strip_sites(T.of(cfg, rn, k.value)) for k in rets[0][1].keywords if k.arg}
    wv = sorted(_wire_vars(ctx, q))
    if len(wv) != 1:
        ck.unknown("C19.K1", f"from_manufacturer_data: manufacturer payload variable not identified ({wv})", f.loc())
        return
    data = strip_sites(T.var_at(cfg, rn, wv[0]))

    def sl(lo, hi):
        return ("sub", data, ("slice", ("const", lo), ("const", hi), None))

    from ..engine.loader import StructMethod as _SM

    fmts = set()

    def unpacked(i):
        """field i of the six bytes at 9..15 read as <HHBB: unpack(data[9:15])[i] or unpack_from(data, 9)[i]"""
        def p(t):
            if not (t[0] == "sub" and t[2] == ("const", i) and t[1][0] == "call" and not t[1][3]):
                return False
            fn, args = t[1][1], t[1][2]
            if not (fn[0] == "const" and isinstance(fn[1], _SM)):
                return False
            fmts.add(fn[1].struct.fmt)
            return (fn[1].method == "unpack" and args == (sl(9, 15),)) or (fn[1].method == "unpack_from" and args == (data, ("const", 9)))
        return p

    def wrapped(name, inner):
        def p(t):
            return t[0] == "call" and t[1][0] == "glob" and t[1][1].endswith("." + name) and len(t[2]) == 1 and inner(t[2][0])
        return p

    from ..engine.terms import byte_field

    def field(off, size):
        """the unsigned little-endian integer in data[off:off+size], however it is read (struct unpack / unpack_from /
        int.from_bytes / a single indexed byte)"""
        def p(t):
            bf = byte_field(t)
            return bf is not None and bf[0] == data and bf[1] == off and bf[2] == size and bf[3] in ("little", "any") and not bf[4]
        return p

    rows = [
        ("status_flags", wrapped("StatusFlags", field(2, 1)), "StatusFlags(data[2])"),
        ("category", wrapped("Categories", field(9, 2)), "Categories(little-endian u16 at data[9:11])"),
        ("state_num", field(11, 2), "little-endian u16 at data[11:13]"),
        ("config_num", field(13, 1), "data[13]"),
    ]
    for fld, pred, want in rows:
        t = kw.get(fld, ("unknown", "missing"))
        ck.check("C19.K1", pred(t), f"BLE: {fld} = {want}", f"{ctx.fkey(f)}:field:{fld}",
                 f"HomeKitAdvertisement: {fld} is {show(t, 120)}, expected {want}", ctx.loc(f, rn))
    idt = kw.get("id", ("unknown", ""))
    ok_id = (
        idt[0] == "call" and idt[1][0] == "attr" and idt[1][2] == "lower"
        and contains(idt, lambda s: s == ("call", ("attr", sl(3, 9), "hex"), (), ()))
        and contains(idt, lambda s: s == ("const", ":"))
    ) or idt == ("call", ("attr", sl(3, 9), "hex"), (("const", ":"),), ())  # bytes.hex(":") is lower-case and colon-separated already
    if not ok_id and idt[0] == "call" and idt[1][0] == "attr" and idt[1][2] == "hex" and idt[2] == (("const", ":"),) and not idt[3]:
        bf = byte_field(idt[1][1])  # the six id bytes taken as one `6s` field of a struct unpack
        ok_id = bf is not None and bf[0] == data and bf[1] == 3 and bf[2] == 6 and bf[3] == "bytes"
    ck.check("C19.K1", ok_id, "BLE: id = lower-case colon-separated hex of data[3:9]", f"{ctx.fkey(f)}:field:id",
             f"HomeKitAdvertisement: id is {show(idt, 160)}", ctx.loc(f, rn))
    sh = kw.get("setup_hash", ("unknown", ""))
    ck.check("C19.K1", contains(sh, lambda s: s == sl(15, 19)), "BLE: setup hash = data[15:19] when present",
             f"{ctx.fkey(f)}:field:setup_hash", f"HomeKitAdvertisement: setup_hash is {show(sh, 120)}", ctx.loc(f, rn))


MANIFEST = {
    "technique": "def-use escape of the awaited future into the handler's table (must-pass-through), guard-edge analysis of "
    "set_result, inter-procedural escape sets with partial operations (nullness of Optional attributes, unguarded "
    "indices) over the callbacks' call tree, term comparison of the field mapping",
    "level_text": "Static, all paths: decides registration-before-await, guarded and complete wake-up, timeout translation and "
    "that no Exception escapes the scanner/browser callbacks' synchronous call trees (with Optional-attribute dereferences, "
    "Future.set_result, advertisement indices and TXT conversions as raise sites), plus the parsers' field mapping. The "
    "schedule-level statement (woken as soon as processed, whatever the interleaving) follows from these premises on a "
    "single-threaded event loop and is not itself explored.",
    "level_note": "Trusted: bleak/zeroconf deliver well-typed objects; IntFlag constructors never raise; user listeners do not raise "
    "(isolation is C12); property accessors analysed as calls. Optional-ness is taken from annotations and None assignments.",
}

TWIN_FILES = [
    "aiohomekit/zeroconf.py",
    "aiohomekit/controller/ble/controller.py",
    "aiohomekit/controller/ble/manufacturer_data.py",
    "aiohomekit/controller/controller.py",
    "aiohomekit/controller/ble/pairing.py",
    "aiohomekit/controller/coap/pairing.py",
]
_BC = "aiohomekit/controller/ble/controller.py"
_Z = "aiohomekit/zeroconf.py"
_MD = "aiohomekit/controller/ble/manufacturer_data.py"
VARIANTS = [
    {"name": "BLE waiter never registered (pinned defect)", "file": _BC, "old": "        self._ble_futures.setdefault(device_id, []).append(future)\n", "new": "", "expect": "C19.T1"},
    {"name": "BLE waiter registered after the wait", "file": _BC, "old": "        self._ble_futures.setdefault(device_id, []).append(future)\n        try:\n            async with asyncio_timeout(timeout):\n                return await future",
     "new": "        try:\n            async with asyncio_timeout(timeout):\n                result = await future\n                self._ble_futures.setdefault(device_id, []).append(future)\n                return result", "expect": "C19.T1"},
    {"name": "mDNS waiter stored in a local list only", "file": _Z, "old": "        waiters = self._waiters.setdefault(device_id, [])", "new": "        waiters = []", "expect": "C19.T1"},
    {"name": "BLE set_result unguarded (pinned defect)", "file": _BC, "old": "                if not future.done():\n                    future.set_result(discovery)", "new": "                future.set_result(discovery)", "expect": ["C19.G1", "C19.X1"]},
    {"name": "only the first BLE waiter is woken", "file": _BC, "old": "                if not future.done():\n                    future.set_result(discovery)\n", "new": "                if not future.done():\n                    future.set_result(discovery)\n                    break\n", "expect": "C19.G1"},
    {"name": "woken BLE waiters stay listed", "file": _BC, "old": "            futures.clear()\n", "new": "", "expect": "C19.G1"},
    {"name": "mDNS timeout not translated", "file": _Z, "old": "        except asyncio.TimeoutError:\n            raise AccessoryNotFoundError(f\"Accessory with device id {device_id} not found\")\n        finally:\n            cancel_timeout.cancel()", "new": "        finally:\n            cancel_timeout.cancel()", "expect": "C19.G2"},
    {"name": "mDNS timer left armed", "file": _Z, "old": "        finally:\n            cancel_timeout.cancel()\n", "new": "        finally:\n            pass\n", "expect": "C19.G2"},
    {"name": "aggregate finder gives up on the first not-found", "file": "aiohomekit/controller/controller.py", "old": "                    except AccessoryNotFoundError:\n                        continue", "new": "                    except AccessoryNotFoundError:\n                        raise", "expect": "C19.G2"},
    {"name": "cached state dereferenced unguarded (pinned defect)", "file": "aiohomekit/controller/ble/pairing.py", "old": "        if not self._accessories_state:\n            # Nothing cached yet (the accessories have not been fetched)\n            return\n        old_state_num", "new": "        old_state_num", "expect": "C19.X1"},
    {"name": "CoAP description dereferenced unguarded (pinned defect)", "file": "aiohomekit/controller/coap/pairing.py", "old": "        if not self.description:\n            # A pairing that has been shut down ignores description updates,\n            # so there may be no description to take the address from.\n            return\n", "new": "", "expect": "C19.X1"},
    {"name": "malformed BLE advertisement no longer ignored", "file": _BC, "old": "        try:\n            data = HomeKitAdvertisement.from_manufacturer_data(device.name, device.address, manufacturer_data)\n        except ValueError:\n            return\n", "new": "        data = HomeKitAdvertisement.from_manufacturer_data(device.name, device.address, manufacturer_data)\n", "expect": ["C19.X1", "C19.B1"]},
    {"name": "minimum advertisement length lowered", "file": _MD, "old": "        if len(data) < 15:", "new": "        if len(data) < 9:", "expect": "C19.B1"},
    {"name": "empty manufacturer payload indexed", "file": _MD, "old": "        if not (data := manufacturer_data.get(APPLE_MANUFACTURER_ID)):\n            raise ValueError(\"Not an Apple device\")\n\n        if data[0] != HOMEKIT_ADVERTISEMENT_TYPE:", "new": "        if (data := manufacturer_data.get(APPLE_MANUFACTURER_ID)) is None:\n            raise ValueError(\"Not an Apple device\")\n\n        if data[0] != HOMEKIT_ADVERTISEMENT_TYPE:", "expect": "C19.B1"},
    {"name": "mDNS id not lower-cased", "file": _Z, "old": "            id=props[\"id\"].lower(),", "new": "            id=props[\"id\"],", "expect": "C19.K1"},
    {"name": "link-local addresses kept", "file": _Z, "old": "str(ip_addr) for ip_addr in addresses if not ip_addr.is_link_local and not ip_addr.is_unspecified", "new": "str(ip_addr) for ip_addr in addresses if not ip_addr.is_unspecified", "expect": "C19.K1"},
    {"name": "c# and s# swapped", "file": _Z, "old": "            config_num=int(props.get(\"c#\", 0)),\n            state_num=int(props.get(\"s#\", 0)),", "new": "            config_num=int(props.get(\"s#\", 0)),\n            state_num=int(props.get(\"c#\", 0)),", "expect": "C19.K1"},
    {"name": "BLE GSN and CN swapped", "file": _MD, "old": "            config_num=cn,\n            state_num=gsn,", "new": "            config_num=gsn,\n            state_num=cn,", "expect": "C19.K1"},
    {"name": "BLE device id from the wrong bytes", "file": _MD, "old": "        device_id = \":\".join(data[3:9].hex()[0 + i : 2 + i] for i in range(0, 12, 2)).lower()\n        acid", "new": "        device_id = \":\".join(data[2:8].hex()[0 + i : 2 + i] for i in range(0, 12, 2)).lower()\n        acid", "expect": "C19.K1"},
]
