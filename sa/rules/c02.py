"""C02  SRP-6a client values equal those of a spec-conformant accessory."""

from __future__ import annotations

import ast
import hashlib

from ..engine.context import Context, expand
from ..engine.loader import NotConst, walk_expr, walk_own
from ..engine.terms import Terms, contains, has_unknown, show, strip_sites, subterms
from ..spec.srp import GENERATOR, KEY_LENGTH, k_value, modulus_3072

PROPERTY = "C02"
EXPLANATION = (
    "Static analysis of the SRP-6a client (RFC 5054 3072-bit group, SHA-512, HAP padding): (K1) the group constants are "
    "compared with values the checker computes itself - N from the RFC 3526 formula 2^3072 - 2^3008 - 1 + 2^64*(floor(2^2942*pi) "
    "+ 1690314) with an integer Machin series for pi, g = 5, key length 384 = bytes of N, k = SHA512(N | PAD384(g)); the "
    "definitions of H(N), H(g) and their xor are checked structurally; the hash is hashlib.sha512; (T1) padding taint: "
    "every minimal-length byte string (to_byte_array result - the 1-in-256 leading-zero hazard) that can reach a digest "
    "argument or a *_bytes getter passes pad_left(., 384) (or 16 for the salt) first, decided over all writers of the "
    "attributes involved; (T2) formula shape as normalised terms: u = int(H(A_b | B_b)), x = int(H(salt_b | H(user ':' "
    "pass))), S = pow(B - k*pow(g, x, N), a + u*x, N), K = H(PAD384(S)), M1 = H(H_GROUP | H(user) | salt_b | A_b | B_b | K), "
    "accept iff int(H(A_b | M1 | K)) == int(M), A = pow(g, a, N), A_b = PAD384(A), a = int(os.urandom(n)), k = the constant; "
    "salt and accessory key are stored before x is computed; (W1) the pair-setup protocol uses only the byte-level API of "
    "the client. Numeric equality for all inputs follows from these relative to Python's pow/int/hashlib; no value is "
    "computed from the repository's code."
)
TRUSTED = ["Python's pow, int.from_bytes/to_bytes and hashlib.sha512", "RFC 5054 / RFC 3526 / HAP 5.5 as transcribed in sa/spec/srp.py"]

SRPM = "aiohomekit.crypto.srp"
SRP = f"{SRPM}.Srp"
CLI = f"{SRPM}.SrpClient"
FROM_BYTES = ("attr", ("glob", "int"), "from_bytes")


def _u(e) -> str:
    return " ".join(ast.unparse(e).split())


def _terms(ctx: Context) -> Terms:
    no = {q for q in ctx.prog.functions if q.startswith(SRPM + ".")}
    return Terms(ctx.prog, ctx.res, ctx.flow, inline_depth=ctx.inline_depth, no_inline=no)


def S(name):
    return ("attr", ("param", "self"), name)


def call(fn, *args, kw=()):
    return ("call", fn, tuple(args), tuple(kw))


def meth(name, *args):
    return call(S(name), *args)


def big(x):
    return call(FROM_BYTES, x, ("const", "big"))


PAD = ("glob", f"{SRPM}.pad_left")
TBA = ("glob", f"{SRPM}.to_byte_array")
TBA2 = ("glob", f"{SRP}.to_byte_array")
KLEN = ("const", KEY_LENGTH)


class _NoFold(Exception):
    pass


def _fold(e: ast.AST, env: dict, tba):
    """Value of a constant expression over a whitelist: names in env, int/bytes/str literals, hashlib.sha512(x).digest(),
    to_byte_array(x), bytes(..), len, zip, range, ^ + - * //, indexing, tuple-unpacking generator / list comprehensions."""
    import hashlib as _hl

    if isinstance(e, ast.Constant) and isinstance(e.value, (int, bytes, str)) and not isinstance(e.value, bool):
        return e.value
    if isinstance(e, ast.Name):
        if e.id in env:
            return env[e.id]
        raise _NoFold(e.id)
    if isinstance(e, ast.BinOp):
        a, b = _fold(e.left, env, tba), _fold(e.right, env, tba)
        ops = {ast.BitXor: lambda x, y: x ^ y, ast.Add: lambda x, y: x + y, ast.Sub: lambda x, y: x - y, ast.Mult: lambda x, y: x * y, ast.FloorDiv: lambda x, y: x // y}
        if type(e.op) in ops:
            try:
                return ops[type(e.op)](a, b)
            except Exception as x:  # noqa: BLE001
                raise _NoFold(str(x))
        raise _NoFold("op")
    if isinstance(e, ast.Subscript) and not isinstance(e.slice, ast.Slice):
        try:
            return _fold(e.value, env, tba)[_fold(e.slice, env, tba)]
        except _NoFold:
            raise
        except Exception as x:  # noqa: BLE001
            raise _NoFold(str(x))
    if isinstance(e, (ast.GeneratorExp, ast.ListComp)) and len(e.generators) == 1 and not e.generators[0].ifs and not e.generators[0].is_async:
        g = e.generators[0]
        it = _fold(g.iter, env, tba)
        out = []
        for item in it:
            env2 = dict(env)
            if isinstance(g.target, ast.Name):
                env2[g.target.id] = item
            elif isinstance(g.target, ast.Tuple) and all(isinstance(x, ast.Name) for x in g.target.elts) and len(g.target.elts) == len(item):
                for x, v in zip(g.target.elts, item):
                    env2[x.id] = v
            else:
                raise _NoFold("target")
            out.append(_fold(e.elt, env2, tba))
        return out
    if isinstance(e, ast.Call) and (not e.keywords or (isinstance(e.func, ast.Name) and e.func.id == "zip" and all(
            k.arg == "strict" and isinstance(k.value, ast.Constant) for k in e.keywords))):
        f = e.func
        args = [_fold(a, env, tba) for a in e.args]
        name = f.id if isinstance(f, ast.Name) else None
        if name == "zip" and e.keywords and e.keywords[0].value.value and len({len(a) for a in args}) > 1:
            raise _NoFold("zip(strict=True) of unequal lengths")
        try:
            if name == "bytes" and len(args) == 1:
                return bytes(args[0])
            if name == "len" and len(args) == 1:
                return len(args[0])
            if name == "zip":
                return list(zip(*args))
            if name == "range":
                return list(range(*args))
            if name == "to_byte_array" and len(args) == 1 and isinstance(args[0], int):
                return tba(args[0])
            if isinstance(f, ast.Attribute) and f.attr == "digest" and not args and isinstance(f.value, ast.Call) and not f.value.keywords:
                h = f.value.func
                if (isinstance(h, ast.Attribute) and h.attr == "sha512" and isinstance(h.value, ast.Name) and h.value.id == "hashlib") or (isinstance(h, ast.Name) and h.id == "sha512"):
                    hargs = [_fold(a, env, tba) for a in f.value.args]
                    if len(hargs) == 1 and isinstance(hargs[0], (bytes, bytearray)):
                        return _hl.sha512(hargs[0]).digest()
        except _NoFold:
            raise
        except Exception as x:  # noqa: BLE001
            raise _NoFold(str(x))
    raise _NoFold(type(e).__name__)


def run(ctx: Context) -> None:
    ck = ctx.ck
    if ck.rule("C02.K1", "group constants against the computed oracle"):
        _k1(ctx)
    if ck.rule("C02.T1", "padding taint"):
        _t1(ctx)
    if ck.rule("C02.T2", "formula shape"):
        _t2(ctx)
    if ck.rule("C02.W1", "byte-level API use in pair-setup"):
        _w1(ctx)


def _k1(ctx: Context) -> None:
    ck = ctx.ck
    P = ctx.prog
    loc = "aiohomekit/crypto/srp.py:1"
    N = modulus_3072()
    try:
        n_repo = P.const_of(f"{SRPM}.MODULUS_VALUE")
        g_repo = P.const_of(f"{SRPM}.GENERATOR_VALUE")
        k_repo = P.const_of(f"{SRPM}.CLIENT_K_VALUE")
        l_repo = P.const_of(f"{SRPM}.HK_KEY_LENGTH")
    except NotConst as e:
        ck.unknown("C02.K1", f"SRP group constant is not a literal: {e}", loc)
        return
    ck.check("C02.K1", n_repo == N, "MODULUS_VALUE = RFC 3526 3072-bit prime (computed from its pi formula)", f"{SRPM}:MODULUS_VALUE",
             f"MODULUS_VALUE differs from the RFC 3526/5054 3072-bit modulus (bit length {n_repo.bit_length() if isinstance(n_repo, int) else '?'}, "
             f"first differing hex digit at {_first_diff(n_repo, N)})", loc)
    ck.check("C02.K1", g_repo == GENERATOR, "GENERATOR_VALUE = 5", f"{SRPM}:GENERATOR_VALUE", f"GENERATOR_VALUE is {g_repo}", loc)
    ck.check("C02.K1", l_repo == KEY_LENGTH == (N.bit_length() + 7) // 8, "HK_KEY_LENGTH = 384 = byte length of N", f"{SRPM}:HK_KEY_LENGTH", f"HK_KEY_LENGTH is {l_repo}", loc)
    ck.check("C02.K1", k_repo == k_value(N, GENERATOR), "CLIENT_K_VALUE = SHA512(N | PAD384(g))", f"{SRPM}:CLIENT_K_VALUE", "CLIENT_K_VALUE differs from SHA512(N | PAD(g)) of the RFC group", loc)
    m = P.module(SRPM)
    want = {
        "HASH_MOD": "hashlib.sha512(to_byte_array(MODULUS_VALUE)).digest()",
        "HASH_GEN": "hashlib.sha512(to_byte_array(GENERATOR_VALUE)).digest()",
        "H_GROUP": "bytes((HASH_MOD[i] ^ HASH_GEN[i] for i in range(len(HASH_MOD))))",
    }
    # the three hash constants are decided by VALUE: their defining expressions are folded with a small whitelisted
    # constant evaluator (sha512, bytes, zip/range comprehensions, xor, indexing) and compared with the oracle's value, so
    # any spelling of the same constant is accepted and any other constant is not
    import hashlib as _hl

    def _tba(n: int) -> bytes:
        return n.to_bytes((n.bit_length() + 7) // 8, "big")

    oracle = {"HASH_MOD": _hl.sha512(_tba(N)).digest(), "HASH_GEN": _hl.sha512(_tba(GENERATOR)).digest()}
    oracle["H_GROUP"] = bytes(a ^ b for a, b in zip(oracle["HASH_MOD"], oracle["HASH_GEN"]))
    env = {"MODULUS_VALUE": n_repo, "GENERATOR_VALUE": g_repo, "HK_KEY_LENGTH": l_repo}
    folded = {}
    for name in ("HASH_MOD", "HASH_GEN", "H_GROUP"):
        vals = m.assigns.get(name, [])
        if len(vals) == 1:
            try:
                folded[name] = _fold(vals[0], dict(env, **folded), _tba)
            except _NoFold:
                pass
    for name, src in want.items():
        vals = m.assigns.get(name, [])
        if name in folded:
            ck.check("C02.K1", folded[name] == oracle[name], f"{name} has the value of {src} (constant folded)", f"{SRPM}:{name}",
                     f"{name} is defined as `{_u(vals[0])[:100]}`, whose value differs from {src} of the RFC group", loc)
            continue
        ok = len(vals) == 1 and ast.dump(vals[0]) == ast.dump(ast.parse(src, mode="eval").body)
        alt = name == "H_GROUP" and len(vals) == 1 and ast.dump(vals[0]) == ast.dump(ast.parse("bytes((a ^ b for a, b in zip(HASH_MOD, HASH_GEN)))", mode="eval").body)
        if len(vals) == 1 and not (ok or alt):
            # a differently written but recognisable definition is not decided; an obviously different one is a violation
            names = {x.id for x in ast.walk(vals[0]) if isinstance(x, ast.Name)}
            need = {"HASH_MOD": {"MODULUS_VALUE"}, "HASH_GEN": {"GENERATOR_VALUE"}, "H_GROUP": {"HASH_MOD", "HASH_GEN"}}[name]
            if need <= names and ("sha512" in _u(vals[0]) or name == "H_GROUP") and not (name != "H_GROUP" and "pad_left" in _u(vals[0])):
                ck.unknown("C02.K1", f"{name} is defined as `{_u(vals[0])[:80]}`: shape not recognised", loc)
                continue
        ck.check("C02.K1", ok or alt, f"{name} = {src}", f"{SRPM}:{name}", f"{name} is defined as `{_u(vals[0])[:100] if vals else 'missing'}` instead of {src}", loc)
    # the hash function
    init = ctx.func(f"{SRP}.__init__")
    hs = [x for x in walk_own(init.node) if isinstance(x, ast.Assign) and _u(x.targets[0]) == "self.h"]
    ck.check("C02.K1", len(hs) == 1 and ctx.resolve_name(init, hs[0].value) == "hashlib.sha512", "Srp.h = hashlib.sha512", f"{ctx.fkey(init)}:hash",
             f"Srp.h is {_u(hs[0].value) if hs else 'missing'}", init.loc())
    for attr_, const_ in (("g", "GENERATOR_VALUE"), ("n", "MODULUS_VALUE"), ("hGroup", "H_GROUP")):
        a = [x for x in walk_own(init.node) if isinstance(x, ast.Assign) and _u(x.targets[0]) == f"self.{attr_}"]
        ck.check("C02.K1", len(a) == 1 and _u(a[0].value) == const_, f"Srp.{attr_} = {const_}", f"{ctx.fkey(init)}:{attr_}", f"Srp.{attr_} is {_u(a[0].value) if a else 'missing'}", init.loc())
    # who else writes these attributes?
    for g in ctx.prog.package_functions():
        if g.module.name != SRPM or isinstance(g.node, ast.Lambda) or g.qualname == init.qualname:
            continue
        for x in walk_own(g.node):
            if isinstance(x, (ast.Assign, ast.AugAssign)):
                tg = x.targets if isinstance(x, ast.Assign) else [x.target]
                for t in tg:
                    if isinstance(t, ast.Attribute) and t.attr in ("g", "n", "h", "hGroup") and _u(t.value) == "self":
                        ck.violated("C02.K1", f"{ctx.fkey(g)}:rewrites:{t.attr}", f"{g.name} re-assigns the group parameter self.{t.attr}", g.loc(x))
    # digest = h(b''.join(data)).digest()
    df = ctx.func(f"{SRP}.digest")
    rets = [x for x in walk_own(df.node) if isinstance(x, ast.Return)]
    va = df.node.args.vararg.arg if df.node.args.vararg is not None else "data"
    ok = len(rets) == 1 and ast.dump(expand(df.node, rets[0].value)) == ast.dump(ast.parse(f"self.h(b''.join({va})).digest()", mode="eval").body) and df.node.args.vararg is not None
    if not ok and df.node.args.vararg is not None:
        # the same digest computed incrementally: x = self.h(); for c in data: x.update(c); return x.digest()
        body = [st for st in df.node.body if not (isinstance(st, ast.Expr) and isinstance(st.value, ast.Constant))]
        if len(body) == 3 and isinstance(body[0], ast.Assign) and len(body[0].targets) == 1 and isinstance(body[0].targets[0], ast.Name) and isinstance(body[1], ast.For) \
                and isinstance(body[2], ast.Return) and not body[1].orelse and len(body[1].body) == 1 and isinstance(body[1].target, ast.Name):
            hv, cv = body[0].targets[0].id, body[1].target.id
            ok = (_u(body[0].value) == "self.h()" and _u(body[1].iter) == va and _u(body[1].body[0]) == f"{hv}.update({cv})" and _u(body[2].value) == f"{hv}.digest()")
    if ok:
        ck.holds("C02.K1", "digest(*data) = h(concatenation of data).digest()", df.loc())
    else:
        # a differently written digest is not compared here: not decided (the formulas that use it are compared by T2)
        ck.unknown("C02.K1", f"Srp.digest is written in a form this rule does not read (`{_u(rets[0].value) if rets else ''}`): not decided", df.loc())
    # pad_left / to_byte_array
    pf = ctx.func(f"{SRPM}.pad_left")
    rets = [x for x in walk_own(pf.node) if isinstance(x, ast.Return)]
    ok = len(rets) == 1 and ast.dump(expand(pf.node, rets[0].value)) == ast.dump(ast.parse(f"bytes({pf.pos_params[1]} - len({pf.pos_params[0]})) + {pf.pos_params[0]}", mode="eval").body)
    ck.check("C02.K1", ok, "pad_left(data, n) = n - len(data) zero bytes | data", f"{ctx.fkey(pf)}:shape", f"pad_left is `{_u(rets[0].value) if rets else ''}`", pf.loc())
    tf = ctx.func(f"{SRPM}.to_byte_array")
    rets = [x for x in walk_own(tf.node) if isinstance(x, ast.Return)]
    p0 = tf.pos_params[0]
    forms = [f"bytearray({p0}.to_bytes(int(math.ceil({p0}.bit_length() / 8)), 'big'))", f"bytearray({p0}.to_bytes(({p0}.bit_length() + 7) // 8, 'big'))",
             f"{p0}.to_bytes(({p0}.bit_length() + 7) // 8, 'big')"]
    ok = len(rets) == 1 and any(ast.dump(expand(tf.node, rets[0].value)) == ast.dump(ast.parse(s, mode="eval").body) for s in forms)
    ck.check("C02.K1", ok, "to_byte_array(n) = minimal big-endian bytes of n", f"{ctx.fkey(tf)}:shape", f"to_byte_array is `{_u(rets[0].value) if rets else ''}`", tf.loc())


def _first_diff(a, b) -> str:
    if not isinstance(a, int):
        return "not an int"
    ha, hb = f"{a:x}", f"{b:x}"
    for i, (x, y) in enumerate(zip(ha, hb)):
        if x != y:
            return str(i)
    return "length"


# ---------------------------------------------------------------------- T1
def _unsanitised(t, allowed_lengths) -> list:
    """to_byte_array(...) occurrences not directly wrapped by pad_left(., n) with n in allowed_lengths"""
    out = []

    def rec(x, wrapped):
        if not isinstance(x, tuple) or not x:
            return
        if x[0] == "const":
            return
        if x[0] == "call" and x[1] in (TBA, TBA2):
            if not wrapped:
                out.append(x)
            for a in x[2]:
                rec(a, False)
            return
        if x[0] == "call" and x[1] == PAD and len(x[2]) == 2:
            ok = x[2][1][0] == "const" and x[2][1][1] in allowed_lengths
            rec(x[2][0], ok)
            return
        for y in x:
            if isinstance(y, tuple):
                rec(y, False)

    rec(t, False)
    return out


def _attr_writers(ctx: Context, T: Terms, classes, attr_):
    out = []
    for cn in classes:
        c = ctx.prog.cls(cn)
        for m in c.methods.values():
            cfg = ctx.cfg(m.qualname)
            for n in cfg.nodes:
                if n.kind == "stmt" and isinstance(n.ast, (ast.Assign, ast.AnnAssign)):
                    tg = n.ast.targets if isinstance(n.ast, ast.Assign) else [n.ast.target]
                    for t in tg:
                        if isinstance(t, ast.Attribute) and t.attr == attr_ and _u(t.value) == "self" and n.ast.value is not None:
                            out.append((m, n, strip_sites(T.of(cfg, n, n.ast.value))))
    return out


def _t1(ctx: Context) -> None:
    ck = ctx.ck
    T = _terms(ctx)
    classes = [SRP, CLI]
    sinks = 0
    checked_attrs = set()

    def check_term(where, node, t, what):
        nonlocal sinks
        sinks += 1
        bad = _unsanitised(t, {KEY_LENGTH, 16})
        ck.check("C02.T1", not bad, f"{what}: no minimal-length byte string reaches it unpadded", f"{where.module.name}:{where.qualname[len(where.module.name) + 1:]}:unpadded:{what}",
                 f"{what} in {where.name} receives {show(bad[0], 100) if bad else ''} without pad_left: for the 1-in-256 values with a leading zero byte the "
                 "hash input is one byte short and the result differs from the accessory's", ctx.loc(where, node))
        for s in subterms(t):
            if s[0] == "attr" and s[1] == ("param", "self") and s[2] not in checked_attrs and not (len(s) == 3 and False):
                a = s[2]
                writers = _attr_writers(ctx, T, classes, a)
                if not writers:
                    continue
                checked_attrs.add(a)
                for m, n, vt in writers:
                    if vt == ("const", None):
                        continue
                    check_term(m, n, vt, f"self.{a}")

    for cn in classes:
        c = ctx.prog.cls(cn)
        for m in c.methods.values():
            cfg = ctx.cfg(m.qualname)
            for n in cfg.nodes:
                for cl in ctx.calls(n):
                    if isinstance(cl.func, ast.Attribute) and cl.func.attr == "digest" and _u(cl.func.value) == "self":
                        for i, a in enumerate(cl.args):
                            check_term(m, n, strip_sites(T.of(cfg, n, a)), f"digest argument {i + 1}")
            if m.name.endswith("_bytes") and m.name.startswith("get_"):
                for n in cfg.nodes:
                    if n.kind == "return" and n.exprs:
                        check_term(m, n, strip_sites(T.of(cfg, n, n.exprs[0])), f"value returned by {m.name}")
    ck.require_min("C02.T1", "taint sinks (digest arguments, byte getters, attribute writers)", sinks, 10)


# ---------------------------------------------------------------------- T2
def _norm(t):
    """One spelling for equal byte strings: X.to_bytes(384, 'big') is PAD384(to_byte_array(X)) for 0 <= X < 2^3072 (every
    SRP group element); the class-qualified to_byte_array is the module function."""
    if not isinstance(t, tuple):
        return t
    if t and t[0] == "const":
        return t
    t = tuple(_norm(x) for x in t)
    if len(t) >= 4 and t[0] == "call" and isinstance(t[1], tuple) and t[1][:1] == ("attr",) and t[1][2] == "to_bytes":
        args, kw = t[2], dict(t[3])
        ln = args[0] if len(args) >= 1 else kw.get("length")
        bo = args[1] if len(args) >= 2 else kw.get("byteorder")
        if ln == KLEN and bo == ("const", "big"):
            return call(PAD, call(TBA, t[1][1]), KLEN)
    if len(t) >= 4 and t[0] == "call" and t[1] == TBA2:
        return ("call", TBA) + t[2:]
    return t


def _subst_params(t, m: dict):
    if not isinstance(t, tuple):
        return t
    if len(t) == 2 and t[0] == "param" and t[1] in m:
        return m[t[1]]
    if t and t[0] == "const":
        return t
    return tuple(_subst_params(x, m) for x in t)


def make_expander(ctx: Context, T):
    """-> expand(term): calls of the client's own *formula helpers* (a method of SrpClient / Srp with fixed parameters, one
    `return <expression>` and no attribute store - `_calculate_u`, `verify_servers_proof`, `_calculate_k` ...) are replaced by
    the formula they return, arguments substituted, so that a formula compares equal whether it is written through the
    helper or spelled out in place; `==` operands are put in one order.  Each helper's own formula is checked on its own."""
    cache: dict = {}

    def formula(name: str):
        if name in cache:
            return cache[name]
        cache[name] = None
        g = None
        for cn in (CLI, SRP):
            c = ctx.prog.classes.get(cn)
            if c is not None and name in c.methods:
                g = c.methods[name]
                break
        if g is None or isinstance(g.node, ast.Lambda):
            return None
        a = g.node.args
        if a.vararg or a.kwarg or a.kwonlyargs or not g.pos_params:
            return None
        if any(isinstance(x, (ast.Assign, ast.AugAssign, ast.AnnAssign)) and any(isinstance(y, ast.Attribute) and isinstance(y.ctx, ast.Store) for y in ast.walk(x))
               for x in walk_own(g.node)):
            return None
        cfg = ctx.cfg(g.qualname)
        rets = [n for n in cfg.nodes if n.kind == "return"]
        if len(rets) != 1 or not rets[0].exprs or rets[0].exprs[0] is None:
            return None
        t = _norm(strip_sites(T.of(cfg, rets[0], rets[0].exprs[0])))
        if has_unknown(t):
            return None
        cache[name] = (g.pos_params, t)
        return cache[name]

    acache: dict = {}

    def cached_attr(name: str):
        """`self.k` / `self.x` hold a value computed once from other attributes (`self.k = self._calculate_k()` in __init__,
        `self.x = self._calculate_client_password_x()` in set_salt): the formula they abbreviate, when exactly one statement
        of the two classes writes the attribute and what it writes depends on self only.  A formula reads the same whether it
        uses the cached attribute or computes the value in place (WHEN the cache is filled is checked where it is filled)."""
        if name in acache:
            return acache[name]
        acache[name] = None
        found = []
        for cn in (CLI, SRP):
            c = ctx.prog.classes.get(cn)
            for g in (c.methods.values() if c is not None else ()):
                if isinstance(g.node, ast.Lambda):
                    continue
                for x in walk_own(g.node):
                    if isinstance(x, ast.Assign) and any(_u(tg) == f"self.{name}" for tg in x.targets):
                        found.append((g, x))
        if len(found) == 1:
            g, x = found[0]
            cfg = ctx.cfg(g.qualname)
            nd = next((n for n in cfg.nodes if n.ast is x), None)
            if nd is not None:
                t = _norm(strip_sites(T.of(cfg, nd, x.value)))
                if not has_unknown(t) and not contains(t, lambda s_: isinstance(s_, tuple) and s_[:1] == ("param",) and s_ != ("param", "self")):
                    acache[name] = t
        return acache[name]

    def expand(t, depth=0):
        if not isinstance(t, tuple) or not t or t[0] == "const":
            return t
        if len(t) == 3 and t[0] == "attr" and t[1] == ("param", "self") and t[2] in ("k", "x") and depth < 8:
            ca = cached_attr(t[2])
            if ca is not None:
                return expand(ca, depth + 1)
        t = tuple(expand(x, depth) for x in t)
        if len(t) >= 4 and t[0] == "call" and isinstance(t[1], tuple) and len(t[1]) == 3 and t[1][0] == "attr" and t[1][1] == ("param", "self") and not t[3] and depth < 8:
            fm = formula(t[1][2])
            if fm is not None and len(fm[0]) - 1 == len(t[2]) and not any(isinstance(x, tuple) and x[:1] == ("star",) for x in t[2]):
                m = {p: a for p, a in zip(fm[0][1:], t[2])}
                m[fm[0][0]] = ("param", "self")
                return expand(_subst_params(fm[1], m), depth + 1)
        if len(t) == 3 and t[0] == "cmp" and t[1] in (("Eq",), ("NotEq",)) and len(t[2]) == 2:
            return ("cmp", t[1], tuple(sorted(t[2], key=repr)))
        return t

    return expand


def _single_return(ctx, T, q):
    f = ctx.func(q)
    cfg = ctx.cfg(q)
    rets = [n for n in cfg.nodes if n.kind == "return" and n.exprs]
    return f, cfg, rets


def session_key_chain(ctx: Context, rule: str, T=None, fexpand=None) -> None:
    """S bytes = PAD384(S) and K = H(PAD384(S)), cached only by get_session_key_bytes.  Part of C02.T2; C03.K1 runs the
    same three obligations under its own id, because the M5 request C03.T1 compares takes `get_session_key_bytes()` as
    given: a K a conformant accessory does not compute makes it reject the controller's M3/M5."""
    ck = ctx.ck
    T = T or _terms(ctx)
    fexpand = fexpand or make_expander(ctx, T)

    def expect(q, want, what, pick=None):
        f, cfg, rets = _single_return(ctx, T, q)
        got = [_norm(strip_sites(T.of(cfg, r, r.exprs[0]))) for r in rets]
        ok = len(got) == 1 and fexpand(got[0]) in [fexpand(_norm(w)) for w in (want if isinstance(want, list) else [want])]
        ck.check(rule, ok, what, f"{ctx.fkey(f)}:formula", f"{f.qualname.split('.')[-2]}.{f.name} computes {[show(g, 300) for g in got]}; specification: {what}", f.loc())

    expect(f"{SRP}.get_shared_secret_bytes", [call(PAD, call(TBA2, meth("get_shared_secret")), KLEN), call(PAD, call(TBA, meth("get_shared_secret")), KLEN)], "S bytes = PAD384(S)")
    # K = H(PAD(S)): the value cached and returned
    f = ctx.func(f"{SRP}.get_session_key_bytes")
    cfg = ctx.cfg(f.qualname)
    ws = [(n, strip_sites(T.of(cfg, n, n.ast.value))) for n in cfg.nodes if n.kind == "stmt" and isinstance(n.ast, ast.Assign) and any(_u(tg_) == "self._session_key" for tg_ in n.ast.targets)]
    rets = [strip_sites(T.of(cfg, n, n.exprs[0])) for n in cfg.nodes if n.kind == "return" and n.exprs]
    k_t = meth("digest", meth("get_shared_secret_bytes"))
    def alts(t):
        return [a for x in t[1] for a in alts(x)] if t[0] == "phi" else [t]

    # the cached value or the freshly computed one, through any arrangement of temporaries / branches
    ok = (ws and all(a == k_t for w in ws for a in alts(w[1])) and all(a in (S("_session_key"), k_t) for r in rets for a in alts(r))) or (not ws and rets == [k_t])
    ck.check(rule, bool(ok), "K = H(PAD384(S))", f"{ctx.fkey(f)}:formula", f"get_session_key_bytes computes {[show(w[1], 120) for w in ws] or [show(r, 120) for r in rets]}", f.loc())
    other = [g.qualname for cn in (SRP, CLI) for g in ctx.prog.cls(cn).methods.values() if g.qualname != f.qualname and g.name != "__init__"
             for x in walk_own(g.node) if isinstance(x, ast.Assign) and _u(x.targets[0]) == "self._session_key"]
    ck.check(rule, not other, "the cached session key is written only by get_session_key_bytes", f"{SRP}:session-key-writers", f"_session_key is also written by {other}", f.loc())


def _t2(ctx: Context) -> None:
    ck = ctx.ck
    T = _terms(ctx)
    fexpand = make_expander(ctx, T)

    def expect(q, want, what, pick=None):
        f, cfg, rets = _single_return(ctx, T, q)
        if pick is not None:
            rets = [r for r in rets if pick(strip_sites(T.of(cfg, r, r.exprs[0])))]
        got = [_norm(strip_sites(T.of(cfg, r, r.exprs[0]))) for r in rets]
        ok = len(got) == 1 and fexpand(got[0]) in [fexpand(_norm(w)) for w in (want if isinstance(want, list) else [want])]
        ck.check("C02.T2", ok, what, f"{ctx.fkey(f)}:formula", f"{f.qualname.split('.')[-2]}.{f.name} computes {[show(g, 300) for g in got]}; specification: {what}", f.loc())

    user_pass = ("call", ("attr", ("fstr", (("fmt", S("username"), -1, None), ("const", ":"), ("fmt", S("password"), -1, None))), "encode"), (), ())
    expect(f"{SRP}._calculate_u", big(meth("digest", S("A_b"), S("B_b"))), "u = int(H(A_b | B_b))")
    expect(f"{SRP}._calculate_client_password_x", big(meth("digest", S("salt_b"), meth("digest", user_pass))), "x = int(H(salt_b | H(username ':' password)))")
    u = meth("_calculate_u")
    # (k and x in their computed form: a cached `self.k` / `self.x` in the code is expanded to the same by the expander)
    x_t, k_t0 = meth("_calculate_client_password_x"), meth("_calculate_k")
    v = call(("glob", "pow"), S("g"), x_t, S("n"))
    s_term = call(("glob", "pow"), ("binop", "Sub", S("B"), ("binop", "Mult", k_t0, v)), ("add", (S("a"), ("binop", "Mult", u, x_t))), S("n"))
    # the base may be reduced mod N first: pow(b, e, N) == pow(b % N, e, N) for the non-negative exponent a + u*x
    s_term_red = call(("glob", "pow"), ("binop", "Mod", ("binop", "Sub", S("B"), ("binop", "Mult", k_t0, v)), S("n")), ("add", (S("a"), ("binop", "Mult", u, x_t))), S("n"))
    expect(f"{CLI}.get_shared_secret", [s_term, s_term_red], "S = pow(B - k*pow(g, x, N), a + u*x, N)")
    session_key_chain(ctx, "C02.T2", T, fexpand)
    K = meth("get_session_key_bytes")
    expect(f"{CLI}.get_proof_bytes", meth("digest", S("hGroup"), S("hu"), S("salt_b"), S("A_b"), S("B_b"), K), "M1 = H(H_GROUP | H(user) | salt_b | A_b | B_b | K)")
    m_param = ctx.func(f"{CLI}.verify_servers_proof").pos_params[1]
    acc = big(meth("digest", S("A_b"), meth("get_proof_bytes"), K))
    expect(f"{CLI}.verify_servers_proof", [("cmp", ("Eq",), (acc, ("param", m_param))), ("cmp", ("Eq",), (("param", m_param), acc))], "accept iff int(H(A_b | M1 | K)) == M")
    mb = ctx.func(f"{CLI}.verify_servers_proof_bytes").pos_params[1]
    expect(f"{CLI}.verify_servers_proof_bytes", meth("verify_servers_proof", big(("param", mb))), "byte form: verify_servers_proof(int(M bytes))")
    expect(f"{CLI}.get_public_key_bytes", S("A_b"), "public key bytes = A_b")
    expect(f"{SRP}._calculate_k", ("const", ctx.prog.const_of(f"{SRPM}.CLIENT_K_VALUE")), "k = CLIENT_K_VALUE")
    expect(f"{SRP}.generate_private_key", [call(FROM_BYTES, call(("glob", "os.urandom"), ("const", 16)), kw=(("byteorder", ("const", "big")),)), big(call(("glob", "os.urandom"), ("const", 16)))],
           "a = int(os.urandom(16))")
    # constructor of the client
    init = ctx.func(f"{CLI}.__init__")
    icfg = ctx.cfg(init.qualname)
    asg = {}
    for n in icfg.nodes:
        if n.kind == "stmt" and isinstance(n.ast, ast.Assign) and isinstance(n.ast.targets[0], ast.Attribute) and _u(n.ast.targets[0].value) == "self":
            v_ = _norm(strip_sites(T.of(icfg, n, n.ast.value)))
            a_ = n.ast.targets[0].attr
            # several stores of one attribute (a conditional assignment): every value it can be given
            asg[a_] = v_ if a_ not in asg or asg[a_] == v_ else ("phi", (asg[a_][1] if asg[a_][0] == "phi" else (asg[a_],)) + (v_,))
    rows = {
        "a": meth("generate_private_key"),
        "A": call(("glob", "pow"), S("g"), S("a"), S("n")),
        "A_b": call(PAD, call(TBA, S("A")), KLEN),
        "k": meth("_calculate_k"),
    }
    def _unpassed(t_):
        """alternatives of t_ without a constructor parameter that has a default and that no caller in the package passes"""
        alts_ = [x_ for y_ in t_[1] for x_ in (_unpassed(y_)[1] if _unpassed(y_)[0] == "phi" else [_unpassed(y_)])] if t_[0] == "phi" else [t_]
        keep = [x_ for x_ in alts_ if not (x_[0] == "param" and ctx.param_never_passed(init, x_[1]))]
        keep = keep or alts_
        return keep[0] if len(keep) == 1 else ("phi", tuple(keep))

    asg = {k_: _unpassed(v_) for k_, v_ in asg.items()}
    for a, w in rows.items():
        if a == "k" and a not in asg and not any(isinstance(x, ast.Attribute) and x.attr == "k" and _u(x.value) == "self" for cn in (CLI, SRP)
                                                    for g in ctx.prog.cls(cn).methods.values() for x in ast.walk(g.node)):
            continue  # k is not cached at all: every formula computes it in place (and is compared in that form)
        ck.check("C02.T2", a in asg and fexpand(asg[a]) == fexpand(_norm(w)), f"SrpClient.{a} = {show(w, 60)}", f"{ctx.fkey(init)}:{a}", f"SrpClient.__init__ sets {a} = {show(asg.get(a, ('unknown', 'missing')), 120)}", init.loc())
    binit = ctx.func(f"{SRP}.__init__")
    bcfg = ctx.cfg(binit.qualname)
    hu = [strip_sites(T.of(bcfg, n, n.ast.value)) for n in bcfg.nodes if n.kind == "stmt" and isinstance(n.ast, ast.Assign) and _u(n.ast.targets[0]) == "self.hu"]
    ck.check("C02.T2", hu == [meth("digest", call(("attr", S("username"), "encode")))], "H(user) = digest(username.encode())", f"{ctx.fkey(binit)}:hu", f"Srp.hu is {[show(h, 80) for h in hu]}", binit.loc())
    # user name / password are the constructor's parameters
    for a, p in (("username", binit.pos_params[1]), ("password", binit.pos_params[2])):
        w = [strip_sites(T.of(bcfg, n, n.ast.value)) for n in bcfg.nodes if n.kind == "stmt" and isinstance(n.ast, ast.Assign) and _u(n.ast.targets[0]) == f"self.{a}"]
        ck.check("C02.T2", w == [("param", p)], f"Srp.{a} is the constructor argument", f"{ctx.fkey(binit)}:{a}", f"Srp.{a} is {[show(x, 60) for x in w]}", binit.loc())
    # set_salt / set_server_public_key
    ss = ctx.func(f"{CLI}.set_salt")
    scfg = ctx.cfg(ss.qualname)
    sp = ("param", ss.pos_params[1])
    salt_w = [(n, strip_sites(T.of(scfg, n, n.ast.value))) for n in scfg.nodes if n.kind == "stmt" and isinstance(n.ast, ast.Assign) and _u(n.ast.targets[0]) == "self.salt"]
    def _arms(t):  # what a conditional expression / several definitions can give
        if t[0] == "ifexp":
            return _arms(t[2]) + _arms(t[3])
        if t[0] == "phi":
            return [a for x in t[1] for a in _arms(x)]
        return [t]

    okw = {a for w in salt_w for a in _arms(w[1])} == {big(sp), sp}
    sb = [(n, strip_sites(T.of(scfg, n, n.ast.value))) for n in scfg.nodes if n.kind == "stmt" and isinstance(n.ast, ast.Assign) and _u(n.ast.targets[0]) == "self.salt_b"]
    okb = len(sb) == 1 and sb[0][1] == call(PAD, call(TBA, S("salt")), ("const", 16))
    xs = [(n, strip_sites(T.of(scfg, n, n.ast.value))) for n in scfg.nodes if n.kind == "stmt" and isinstance(n.ast, ast.Assign) and _u(n.ast.targets[0]) == "self.x"]
    okx = len(xs) == 1 and xs[0][1] == meth("_calculate_client_password_x") and okb and scfg.find_path(scfg.entry.id, xs[0][0].id, avoid_nodes=[sb[0][0].id]) is None
    if not xs and not any(isinstance(x, ast.Attribute) and x.attr == "x" and _u(x.value) == "self" for cn in (CLI, SRP) for g in ctx.prog.cls(cn).methods.values() for x in ast.walk(g.node)):
        okx = True  # x is not cached: the formulas that need it compute it from salt_b at the time of use
    ck.check("C02.T2", okw and okb and okx, "set_salt: salt int from the bytes, salt_b = PAD16(salt), x computed after salt_b is set", f"{ctx.fkey(ss)}:shape",
             f"set_salt: salt={[show(w[1], 50) for w in salt_w]} salt_b={[show(w[1], 70) for w in sb]} x={[show(w[1], 50) for w in xs]}", ss.loc())
    sk = ctx.func(f"{CLI}.set_server_public_key")
    kcfg = ctx.cfg(sk.qualname)
    bp = ("param", sk.pos_params[1])
    wB = {n.ast.targets[0].attr: strip_sites(T.of(kcfg, n, n.ast.value)) for n in kcfg.nodes if n.kind == "stmt" and isinstance(n.ast, ast.Assign) and isinstance(n.ast.targets[0], ast.Attribute)}
    ck.check("C02.T2", wB.get("B_b") == bp and wB.get("B") == big(bp), "set_server_public_key: B_b = the bytes received, B = int(B_b)", f"{ctx.fkey(sk)}:shape",
             f"set_server_public_key: {({k: show(v, 50) for k, v in wB.items()})}", sk.loc())
    # attribute writers outside these: x, a, A, A_b, B, B_b, k, salt_b
    for a, allowed in (("x", {f"{CLI}.set_salt"}), ("a", {f"{CLI}.__init__"}), ("A_b", {f"{CLI}.__init__", f"{SRP}.__init__"}), ("A", {f"{CLI}.__init__", f"{SRP}.__init__"}),
                       ("B", {f"{CLI}.set_server_public_key", f"{SRP}.__init__"}), ("B_b", {f"{CLI}.set_server_public_key", f"{SRP}.__init__"}), ("k", {f"{CLI}.__init__"}),
                       ("salt_b", {f"{CLI}.set_salt", f"{SRP}.__init__"})):
        ws2 = {m.qualname for m, n, vt in _attr_writers(ctx, T, [SRP, CLI], a)}
        ck.check("C02.T2", ws2 <= allowed, f"self.{a} is written only by {sorted(x.rsplit('.', 2)[-2] + '.' + x.rsplit('.', 1)[-1] for x in allowed)}", f"{CLI}:writers:{a}",
                 f"self.{a} is also written by {sorted(ws2 - allowed)}", ctx.func(f"{CLI}.__init__").loc())


def _w1(ctx: Context) -> None:
    ck = ctx.ck
    f = ctx.func("aiohomekit.protocol.perform_pair_setup_part2")
    cfg = ctx.cfg(f.qualname)
    T = ctx.terms
    allowed = {"set_salt", "set_server_public_key", "get_public_key_bytes", "get_proof_bytes", "verify_servers_proof_bytes", "get_session_key_bytes"}
    used = {}
    for n in cfg.nodes:
        for c in ctx.calls(n):
            if isinstance(c.func, ast.Attribute):
                names = ctx.callee_names(f, c)
                if any(x.startswith(SRPM + ".") for x in names):
                    used.setdefault(c.func.attr, n)
                else:
                    # by value: the receiver is the client constructed in this function (through a tuple returned by a helper ..)
                    rt = strip_sites(T.of(cfg, n, c.func.value))
                    if rt[0] == "call" and rt[1] in (("glob", CLI), ("glob", CLI + ".__init__")):
                        used.setdefault(c.func.attr, n)
    ck.require_min("C02.W1", "SRP client methods used by pair-setup", len(used), 5)
    for m, n in sorted(used.items()):
        ck.check("C02.W1", m in allowed, f"pair-setup uses SrpClient.{m} (byte-level API)", f"{ctx.fkey(f)}:srp-api:{m}",
                 f"pair-setup calls SrpClient.{m}: integer-valued getters lose leading zero bytes when converted back (use the *_bytes API)", ctx.loc(f, n))
    # no to_byte_array in the protocol module at all
    tba = [x for g in ctx.prog.package_functions() if g.module.name == "aiohomekit.protocol" and not isinstance(g.node, ast.Lambda) for x in walk_own(g.node)
           if isinstance(x, ast.Call) and (ctx.resolve_name(g, x.func) or "").endswith("to_byte_array")]
    ck.check("C02.W1", not tba, "the protocol module never converts SRP integers to bytes itself", "aiohomekit.protocol:to_byte_array", "the protocol module calls to_byte_array (minimal-length bytes) itself", f.loc())
    # exactly one client per exchange, built from ("Pair-Setup", pin)
    ctors = [(n, x) for n in cfg.nodes for x in ctx.calls(n) if ctx.resolve_name(f, x.func) == CLI]
    # by value: the setup code may reach the constructor through a temporary / the parameter of an inlined helper
    ok = len(ctors) == 1 and len(ctors[0][1].args) == 2 and strip_sites(T.of(cfg, ctors[0][0], ctors[0][1].args[0])) == ("const", "Pair-Setup") \
        and strip_sites(T.of(cfg, ctors[0][0], ctors[0][1].args[1])) == ("param", f.pos_params[0])
    ck.check("C02.W1", ok, "one SrpClient('Pair-Setup', pin) per exchange", f"{ctx.fkey(f)}:client", "pair-setup does not build exactly one SrpClient('Pair-Setup', <the setup code>)", f.loc())


MANIFEST = {
    "technique": "constant comparison against an oracle computed by the checker (RFC 3526 pi formula, SHA-512), taint analysis of minimal-length byte "
    "strings over all attribute writers, normalised-term equality with the RFC/HAP formulas, who-may-call on the client's API",
    "level_text": "Static: decides the group constants (against values the checker derives independently), that no unpadded integer encoding can "
    "reach a hash input or a byte getter on any path (the leading-zero hazard the tests hit with probability 1/256 per value), and "
    "that every SRP quantity is computed by exactly the specified formula. Byte-for-byte equality with a conformant accessory for "
    "all inputs then follows relative to Python's pow/int/hashlib; it is not computed.",
    "level_note": "Trusted: Python integer arithmetic and hashlib; the transcription of RFC 5054/HAP in sa/spec/srp.py. An algebraically different "
    "but equal formula would be reported (both terms are printed).",
}

TWIN_FILES = ["aiohomekit/crypto/srp.py", "aiohomekit/protocol/__init__.py"]
_F = "aiohomekit/crypto/srp.py"
VARIANTS = [
    {"name": "one hex digit of N changed", "file": _F, "old": "FFFFFFFFFFFFFFFFC90FDAA22168C234C4C6628B80DC1CD129024E08", "new": "FFFFFFFFFFFFFFFFC90FDAA22168C234C4C6628B80DC1CD129024E09", "expect": "C02.K1"},
    {"name": "one hex digit of k changed", "file": _F, "old": "a9c2e2559bf0ebb53f0cbbf62282906b", "new": "a9c2e2559bf0ebb53f0cbbf62282906c", "expect": "C02.K1"},
    {"name": "SHA-256", "file": _F, "old": "        self.h = hashlib.sha512", "new": "        self.h = hashlib.sha256", "expect": "C02.K1"},
    {"name": "H(g) over the padded generator", "file": _F, "old": "HASH_GEN = hashlib.sha512(to_byte_array(GENERATOR_VALUE)).digest()", "new": "HASH_GEN = hashlib.sha512(pad_left(to_byte_array(GENERATOR_VALUE), HK_KEY_LENGTH)).digest()", "expect": "C02.K1"},
    {"name": "A_b unpadded", "file": _F, "old": "        self.A_b = pad_left(to_byte_array(self.A), HK_KEY_LENGTH)  # public key as bytes\n        self.k", "new": "        self.A_b = to_byte_array(self.A)  # public key as bytes\n        self.k", "expect": ["C02.T1", "C02.T2"]},
    {"name": "shared secret unpadded before hashing", "file": _F, "old": "        return pad_left(Srp.to_byte_array(self.get_shared_secret()), HK_KEY_LENGTH)", "new": "        return bytes(Srp.to_byte_array(self.get_shared_secret()))", "expect": ["C02.T1", "C02.T2"]},
    {"name": "salt unpadded", "file": _F, "old": "        self.salt_b = pad_left(to_byte_array(self.salt), 16)\n        self.x", "new": "        self.salt_b = to_byte_array(self.salt)\n        self.x", "expect": ["C02.T1", "C02.T2"]},
    {"name": "padded to 383", "file": _F, "old": "        return pad_left(Srp.to_byte_array(self.get_shared_secret()), HK_KEY_LENGTH)", "new": "        return pad_left(Srp.to_byte_array(self.get_shared_secret()), HK_KEY_LENGTH - 1)", "expect": ["C02.T1", "C02.T2"]},
    {"name": "exponent a - u*x", "file": _F, "old": "        tmp2 = self.a + (u * self.x)  # % self.n", "new": "        tmp2 = self.a - (u * self.x)  # % self.n", "expect": "C02.T2"},
    {"name": "k dropped from the base", "file": _F, "old": "        tmp1 = self.B - (self.k * v)", "new": "        tmp1 = self.B - v", "expect": "C02.T2"},
    {"name": "salt missing from M1", "file": _F, "old": "            self.hGroup,\n            self.hu,\n            self.salt_b,\n            self.A_b,\n            self.B_b,\n            K,\n        )\n\n    def verify_servers_proof_bytes",
     "new": "            self.hGroup,\n            self.hu,\n            self.A_b,\n            self.B_b,\n            K,\n        )\n\n    def verify_servers_proof_bytes", "expect": "C02.T2"},
    {"name": "u over (B, A)", "file": _F, "old": "        return int.from_bytes(self.digest(self.A_b, self.B_b), \"big\")", "new": "        return int.from_bytes(self.digest(self.B_b, self.A_b), \"big\")", "expect": "C02.T2"},
    {"name": "password not in x", "file": _F, "old": "self.digest(f\"{self.username}:{self.password}\".encode())", "new": "self.digest(f\"{self.username}:\".encode())", "expect": "C02.T2"},
    {"name": "server proof accepted without K", "file": _F, "old": "                    self.A_b,\n                    self.get_proof_bytes(),\n                    self.get_session_key_bytes(),\n                ),", "new": "                    self.A_b,\n                    self.get_proof_bytes(),\n                ),", "expect": "C02.T2"},
    {"name": "x computed before the salt bytes are stored", "file": _F, "old": "        self.salt_b = pad_left(to_byte_array(self.salt), 16)\n        self.x = self._calculate_client_password_x()", "new": "        self.x = self._calculate_client_password_x()\n        self.salt_b = pad_left(to_byte_array(self.salt), 16)", "expect": "C02.T2"},
    {"name": "little-endian proof comparison", "file": _F, "old": "        return self.verify_servers_proof(int.from_bytes(M_b, \"big\"))", "new": "        return self.verify_servers_proof(int.from_bytes(M_b, \"little\"))", "expect": "C02.T2"},
    {"name": "protocol uses the integer getters", "file": "aiohomekit/protocol/__init__.py", "old": "    client_pub_key = srp_client.get_public_key_bytes()", "new": "    client_pub_key = SrpClient.to_byte_array(srp_client.get_public_key())", "expect": "C02.W1"},
]
