"""C12  Subscriptions survive reconnects and every event reaches every listener once."""

from __future__ import annotations

import ast

from ..engine.cfg import CFG
from ..engine.context import Context
from ..engine.loader import walk_expr, walk_own
from ..engine.resolve import _ann_types
from ..engine.terms import contains, show, strip_sites

PROPERTY = "C12"
EXPLANATION = (
    "Static analysis of the IP subscription / event machinery, all CFG paths with exception edges: (G1) at every normal "
    "exit of the secure _connect_once the last write of is_secure is True and owner.connection_made(True) was awaited "
    "after it (or there is no owner); in IpPairing.connection_made every exit of the secure outcome passed "
    "_callback_listeners(<empty event>) and, unless self.subscriptions is empty, an awaited subscribe(self.subscriptions) "
    "whose argument has exactly the elements of the set; (G2) IpPairing.subscribe records its whole argument through "
    "super().subscribe -> self.subscriptions.update(arg) before any other await/raise site and before every exit, then "
    "issues _update_subscriptions(<whole argument>, True) unless one of the documented fall-backs is taken; the request "
    "payload is a comprehension over every element of the argument without a filter carrying aid/iid/ev; the send loop "
    "sends in every iteration and has no normal exit other than exhaustion; supports_subscribe is written only as True in "
    "__init__ and as False on a path that left the subscription request through an AccessoryDisconnectedError edge; "
    "self.subscriptions is mutated only by AbstractPairing.{__init__,subscribe,unsubscribe} (package sweep); (G3) the "
    "chain secure data_received -> data_received[completed message, 'event' outcome] -> connection.event_received -> "
    "owner.event_received -> _callback_listeners(format_characteristic_list(event)) resolves; the first link delivers "
    "exactly once per completed EVENT message (gated by completion and the 'event' outcome, no second delivery before "
    "the message object is renewed, no path around it), every later link is one call outside any loop that can be "
    "skipped only by the documented early returns (no owner, empty body, JSON ValueError), nothing escapes, keys are "
    "(c['aid'], c['iid']), dispatcher_connect adds the callback to the iterated set; (X1) with every listener call made "
    "a raise site of Exception, no path from the listener loop body leaves the function or the loop except through the "
    "loop head, every iteration calls the listener with the event itself, and nothing escapes _callback_listeners. Added from a seeded fault: inside _update_subscriptions an AccessoryDisconnectedError may leave only from the request itself, so that subscribe() cannot take a failure to connect for a cut-off subscription request."
)
TRUSTED = [
    "HomeKitConnection.owner is an IpPairing and InsecureHomeKitProtocol.connection a HomeKitConnection (constructor "
    "parameter annotations)",
    "itertools.groupby partitions its input (drops nothing); set()/list()/tuple()/sorted() keep every element",
    "bytes.decode('utf-8') on an event body and iteration over self.listeners are not raise sites (engine raise-site "
    "definition): an event body that is not valid UTF-8, or a listener that adds/removes listeners while being called, "
    "is outside what is decided here",
]

IPP = "aiohomekit.controller.ip.pairing"
CONN = "aiohomekit.controller.ip.connection"
ABS = "aiohomekit.controller.abstract"
PAIRING = f"{IPP}.IpPairing"
AP = f"{ABS}.AbstractPairing"
HC = f"{CONN}.HomeKitConnection"
SHC = f"{CONN}.SecureHomeKitConnection"
IPROTO = f"{CONN}.InsecureHomeKitProtocol"
SPROTO = f"{CONN}.SecureHomeKitProtocol"
FORMAT = f"{IPP}.format_characteristic_list"
ADE = "aiohomekit.exceptions.AccessoryDisconnectedError"
HTTP_RESPONSE = "aiohomekit.http.response.HttpResponse"
LOADS = "aiohomekit.hkjson.loads"

COPY_FNS = {"set", "list", "tuple", "frozenset", "sorted"}
SET_MUTATORS = {
    "add", "update", "discard", "remove", "clear", "pop", "difference_update", "intersection_update",
    "symmetric_difference_update", "__ior__", "__isub__", "__iand__", "__ixor__",
}  # fmt: skip


# ---------------------------------------------------------------------- generic helpers
def _outer(f):
    g = f
    while g.parent is not None:
        g = g.parent
    return g


def _self_term(f):
    g = _outer(f)
    if g.cls is None or not g.pos_params or "staticmethod" in g.decorators:
        return None
    return ("param", g.pos_params[0])


def _attr_classes(ctx: Context, clsname: str, attr: str) -> set[str]:
    """Package classes an instance attribute may hold: the engine's map plus ``self.attr = <annotated parameter>``."""
    p = ctx.prog
    out = {t for t in ctx.res.attr_type(clsname, attr) if t in p.classes}
    for cn in p.mro(clsname):
        c = p.classes.get(cn)
        if c is None:
            continue
        for m in c.methods.values():
            if isinstance(m.node, ast.Lambda) or not m.pos_params:
                continue
            selfname = m.pos_params[0]
            a = m.node.args
            anns = {x.arg: x.annotation for x in a.posonlyargs + a.args + a.kwonlyargs if x.annotation is not None}
            for n in walk_own(m.node):
                tgt = val = None
                if isinstance(n, ast.Assign) and len(n.targets) == 1:
                    tgt, val = n.targets[0], n.value
                elif isinstance(n, ast.AnnAssign):
                    tgt, val = n.target, n.value
                if (
                    isinstance(tgt, ast.Attribute)
                    and tgt.attr == attr
                    and isinstance(tgt.value, ast.Name)
                    and tgt.value.id == selfname
                    and isinstance(val, ast.Name)
                    and val.id in anns
                ):
                    types, _opt = _ann_types(p, m.module, anns[val.id])
                    out |= {t for t in types if t in p.classes}
    return out


def _methods(prog, clsname: str, meth: str) -> list[str]:
    out = []
    m = prog.lookup_method(clsname, meth)
    if m is not None:
        out.append(m.qualname)
    for sc in sorted(prog.subclasses(clsname)):
        c = prog.classes[sc]
        if meth in c.methods and c.methods[meth].qualname not in out:
            out.append(c.methods[meth].qualname)
    return out


def _callees(ctx: Context, cfg, node, call: ast.Call) -> list[str]:
    """Engine resolution, completed for ``<recv>.<meth>()`` where the receiver's term is ``self.<attr>`` and <attr> is
    typed by an annotated constructor parameter (directly or through a local alias)."""
    f = cfg.func
    names = ctx.callee_names(f, call)
    if any(n in ctx.prog.functions for n in names):
        return names
    fn = call.func
    st = _self_term(f)
    if st is not None and isinstance(fn, ast.Attribute) and node is not None:
        recv = strip_sites(ctx.terms.of(cfg, node, fn.value))
        if recv[0] == "attr" and recv[1] == st:
            out = []
            for t in sorted(_attr_classes(ctx, _outer(f).cls.qualname, recv[2])):
                out += _methods(ctx.prog, t, fn.attr)
            if out:
                return out
    return names


def _calls_to(ctx: Context, cfg, target: str):
    """[(node, call)] for calls whose resolved callee set contains ``target``."""
    out = []
    for n in cfg.nodes:
        for c in ctx.calls(n):
            if target in _callees(ctx, cfg, n, c):
                out.append((n, c))
    return out


def _unresolved_named(ctx: Context, cfg, name: str):
    """Calls of an attribute ``name`` that resolve to no package function (the chain cannot be followed)."""
    out = []
    for n in cfg.nodes:
        for c in ctx.calls(n):
            if isinstance(c.func, ast.Attribute) and c.func.attr == name:
                if not any(x in ctx.prog.functions for x in _callees(ctx, cfg, n, c)):
                    out.append((n, c))
    return out


def _awaited(node, call: ast.Call) -> bool:
    for e in node.exprs:
        if e is None:
            continue
        for sub in walk_expr(e):
            if isinstance(sub, ast.Await) and sub.value is call:
                return True
    return False


def _bound(ctx: Context, cfg, node, call: ast.Call, callee) -> dict | None:
    """parameter name -> argument term (receiver skipped); None when the binding is not plain."""
    params = list(callee.pos_params)
    if callee.cls is not None and callee.parent is None and "staticmethod" not in callee.decorators:
        params = params[1:]
    out = {}
    for i, a in enumerate(call.args):
        if isinstance(a, ast.Starred) or i >= len(params):
            return None
        out[params[i]] = ctx.terms.of(cfg, node, a)
    for kw in call.keywords:
        if kw.arg is None:
            return None
        out[kw.arg] = ctx.terms.of(cfg, node, kw.value)
    return out


def _uncopy(t):
    """Strip element-preserving copies: set(x) / list(x) / tuple(x) / frozenset(x) / sorted(x, ...)."""
    t = strip_sites(t)
    while (
        t[0] == "call"
        and t[1][0] == "glob"
        and t[1][1] in COPY_FNS
        and len(t[2]) == 1
        and (not t[3] or t[1][1] == "sorted")
    ):
        t = t[2][0]
    return t


def _narrowing(t) -> str | None:
    """A construct inside a term that can drop elements (so 'every element' is refuted, not merely unrecognised)."""
    for s in _all_subterms(strip_sites(t)):
        if s[0] == "comp" and any(g[2] for g in s[3]):
            return "a filtered comprehension"
        if s[0] == "binop" and s[1] in ("Sub", "BitAnd", "BitXor"):
            return f"a set {s[1]} operation"
        if s[0] == "ifexp":
            return "a conditional expression"
        if s[0] == "await":
            return "the result of another coroutine"
        if s[0] == "sub" and isinstance(s[2], tuple) and s[2] and s[2][0] == "slice":
            return "a slice"
        if s[0] == "call" and s[1][0] == "attr" and s[1][2] in ("difference", "intersection", "symmetric_difference"):
            return f"a set {s[1][2]}"
        if s[0] == "call" and s[1] == ("glob", "filter"):
            return "filter()"
    return None


def _all_subterms(t):
    if not isinstance(t, tuple) or not t:
        return
    if isinstance(t[0], str) and len(t) >= 2:
        yield t
        if t[0] == "const":
            return
    for x in t:
        if isinstance(x, tuple):
            yield from _all_subterms(x)


def _polarity(t, X):
    """True: the test's true outcome means 'X is truthy/non-empty'; False: it means 'X is falsy'; None: not a test of X."""
    if t == X:
        return True
    if t[0] == "call" and t[1] in (("glob", "len"), ("glob", "bool")) and t[2] == (X,):
        return True
    if t[0] == "cmp" and len(t[1]) == 1:
        op = t[1][0]
        l, r = t[2]
        for a, b in ((l, r), (r, l)):
            if a == X and b[0] == "const" and (b[1] is None or b[1] is False):
                if op in ("Is", "Eq"):
                    return False
                if op in ("IsNot", "NotEq"):
                    return True
            if a == X and b[0] == "const" and b[1] is True:
                if op in ("Is", "Eq"):
                    return True
                if op in ("IsNot", "NotEq"):
                    return False
        len_x = ("call", ("glob", "len"), (X,), ())
        if l == len_x and r[0] == "const" and r[1] == 0 and r[1] is not False:
            if op in ("Gt", "NotEq"):
                return True
            if op in ("Eq", "LtE"):
                return False
    return None


def _direct_test_of(t, xs) -> bool:
    """The test compares / measures one of ``xs`` itself (not something derived from it)."""

    def operand(o):
        return o in xs or (o[0] == "call" and o[1] in (("glob", "len"), ("glob", "bool")) and len(o[2]) == 1 and o[2][0] in xs)

    if operand(t):
        return True
    return t[0] == "cmp" and any(operand(o) for o in t[2])


def _outcomes(ctx: Context, cfg, X, *more):
    """(edges on which X is falsy/None/empty, edges on which it is truthy, tests mentioning X that are not understood).
    ``more``: further terms denoting the same value (e.g. the raw and the decoded body)."""
    xs = (X,) + more
    falsy, truthy, odd = [], [], []
    for n in cfg.nodes:
        if n.kind != "test":
            continue
        t = strip_sites(ctx.terms.of(cfg, n, n.exprs[0]))
        pol = None
        for x in xs:
            pol = _polarity(t, x)
            if pol is not None:
                break
        if pol is None:
            if _direct_test_of(t, xs):
                odd.append(n)
            continue
        falsy += ctx.edges(cfg, n, "F" if pol else "T")
        truthy += ctx.edges(cfg, n, "T" if pol else "F")
    return falsy, truthy, odd


def _producers(ctx: Context, cfg, node, expr, depth: int = 4):
    """CFG nodes that produce the value of ``expr`` as seen at ``node`` (reaching definitions, name-to-name copies followed)."""
    if not isinstance(expr, ast.Name) or depth == 0:
        return [node]
    out = []
    for d, _x in ctx.terms.du(cfg).reaching(node.id, expr.id):
        dn = cfg.nodes[d]
        if dn.kind == "stmt" and isinstance(dn.ast, ast.Assign) and isinstance(dn.ast.value, ast.Name):
            out += _producers(ctx, cfg, dn, dn.ast.value, depth - 1)
        else:
            out.append(dn)
    return out


def _path(cfg, starts, targets, avoid_nodes=(), avoid_edges=()):
    """Witness path from any start to any target that passes through no avoided node/edge (starts included)."""
    avoid = set(avoid_nodes)
    targets = {targets} if isinstance(targets, int) else set(targets)
    for s in starts:
        if s in avoid and s not in targets:
            continue
        p = cfg.find_path(s, targets, avoid_nodes=avoid, avoid_edges=avoid_edges)
        if p is not None:
            return p
    return None


def _in_loop(node) -> bool:
    return any(fr[0] == "loop" for fr in node.frames)


def _innermost_loop(node):
    loops = [fr for fr in node.frames if fr[0] == "loop" and fr[2] == "body"]
    return loops[-1][1] if loops else None


def _loop_heads(cfg, loop: ast.AST):
    return [n for n in cfg.nodes_for(loop) if n.kind in ("for", "loop_head")]


def _store_targets(st: ast.stmt):
    if isinstance(st, ast.Assign):
        for t in st.targets:
            yield from (t.elts if isinstance(t, (ast.Tuple, ast.List)) else [t])
    elif isinstance(st, (ast.AnnAssign, ast.AugAssign)):
        yield st.target
    elif isinstance(st, ast.Delete):
        yield from st.targets


def _is_empty_event(t) -> bool:
    t = strip_sites(t)
    return t == ("dict", ()) or (t[0] == "const" and isinstance(t[1], dict) and not t[1])


def _short(q: str) -> str:
    parts = q.split(".")
    return ".".join(parts[-2:])


# ---------------------------------------------------------------------- entry points
def run(ctx: Context) -> None:
    ck = ctx.ck
    if ck.rule("C12.G1", "reconnect -> listeners notified and every subscription requested again"):
        _g1(ctx)
    if ck.rule("C12.G2", "subscribe records first, requests every id with ev set, documented fall-back only"):
        _g2(ctx)
    if ck.rule("C12.G3", "event path: one delivery per EVENT message, no filter, keyed by (aid, iid)"):
        _g3(ctx)
    if ck.rule("C12.X2", "listeners are delivered from a snapshot; a malformed event body cannot raise out of the event path"):
        _x2(ctx)
    if ck.rule("C12.X1", "listener isolation: a raising listener neither stops delivery nor propagates"):
        f = ctx.func(f"{AP}._callback_listeners")
        n = _isolation(ctx, "C12.X1", f, None, anchor=True)
        ck.require_min("C12.X1", "listener call sites in _callback_listeners", n, 1)


# ---------------------------------------------------------------------- G1
def _g1(ctx: Context) -> None:
    ck = ctx.ck
    T = ctx.terms
    R = "C12.G1"
    # ---- (a) secure _connect_once: is_secure = True, then owner.connection_made(True)
    f = ctx.func(f"{SHC}._connect_once")
    cfg = ctx.cfg(f.qualname)
    st = _self_term(f)
    cm = ctx.func(f"{PAIRING}.connection_made")
    if st is None or len(cm.pos_params) < 2:
        ck.unknown(R, "secure _connect_once / connection_made(secure) no longer have the expected parameters", f.loc())
        return
    secure_param = cm.pos_params[1]
    true_writes, other_writes = [], []
    for n in cfg.nodes:
        if n.kind != "stmt" or not isinstance(n.ast, (ast.Assign, ast.AnnAssign, ast.AugAssign, ast.Delete)):
            continue
        for tg in _store_targets(n.ast):
            if isinstance(tg, ast.Attribute) and tg.attr == "is_secure" and T.of(cfg, n, tg.value) == st:
                val = getattr(n.ast, "value", None)
                is_true = isinstance(n.ast, (ast.Assign, ast.AnnAssign)) and val is not None and T.of(cfg, n, val) == ("const", True)
                (true_writes if is_true else other_writes).append(n)
    secure_edges = []
    for n in true_writes:
        secure_edges += ctx.normal_out(cfg, n)
    owner_types = _attr_classes(ctx, HC, "owner")
    if PAIRING not in owner_types:
        ck.unknown(R, f"cannot establish that HomeKitConnection.owner is an IpPairing (found {sorted(owner_types)})", f.loc())
        return
    notify = []
    for n, c in _calls_to(ctx, cfg, cm.qualname):
        b = _bound(ctx, cfg, n, c, cm)
        if b is None:
            ck.unknown(R, "secure _connect_once: connection_made call with an argument list that cannot be bound", ctx.loc(f, n))
            continue
        if b.get(secure_param) != ("const", True):
            continue
        if not _awaited(n, c):
            ck.unknown(R, "secure _connect_once: owner.connection_made(True) is not awaited directly (shape not recognised)", ctx.loc(f, n))
            continue
        notify.append(n)
    no_owner, _has_owner, odd = _outcomes(ctx, cfg, ("attr", st, "owner"))
    notify_edges = list(no_owner)
    for n in notify:
        notify_edges += ctx.normal_out(cfg, n)
    # at every normal exit the last write of is_secure is True
    starts = [cfg.entry.id] + [d for w in other_writes for (_s, d, _l, _e) in ctx.normal_out(cfg, w)]
    p = _path(cfg, starts, cfg.exit.id, avoid_edges=secure_edges)
    ck.check(
        R,
        p is None,
        "secure _connect_once: at every normal exit the last write of is_secure is True",
        f"{ctx.fkey(f)}:exit-without-is_secure",
        "secure _connect_once can return normally without `self.is_secure = True` being the last write of is_secure "
        + ("(no such assignment)" if not true_writes else "(a path avoids it)"),
        f.loc(),
        cfg.render_path(p) if p else None,
    )
    ctx.must_pass(
        R, cfg, cfg.exit, "await owner.connection_made(True) [or: no owner]", notify_edges,
        desc="secure _connect_once: every normal exit awaited owner.connection_made(True) (or there is no owner)",
    )
    for n in notify:
        starts = [cfg.entry.id] + [d for w in other_writes for (_s, d, _l, _e) in ctx.normal_out(cfg, w)]
        p = _path(cfg, starts, n.id, avoid_edges=secure_edges)
        ck.check(
            R,
            p is None,
            "secure _connect_once: is_secure is True when owner.connection_made(True) is awaited",
            f"{ctx.fkey(f)}:connection_made-before-is_secure",
            "secure _connect_once: owner.connection_made(True) is reachable while is_secure is not (yet) True; the "
            "re-subscription inside it would then wait for a connection that is being made",
            ctx.loc(f, n),
            cfg.render_path(p) if p else None,
        )
    # ---- (b) IpPairing.connection_made
    f2 = cm
    cfg2 = ctx.cfg(f2.qualname)
    st2 = _self_term(f2)
    insecure, _sec, odd2 = _outcomes(ctx, cfg2, ("param", secure_param))
    subs = ("attr", st2, "subscriptions")
    empty, _nonempty, odd3 = _outcomes(ctx, cfg2, subs)
    for n in odd2 + odd3:
        ck.unknown(R, f"connection_made: test `{n.text()}` on the secure flag / subscription set has a shape that is not recognised", ctx.loc(f2, n))
    told = []
    for n, c in _calls_to(ctx, cfg2, f"{AP}._callback_listeners"):
        if len(c.args) == 1 and not c.keywords and _is_empty_event(T.of(cfg2, n, c.args[0])):
            told.append(n)
    told_edges = list(insecure)
    for n in told:
        told_edges += ctx.normal_out(cfg2, n)
    ctx.must_pass(
        R, cfg2, cfg2.exit, "_callback_listeners(<empty event>) [or: insecure]", told_edges,
        desc="connection_made: every exit of the secure outcome told the listeners that the connection is back",
    )
    sub_f = ctx.func(f"{PAIRING}.subscribe")
    resub = []
    for n, c in _calls_to(ctx, cfg2, sub_f.qualname):
        b = _bound(ctx, cfg2, n, c, sub_f)
        arg = b.get(sub_f.pos_params[1]) if b and len(sub_f.pos_params) > 1 else None
        if arg is None:
            ck.unknown(R, "connection_made: subscribe call with an argument list that cannot be bound", ctx.loc(f2, n))
            continue
        if _uncopy(arg) == subs:
            if not _awaited(n, c):
                ck.unknown(R, "connection_made: subscribe(self.subscriptions) is not awaited directly (shape not recognised)", ctx.loc(f2, n))
                continue
            resub.append(n)
            ck.holds(R, "connection_made: the re-subscription argument has exactly the elements of self.subscriptions", ctx.loc(f2, n))
        else:
            why = _narrowing(arg)
            if why or not any(s == subs for s in _all_subterms(strip_sites(arg))):
                ck.violated(
                    R,
                    f"{ctx.fkey(f2)}:resubscribe-argument",
                    f"connection_made: subscribe is called with {show(arg, 120)}, not with every element of self.subscriptions"
                    + (f" ({why})" if why else ""),
                    ctx.loc(f2, n),
                    None,
                    "connection_made: the re-subscription argument has exactly the elements of self.subscriptions",
                )
            else:
                ck.unknown(R, f"connection_made: re-subscription argument {show(arg, 120)} not recognised", ctx.loc(f2, n))
    polling, _push, _odd = _outcomes(ctx, cfg2, ("attr", st2, "supports_subscribe"))
    resub_edges = list(insecure) + list(empty) + list(polling)  # subscribe() itself returns at once when push is off
    for n in resub:
        resub_edges += ctx.normal_out(cfg2, n)
    ctx.must_pass(
        R, cfg2, cfg2.exit, "await subscribe(self.subscriptions) [or: insecure / nothing subscribed / push switched off]", resub_edges,
        desc="connection_made: every exit of the secure outcome re-subscribed self.subscriptions (unless it is empty)",
    )


# ---------------------------------------------------------------------- G2
def _whole_argument(ctx: Context, rule: str, f, node, what: str, arg, param_t, key: str) -> bool:
    """Three-way verdict on 'this term has every element of the parameter'."""
    ck = ctx.ck
    if _uncopy(arg) == param_t:
        ck.holds(rule, f"{what} is the whole argument ({show(arg, 80)})", ctx.loc(f, node))
        return True
    why = _narrowing(arg)
    if why or not any(s == param_t for s in _all_subterms(strip_sites(arg))):
        ck.violated(
            rule,
            f"{ctx.fkey(f)}:{key}",
            f"{what} is {show(arg, 120)}, not every element of `{param_t[1]}`" + (f" ({why})" if why else ""),
            ctx.loc(f, node),
            None,
            f"{what} is the whole argument",
        )
    else:
        ck.unknown(rule, f"{what}: {show(arg, 120)} is not a recognised copy of `{param_t[1]}`", ctx.loc(f, node))
    return False


def _g2(ctx: Context) -> None:
    ck = ctx.ck
    T = ctx.terms
    R = "C12.G2"
    f = ctx.func(f"{PAIRING}.subscribe")
    cfg = ctx.cfg(f.qualname)
    st = _self_term(f)
    base = ctx.func(f"{AP}.subscribe")
    upd = ctx.func(f"{PAIRING}._update_subscriptions")
    if st is None or len(f.pos_params) != 2 or len(base.pos_params) != 2 or len(upd.pos_params) != 3:
        ck.unknown(R, "subscribe / _update_subscriptions no longer have the expected parameters", f.loc())
        return
    chars = ("param", f.pos_params[1])
    # ---- (a) record before anything that can fail
    rec = []
    for n, c in _calls_to(ctx, cfg, base.qualname):
        b = _bound(ctx, cfg, n, c, base)
        arg = b.get(base.pos_params[1]) if b else None
        if arg is None or not _awaited(n, c):
            ck.unknown(R, "IpPairing.subscribe: super().subscribe call shape not recognised (binding / not awaited)", ctx.loc(f, n))
            continue
        if _whole_argument(ctx, R, f, n, "IpPairing.subscribe: what is recorded through super().subscribe", arg, chars, "recorded-argument"):
            rec.append(n)
    rec_edges = []
    for n in rec:
        rec_edges += ctx.normal_out(cfg, n)
    rec_ids = {n.id for n in rec}
    targets = {cfg.exit.id}
    for n in cfg.nodes:
        if n.id in rec_ids or n.kind in ("entry", "exit", "xexit"):
            continue
        has_await = any(isinstance(s, ast.Await) for e in n.exprs if e is not None for s in walk_expr(e))
        if has_await or any(l == "x" for (_d, l, _e) in n.succ):
            targets.add(n.id)
    p = _path(cfg, [cfg.entry.id], targets, avoid_edges=rec_edges)
    ck.check(
        R,
        p is None,
        f"IpPairing.subscribe: the ids are recorded before each of the {len(targets) - 1} other await/raise sites and before every exit",
        f"{ctx.fkey(f)}:record-before-await",
        "IpPairing.subscribe: an await that can fail (or an exit) is reachable before the ids are recorded in "
        "self.subscriptions" + (" (no recording call)" if not rec else "") + "; a disconnection there loses the subscription",
        f.loc(),
        cfg.render_path(p) if p else None,
    )
    # ---- (b) AbstractPairing.subscribe really updates the set with every element, first thing
    bcfg = ctx.cfg(base.qualname)
    bst = _self_term(base)
    bchars = ("param", base.pos_params[1])
    bsubs = ("attr", bst, "subscriptions")
    good, others = [], []
    for n in bcfg.nodes:
        for c in ctx.calls(n):
            if isinstance(c.func, ast.Attribute) and c.func.attr in SET_MUTATORS and strip_sites(T.of(bcfg, n, c.func.value)) == bsubs:
                if c.func.attr == "update" and c.args and all(_uncopy(T.of(bcfg, n, a)) == bchars for a in c.args):
                    good.append(n)
                else:
                    others.append(n)
        if n.kind == "stmt" and isinstance(n.ast, (ast.Assign, ast.AnnAssign, ast.AugAssign, ast.Delete)):
            for tg in _store_targets(n.ast):
                if isinstance(tg, ast.Attribute) and tg.attr == "subscriptions":
                    if isinstance(n.ast, ast.AugAssign) and isinstance(n.ast.op, ast.BitOr) and _uncopy(T.of(bcfg, n, n.ast.value)) == bchars:
                        good.append(n)
                    else:
                        others.append(n)
    gedges = []
    for n in good:
        gedges += ctx.normal_out(bcfg, n)
    ctx.must_pass(R, bcfg, bcfg.exit, "self.subscriptions.update(<whole argument>)", gedges,
                  desc="AbstractPairing.subscribe: every exit has added every element of the argument to self.subscriptions")
    early = [n.id for n in bcfg.nodes if n.id not in {g.id for g in good} and any(l == "x" for (_d, l, _e) in n.succ)]
    p = _path(bcfg, [bcfg.entry.id], early, avoid_edges=gedges) if early else None
    ck.check(R, p is None and not others,
             "AbstractPairing.subscribe: nothing can fail before the update and nothing else touches the set",
             f"{ctx.fkey(base)}:update-first",
             "AbstractPairing.subscribe: " + (f"`{others[0].text()}` also modifies self.subscriptions" if others else "a raise site precedes the update of self.subscriptions"),
             ctx.loc(base, others[0]) if others else base.loc(), bcfg.render_path(p) if p else None)
    # ---- (c) the request is issued for the whole argument with ev=True, except on the documented fall-backs
    req = []
    for n, c in _calls_to(ctx, cfg, upd.qualname):
        b = _bound(ctx, cfg, n, c, upd)
        if b is None or not _awaited(n, c) or upd.pos_params[1] not in b or upd.pos_params[2] not in b:
            ck.unknown(R, "IpPairing.subscribe: _update_subscriptions call shape not recognised (binding / not awaited)", ctx.loc(f, n))
            continue
        ok_ev = b[upd.pos_params[2]] == ("const", True)
        ck.check(R, ok_ev, "IpPairing.subscribe: the request asks for events (ev=True)", f"{ctx.fkey(f)}:request-ev",
                 f"IpPairing.subscribe: _update_subscriptions is called with ev={show(b[upd.pos_params[2]], 40)}, not True", ctx.loc(f, n))
        ok_arg = _whole_argument(ctx, R, f, n, "IpPairing.subscribe: what is requested from the accessory", b[upd.pos_params[1]], chars, "requested-argument")
        if ok_ev and ok_arg:
            req.append(n)
    polling, _push, odd = _outcomes(ctx, cfg, ("attr", st, "supports_subscribe"))
    for n in odd:
        ck.unknown(R, f"IpPairing.subscribe: test `{n.text()}` on supports_subscribe not recognised", ctx.loc(f, n))
    ade_edges_req = []
    gate = list(polling)
    for n in req:
        for e in cfg.all_out_edges(n):
            gate.append(e)
            if e[2] == "x" and e[3] and ctx.prog.is_subclass(e[3], ADE):
                ade_edges_req.append(e)
    for n, c in _calls_to(ctx, cfg, f"{PAIRING}._ensure_connected"):
        for e in cfg.all_out_edges(n):
            if e[2] == "x" and e[3] and ctx.prog.is_subclass(e[3], ADE):
                gate.append(e)
    ctx.must_pass(
        R, cfg, cfg.exit, "await _update_subscriptions(<whole argument>, True) [or: polling fall-back / cannot connect]", gate,
        desc="IpPairing.subscribe: every normal exit issued the request for the whole argument, or took a documented "
        "fall-back (supports_subscribe is False; AccessoryDisconnectedError while connecting)",
    )
    # ---- (c') "cut off" means: the request was on its way.  Inside _update_subscriptions an AccessoryDisconnectedError may
    # leave only from the request itself (the awaited put); a connection check moved into it fails with the same class before
    # anything was sent, and subscribe() - which cannot tell the two apart - would switch push off for good
    ucfg = ctx.cfg(upd.qualname)
    put_nodes = {n.id for n, _c in ctx.nodes_calling_name(ucfg, "put_json")} | {n.id for n, _c in ctx.nodes_calling_name(ucfg, "put")}
    if put_nodes and ade_edges_req:
        early_ade = None
        for n in ucfg.nodes:
            if n.id in put_nodes:
                continue
            for d_, l_, x_ in n.succ:
                if l_ == "x" and x_ and ctx.prog.is_subclass(x_, ADE) and (d_ == ucfg.xexit.id or ucfg.xexit.id in ucfg.reachable_from(d_, avoid_nodes=())) \
                        and ucfg.find_path(ucfg.entry.id, n.id, avoid_nodes=put_nodes) is not None:
                    early_ade = early_ade or n
        ck.check(R, early_ade is None, "_update_subscriptions: an AccessoryDisconnectedError leaves only from the request itself (or after it)",
                 f"{ctx.fkey(upd)}:disconnected-before-request",
                 f"_update_subscriptions: `{early_ade.text()[:60] if early_ade else ''}` can raise AccessoryDisconnectedError before any request was sent; IpPairing.subscribe treats every "
                 "AccessoryDisconnectedError from _update_subscriptions as a cut-off subscription request and switches push off for good (supports_subscribe = False): a mere "
                 "failure to connect then disables re-subscription after the next successful connection", ctx.loc(upd, early_ade) if early_ade else upd.loc())
    # ---- (d) payload and send loop
    _payloads(ctx, R, upd)
    # ---- (e) who may write supports_subscribe / subscriptions
    _writers(ctx, R, f, cfg, ade_edges_req)


def _shape(t, chars, ev, env):
    """Does a comprehension term build one {'aid','iid','ev'} entry per element of ``chars``?
    -> (ok | filtered | no-ev | wrong-ids | unknown, detail)"""
    if t[0] == "comp":
        _k, kind, elt, gens = t
        if kind == "DictComp":
            return "unknown", "a dict comprehension"
        env = dict(env)
        for tgt, it, conds in gens:
            if conds:
                return "filtered", f"condition `{show(conds[0], 80)}`"
            src = _uncopy(it)
            if src == chars or (src[0] == "cvar" and env.get(src[1]) == "group"):
                if tgt[0] == "cvar":
                    env[tgt[1]] = "elem"
                elif tgt[0] == "tuple" and len(tgt[1]) == 2 and all(x[0] == "cvar" for x in tgt[1]):
                    env[tgt[1][0][1]] = "elem.0"
                    env[tgt[1][1][1]] = "elem.1"
                else:
                    return "unknown", f"target {show(tgt, 60)}"
            elif src[0] == "call" and src[1] == ("glob", "itertools.groupby") and src[2] and _uncopy(src[2][0]) == chars:
                if tgt[0] == "tuple" and len(tgt[1]) == 2 and tgt[1][1][0] == "cvar":
                    env[tgt[1][1][1]] = "group"
                else:
                    return "unknown", f"groupby target {show(tgt, 60)}"
            else:
                why = _narrowing(it)
                if why:
                    return "filtered", why
                return "unknown", f"a generator over {show(src, 80)}"
        return _shape(elt, chars, ev, env)
    if t[0] == "dict":
        if not any(v.startswith("elem") for v in env.values()):
            return "unknown", "entries are not built per element of the argument"
        items = {}
        for k, v in t[1]:
            if k[0] != "const" or not isinstance(k[1], str):
                return "unknown", "a non-constant key"
            items[k[1]] = v

        def is_id(v, idx):
            if v[0] == "cvar" and env.get(v[1]) == f"elem.{idx}":
                return True
            return v[0] == "sub" and v[1][0] == "cvar" and env.get(v[1][1]) == "elem" and v[2] == ("const", idx)

        if not ("aid" in items and "iid" in items and is_id(items["aid"], 0) and is_id(items["iid"], 1)):
            return "wrong-ids", "aid/iid are not the two components of the element"
        if "ev" not in items:
            return "no-ev", "the entries carry no 'ev' flag"
        if items["ev"] != ev:
            return "no-ev", f"'ev' is {show(items['ev'], 40)}, not the ev parameter"
        return "ok", ""
    why = _narrowing(t)
    if why:
        return "filtered", f"{why} in {show(t, 80)}"
    return "unknown", f"{show(t, 80)}"


def _payloads(ctx: Context, R: str, upd) -> None:
    ck = ctx.ck
    T = ctx.terms
    cfg = ctx.cfg(upd.qualname)
    chars = ("param", upd.pos_params[1])
    ev = ("param", upd.pos_params[2])
    put = ctx.func(f"{HC}.put_json")
    sends = []
    for n, c in _calls_to(ctx, cfg, put.qualname):
        b = _bound(ctx, cfg, n, c, put)
        if b is None or len(put.pos_params) < 3:
            continue
        if strip_sites(b.get(put.pos_params[1], ("unknown", ""))) == ("const", "/characteristics"):
            sends.append((n, strip_sites(b.get(put.pos_params[2], ("unknown", "")))))
    if not sends:
        ck.unknown(R, "_update_subscriptions: no put_json('/characteristics', ...) request found", upd.loc())
        return
    send_ids = {n.id for n, _b in sends}
    for n, body in sends:
        if not (body[0] == "dict" and len(body[1]) == 1 and body[1][0][0] == ("const", "characteristics")):
            ck.unknown(R, f"_update_subscriptions: request body {show(body, 100)} is not {{'characteristics': ...}}", ctx.loc(upd, n))
            continue
        x = body[1][0][1]
        loop = _innermost_loop(n)
        if x[0] == "iter":
            heads = [h for h in (_loop_heads(cfg, loop) if loop is not None else []) if h.kind == "for"]
            if loop is None or not heads or not isinstance(loop.target, ast.Name) or strip_sites(T.of(cfg, heads[0], loop.iter)) != x[1]:
                ck.unknown(R, "_update_subscriptions: the payload sent is an element of a collection that the enclosing loop does not iterate", ctx.loc(upd, n))
                continue
            coll = x[1]
        else:
            heads, coll = [], x
        verdict, detail = _shape(coll, chars, ev, {})
        desc = "_update_subscriptions: the payloads hold one {aid, iid, ev} entry for every element of the argument (no filter)"
        if verdict == "ok":
            ck.holds(R, desc, ctx.loc(upd, n))
        elif verdict == "unknown":
            ck.unknown(R, f"_update_subscriptions: payload construction not recognised ({detail})", ctx.loc(upd, n))
        else:
            ck.violated(R, f"{ctx.fkey(upd)}:payload-{verdict}",
                        {"filtered": "_update_subscriptions: the payload leaves out elements of the argument: ",
                         "no-ev": "_update_subscriptions: the payload does not carry the requested ev flag: ",
                         "wrong-ids": "_update_subscriptions: the payload ids are not the (aid, iid) of the element: "}[verdict] + detail,
                        ctx.loc(upd, n), None, desc)
        if heads:
            hid = {h.id for h in heads}
            body_entry = [d for h in heads for (_s, d, _l, _e) in ctx.edges(cfg, h, "T")]
            p = _path(cfg, body_entry, cfg.exit.id, avoid_nodes=hid)
            ck.check(R, p is None,
                     "_update_subscriptions: the send loop ends normally only by exhausting the payloads (no break/return)",
                     f"{ctx.fkey(upd)}:send-loop-early-exit",
                     "_update_subscriptions: the send loop can stop before every payload was sent (break/return in its body)",
                     ctx.loc(upd, heads[0]), cfg.render_path(p) if p else None)
            p = _path(cfg, body_entry, hid, avoid_nodes=send_ids)
            ck.check(R, p is None, "_update_subscriptions: every iteration of the send loop sends its payload",
                     f"{ctx.fkey(upd)}:send-loop-skip",
                     "_update_subscriptions: an iteration of the send loop can skip the request",
                     ctx.loc(upd, heads[0]), cfg.render_path(p) if p else None)
    ck.require_min(R, "subscription request sites in _update_subscriptions", len(sends), 1)


def _attr_writes(ctx: Context, names: set[str]):
    """Package sweep: (func|None, cls|None, ast node, attr, kind, value expr) for every write/mutation of ``.<name>``.
    Mutating method calls are recognised through the receiver's term, so a local alias of the attribute is followed."""
    out = []
    for g in ctx.prog.package_functions():
        if isinstance(g.node, ast.Lambda):
            continue
        mentioned = False
        for n in walk_own(g.node):
            if isinstance(n, ast.Attribute) and n.attr in names:
                mentioned = True
            if isinstance(n, (ast.Assign, ast.AnnAssign, ast.AugAssign, ast.Delete)):
                for tg in _store_targets(n):
                    if isinstance(tg, ast.Attribute) and tg.attr in names:
                        out.append((g, None, n, tg.attr, type(n).__name__, getattr(n, "value", None)))
                    if isinstance(tg, ast.Subscript) and isinstance(tg.value, ast.Attribute) and tg.value.attr in names:
                        out.append((g, None, n, tg.value.attr, "item-" + type(n).__name__, None))
            elif isinstance(n, ast.Call):
                if isinstance(n.func, ast.Name) and n.func.id in ("setattr", "delattr") and len(n.args) >= 2 and isinstance(n.args[1], ast.Constant) and n.args[1].value in names:
                    out.append((g, None, n, n.args[1].value, n.func.id, n.args[2] if len(n.args) > 2 else None))
        if not mentioned:
            continue
        cfg = ctx.cfg(g.qualname)
        seen: set[int] = set()
        for node in cfg.nodes:
            for c in ctx.calls(node):
                if id(c) in seen or not (isinstance(c.func, ast.Attribute) and c.func.attr in SET_MUTATORS):
                    continue
                recv = strip_sites(ctx.terms.of(cfg, node, c.func.value))
                if recv[0] == "attr" and recv[2] in names:
                    seen.add(id(c))
                    out.append((g, None, c, recv[2], "." + c.func.attr, None))
    for c in ctx.prog.classes.values():
        if c.module.name == "aiohomekit.testing":
            continue
        for nm in names:
            for v in c.assigns.get(nm, []):
                out.append((None, c, c.node, nm, "class-level", v))
    return out


def _writers(ctx: Context, R: str, f, cfg, ade_edges_req) -> None:
    ck = ctx.ck
    writes = _attr_writes(ctx, {"supports_subscribe", "subscriptions"})
    n_flag = n_subs = 0
    for g, c, node, attr, kind, val in writes:
        where = g.qualname if g is not None else c.qualname
        loc = g.loc(node) if g is not None else f"{c.module.relpath}:{getattr(node, 'lineno', 0)}"
        if attr == "supports_subscribe":
            n_flag += 1
            const = ctx.const(g, val, default=_NC) if (g is not None and val is not None) else (
                ctx.prog.try_const(val, c.module, c, _NC) if val is not None else _NC)
            if kind in ("Assign", "AnnAssign", "class-level", "setattr") and const is True:
                ck.holds(R, f"{_short(where)}: supports_subscribe is set to True (enables push)", loc)
                continue
            if g is not None and g.qualname == f.qualname and kind in ("Assign", "AnnAssign") and const is False:
                bad = None
                for wn in cfg.nodes_for(node):
                    bad = bad or cfg.find_path(cfg.entry.id, wn.id, avoid_edges=ade_edges_req)
                ck.check(
                    R, bad is None,
                    "IpPairing.subscribe: supports_subscribe = False only after the subscription request left through an AccessoryDisconnectedError edge",
                    f"{ctx.fkey(f)}:supports_subscribe-false-path",
                    "IpPairing.subscribe: `supports_subscribe = False` is reachable without the subscription request having "
                    "been cut off by AccessoryDisconnectedError; re-subscription is then switched off for good by another failure",
                    loc, cfg.render_path(bad) if bad else None)
                continue
            if const is _NC and kind in ("Assign", "AnnAssign", "setattr", "class-level"):
                ck.unknown(R, f"{where}: supports_subscribe is written with a value that is not a constant", loc)
                continue
            ck.violated(R, f"{where}:writes-supports_subscribe",
                        f"{_short(where)} writes supports_subscribe ({kind}); only the AccessoryDisconnectedError handler around the "
                        "subscription request in IpPairing.subscribe may switch push off", loc, None,
                        "supports_subscribe is switched off only by the documented fall-back")
        else:
            n_subs += 1
            q = g.qualname if g is not None else ""
            ok = False
            if q == f"{AP}.__init__" and kind in ("Assign", "AnnAssign"):
                ok = True
            elif q == f"{AP}.subscribe" and kind in (".update", "AugAssign"):
                ok = True
            elif q == f"{AP}.unsubscribe":
                ok = True
            ck.check(R, ok, f"{_short(where)}: permitted writer of subscriptions ({kind})",
                     f"{where}:writes-subscriptions:{kind}",
                     f"{_short(where)} modifies the subscription set ({kind}); only AbstractPairing.__init__/subscribe/unsubscribe may, "
                     "otherwise subscriptions do not survive to the next reconnect", loc)
    ck.require_min(R, "writers of supports_subscribe", n_flag, 2)
    ck.require_min(R, "writers of subscriptions", n_subs, 3)


class _NCType:
    pass


_NC = _NCType()


# ---------------------------------------------------------------------- G3
def _single_link(ctx: Context, R: str, f, cfg, nodes_calls, what: str, skip_edges, skip_text: str) -> None:
    """A later link of the chain: one call, outside any loop, every exit passes it (or a documented skip), never twice."""
    ck = ctx.ck
    nodes = [n for n, _c in nodes_calls]
    ids = {n.id for n in nodes}
    per_node: dict[int, int] = {}
    for n, _c in nodes_calls:
        per_node[n.id] = per_node.get(n.id, 0) + 1
    for n in nodes:
        ck.check(R, not _in_loop(n), f"{what}: the call is outside any loop", f"{ctx.fkey(f)}:link-in-loop",
                 f"{what}: the call sits inside a loop (an event would be passed on more than once)", ctx.loc(f, n))
    dup = [n for n in nodes if per_node[n.id] > 1]
    p = None
    for n in nodes:
        p = p or _path(cfg, [d for (_s, d, _l, _e) in ctx.normal_out(cfg, n)], ids)
    ck.check(R, not dup and p is None, f"{what}: at most one call per event on every path",
             f"{ctx.fkey(f)}:link-twice",
             f"{what}: an event can be passed on twice on one path", ctx.loc(f, (dup or nodes)[0]),
             cfg.render_path(p) if p else None)
    gate = list(skip_edges)
    for n in nodes:
        gate += ctx.normal_out(cfg, n)
    ctx.must_pass(R, cfg, cfg.exit, f"{what} [or: {skip_text}]" if skip_text else what, gate,
                  desc=f"{what}: every normal exit passed the call" + (f" or a documented early return ({skip_text})" if skip_text else ""))


def _g3(ctx: Context) -> None:
    ck = ctx.ck
    T = ctx.terms
    R = "C12.G3"
    links = 0
    # ---- link 0: the secure protocol hands every decrypted block to the HTTP parser once
    f0 = ctx.func(f"{SPROTO}.data_received")
    cfg0 = ctx.cfg(f0.qualname)
    fwd = _calls_to(ctx, cfg0, f"{IPROTO}.data_received")
    if not fwd:
        ck.violated(R, f"{ctx.fkey(f0)}:no-forward", "SecureHomeKitProtocol.data_received no longer hands decrypted data to "
                    "InsecureHomeKitProtocol.data_received: no event is ever parsed", f0.loc())
    else:
        dec_ids = set()
        ok_arg = True
        for n, c in fwd:
            if len(c.args) != 1 or c.keywords:
                ok_arg = False
                continue
            for pn in _producers(ctx, cfg0, n, c.args[0]):
                if any(x.endswith("Decryptor.decrypt") for c2 in ctx.calls(pn) for x in _callees(ctx, cfg0, pn, c2)) and pn.kind == "stmt":
                    dec_ids.add(pn.id)
                else:
                    ok_arg = False
        if not ok_arg or not dec_ids:
            ck.unknown(R, "SecureHomeKitProtocol.data_received: what is handed to the HTTP parser is not (only) produced by the decryptor's decrypt(...)", ctx.loc(f0, fwd[0][0]))
        else:
            fwd_ids = {n.id for n, _c in fwd}
            heads = set()
            for n, _c in fwd:
                lp = _innermost_loop(n)
                heads |= {h.id for h in (_loop_heads(cfg0, lp) if lp is not None else [])}
            starts = [d for m in dec_ids for (_s, d, _l, _e) in ctx.normal_out(cfg0, m)]
            p = _path(cfg0, starts, heads | {cfg0.exit.id}, avoid_nodes=fwd_ids)
            p2 = _path(cfg0, [d for n, _c in fwd for (_s, d, _l, _e) in ctx.normal_out(cfg0, n)], fwd_ids, avoid_nodes=dec_ids)
            ck.check(R, p is None and p2 is None and bool(heads),
                     "secure data_received: every decrypted block is handed to the HTTP parser exactly once, inside the per-block loop",
                     f"{ctx.fkey(f0)}:forward-once",
                     "SecureHomeKitProtocol.data_received: a decrypted block can be dropped or parsed twice",
                     ctx.loc(f0, fwd[0][0]), cfg0.render_path(p or p2) if (p or p2) else None)
            links += 1
    # ---- link 1: data_received[event] -> connection.event_received
    f1 = ctx.func(f"{IPROTO}.data_received")
    cfg1 = ctx.cfg(f1.qualname)
    st1 = _self_term(f1)
    ev_recv = ctx.func(f"{HC}.event_received")
    cur = ("attr", st1, "current_response")
    deliver = _calls_to(ctx, cfg1, ev_recv.qualname)
    if not deliver:
        if _unresolved_named(ctx, cfg1, "event_received"):
            ck.unknown(R, "data_received: cannot resolve the receiver of event_received(...) to HomeKitConnection", f1.loc())
        else:
            ck.violated(R, f"{ctx.fkey(f1)}:no-event-dispatch", "InsecureHomeKitProtocol.data_received no longer passes EVENT "
                        "messages to connection.event_received", f1.loc())
    else:
        complete_T, event_edges, renew = [], [], set()
        for n in cfg1.nodes:
            if n.kind == "test":
                t = strip_sites(T.of(cfg1, n, n.exprs[0]))
                if t[0] == "call" and t[1] == ("attr", cur, "is_read_completely"):
                    complete_T += ctx.edges(cfg1, n, "T")
                if t[0] == "cmp" and len(t[1]) == 1 and t[1][0] in ("Eq", "NotEq"):
                    l, r = t[2]
                    for a, b in ((l, r), (r, l)):
                        if b[0] == "const" and isinstance(b[1], str) and b[1].lower() == "event" and any(
                            s[0] == "call" and s[1] == ("attr", cur, "get_http_name") for s in _all_subterms(a)
                        ):
                            event_edges += ctx.edges(cfg1, n, "T" if t[1][0] == "Eq" else "F")
            if n.kind == "stmt" and isinstance(n.ast, ast.Assign):
                for tg in _store_targets(n.ast):
                    if isinstance(tg, ast.Attribute) and tg.attr == "current_response" and T.of(cfg1, n, tg.value) == st1:
                        v = strip_sites(T.of(cfg1, n, n.ast.value))
                        if v[0] == "call" and v[1] == ("glob", HTTP_RESPONSE):
                            renew.add(n.id)
        if not complete_T or not event_edges:
            ck.unknown(R, "data_received: the completed-message test or the 'event' comparison was not found", f1.loc())
        else:
            d_ids = {n.id for n, _c in deliver}
            heads = set()
            for n, c in deliver:
                ok = len(c.args) == 1 and not c.keywords and strip_sites(T.of(cfg1, n, c.args[0])) == cur
                ck.check(R, ok, "data_received: the message handed on is the completed current_response",
                         f"{ctx.fkey(f1)}:event-argument", "data_received: event_received is not given self.current_response", ctx.loc(f1, n))
                lp = _innermost_loop(n)
                ck.check(R, lp is not None, "data_received: EVENT delivery happens inside the per-message loop",
                         f"{ctx.fkey(f1)}:event-outside-loop",
                         "data_received: event_received is called outside the per-message loop (several events in one read are not all delivered)", ctx.loc(f1, n))
                heads |= {h.id for h in (_loop_heads(cfg1, lp) if lp is not None else [])}
                ctx.must_pass(R, cfg1, n, "is_read_completely() [true]", complete_T,
                              desc="data_received: an EVENT is handed on only when the message is complete")
                ctx.must_pass(R, cfg1, n, "http name == 'event' [true]", event_edges,
                              desc="data_received: connection.event_received is called only under the 'event' outcome")
            starts = [e[1] for e in event_edges]
            p = _path(cfg1, starts, renew | heads | {cfg1.exit.id}, avoid_nodes=d_ids)
            ck.check(R, p is None, "data_received: every completed EVENT message is handed to connection.event_received",
                     f"{ctx.fkey(f1)}:event-skipped",
                     "data_received: a completed EVENT message can be dropped without being handed to connection.event_received",
                     ctx.loc(f1, deliver[0][0]), cfg1.render_path(p) if p else None)
            starts = [d for n, _c in deliver for (_s, d, _l, _e) in ctx.normal_out(cfg1, n)]
            p = _path(cfg1, starts, d_ids, avoid_nodes=renew)
            multi = [n for n in {n for n, _c in deliver} if sum(1 for m, _c in deliver if m is n) > 1]
            ck.check(R, p is None and not multi,
                     "data_received: no second delivery before the message object is renewed (one call per EVENT message)",
                     f"{ctx.fkey(f1)}:event-twice",
                     "data_received: the same EVENT message can be handed on twice", ctx.loc(f1, deliver[0][0]),
                     cfg1.render_path(p) if p else None)
            links += 1
    # ---- link 2: connection.event_received -> owner.event_received
    f2 = ev_recv
    cfg2 = ctx.cfg(f2.qualname)
    st2 = _self_term(f2)
    own_recv = ctx.func(f"{PAIRING}.event_received")
    fw = _calls_to(ctx, cfg2, own_recv.qualname)
    if len(f2.pos_params) != 2:
        ck.unknown(R, "HomeKitConnection.event_received no longer takes (self, event)", f2.loc())
    elif not fw:
        if _unresolved_named(ctx, cfg2, "event_received") or PAIRING not in _attr_classes(ctx, HC, "owner"):
            ck.unknown(R, "HomeKitConnection.event_received: cannot resolve owner.event_received to IpPairing", f2.loc())
        else:
            ck.violated(R, f"{ctx.fkey(f2)}:no-owner-dispatch", "HomeKitConnection.event_received no longer calls owner.event_received", f2.loc())
    else:
        body = ("attr", ("param", f2.pos_params[1]), "body")
        skips = []
        shape_ok = True
        for n, c in fw:
            a = T.of(cfg2, n, c.args[0]) if len(c.args) == 1 and not c.keywords else ("unknown", "")
            s = strip_sites(a)
            if not (s[0] == "call" and s[1] == ("glob", LOADS) and len(s[2]) == 1):
                shape_ok = False
                continue
            src = s[2][0]
            raw = src[1][1] if (src[0] == "call" and src[1][0] == "attr" and src[1][2] == "decode") else src
            if raw != body:
                shape_ok = False
                continue
            fal, _tr, odd = _outcomes(ctx, cfg2, src, raw)
            skips += fal
            for o in odd:
                ck.unknown(R, f"event_received: test `{o.text()}` on the event body not recognised", ctx.loc(f2, o))
            for m in cfg2.nodes:
                if any(T.of(cfg2, m, c2) == a for c2 in ctx.calls(m)):
                    for e in cfg2.all_out_edges(m):
                        if e[2] == "x" and e[3] and ctx.prog.is_subclass(e[3], "ValueError") and cfg2.nodes[e[1]].kind == "handler":
                            skips.append(e)
        if not shape_ok:
            ck.unknown(R, "HomeKitConnection.event_received: what is handed to the owner is not hkjson.loads(event.body[.decode()])", ctx.loc(f2, fw[0][0]))
        else:
            ck.holds(R, "connection.event_received: the owner receives hkjson.loads(<the event's own body>)", ctx.loc(f2, fw[0][0]))
            fal, _tr, odd = _outcomes(ctx, cfg2, ("attr", st2, "owner"))
            skips += fal
            _single_link(ctx, R, f2, cfg2, fw, "connection.event_received -> owner.event_received", skips,
                         "no owner / empty body / JSON ValueError")
            links += 1
    # ---- link 3: owner.event_received -> _callback_listeners(format_characteristic_list(event))
    f3 = own_recv
    cfg3 = ctx.cfg(f3.qualname)
    disp = _calls_to(ctx, cfg3, f"{AP}._callback_listeners")
    if len(f3.pos_params) != 2:
        ck.unknown(R, "IpPairing.event_received no longer takes (self, event)", f3.loc())
    elif not disp:
        ck.violated(R, f"{ctx.fkey(f3)}:no-listener-dispatch", "IpPairing.event_received no longer calls _callback_listeners", f3.loc())
    else:
        evp = ("param", f3.pos_params[1])
        for n, c in disp:
            a = strip_sites(T.of(cfg3, n, c.args[0])) if len(c.args) == 1 and not c.keywords else ("unknown", "")
            exact = a[0] == "call" and a[1] == ("glob", FORMAT) and not a[3] and (a[2] == (evp,) or a[2] == (evp, ("const", None)))
            if exact:
                ck.holds(R, "IpPairing.event_received: listeners get format_characteristic_list(event), nothing removed", ctx.loc(f3, n))
                continue
            why = _narrowing(a)
            if why:
                ck.violated(R, f"{ctx.fkey(f3)}:event-filtered",
                            f"IpPairing.event_received: what the listeners get is narrowed by {why}: {show(a, 140)}", ctx.loc(f3, n), None,
                            "IpPairing.event_received: listeners get format_characteristic_list(event), nothing removed")
            else:
                ck.unknown(R, f"IpPairing.event_received: listener argument {show(a, 120)} is not format_characteristic_list(event)", ctx.loc(f3, n))
        _single_link(ctx, R, f3, cfg3, disp, "owner.event_received -> _callback_listeners", [], "")
        links += 1
    # ---- nothing escapes the later links (default raise-site definition)
    for q in (f2.qualname, f3.qualname, FORMAT):
        esc = sorted(e for e in ctx.flow.esc(q) if ctx.prog.is_subclass(e, "Exception") or not ctx.prog.known_class(e))
        ck.check(R, not esc, f"{_short(q)}: no Exception escapes (early returns do not raise)", f"{q}:escapes",
                 f"{_short(q)} can raise {esc} into data_received (the transport is then torn down by asyncio)", ctx.func(q).loc())
    # ---- keys
    _keys(ctx, R)
    # ---- registration lands in the set that is iterated
    lattr = _listener_attr(ctx)
    dc = ctx.func(f"{AP}.dispatcher_connect")
    dcfg = ctx.cfg(dc.qualname)
    dst = _self_term(dc)
    if lattr is None or len(dc.pos_params) != 2:
        ck.unknown(R, "cannot relate dispatcher_connect to the collection _callback_listeners iterates", dc.loc())
    else:
        adds = []
        for n in dcfg.nodes:
            for c in ctx.calls(n):
                if (isinstance(c.func, ast.Attribute) and c.func.attr == "add" and len(c.args) == 1
                        and strip_sites(T.of(dcfg, n, c.func.value)) == ("attr", dst, lattr)
                        and T.of(dcfg, n, c.args[0]) == ("param", dc.pos_params[1])):
                    adds += ctx.normal_out(dcfg, n)
        ctx.must_pass(R, dcfg, dcfg.exit, f"self.{lattr}.add(callback)", adds,
                      desc=f"dispatcher_connect: the callback is added to self.{lattr}, the set _callback_listeners iterates")
    ck.require_min(R, "links of the event chain established", links, 4)


def _listener_attr(ctx: Context) -> str | None:
    f = ctx.func(f"{AP}._callback_listeners")
    cfg = ctx.cfg(f.qualname)
    st = _self_term(f)
    for n in cfg.nodes:
        if n.kind == "for_iter":
            t = _uncopy(ctx.terms.of(cfg, n, n.ast.iter))
            if t[0] == "attr" and t[1] == st:
                return t[2]
    return None


def _keys(ctx: Context, R: str) -> None:
    ck = ctx.ck
    T = ctx.terms
    f = ctx.func(FORMAT)
    cfg = ctx.cfg(FORMAT)
    du = T.du(cfg)
    if not f.pos_params:
        ck.unknown(R, "format_characteristic_list has no parameter", f.loc())
        return
    data = ("param", f.pos_params[0])
    rets = [n for n in cfg.nodes if n.kind == "return"]
    if not rets or not all(n.exprs and isinstance(n.exprs[0], ast.Name) for n in rets):
        ck.unknown(R, "format_characteristic_list: the result is not returned through one local dictionary", f.loc())
        return
    ret_defs = set()
    for n in rets:
        ret_defs |= {d for d, _x in du.reaching(n.id, n.exprs[0].id)}
    stores = 0
    for n in cfg.nodes:
        if not (n.kind == "stmt" and isinstance(n.ast, ast.Assign)):
            continue
        for tg in n.ast.targets:
            if not (isinstance(tg, ast.Subscript) and isinstance(tg.value, ast.Name)):
                continue
            if not ({d for d, _x in du.reaching(n.id, tg.value.id)} & ret_defs):
                continue
            # entries that come from the message's own characteristic list: stores inside the loop over it
            elem = None
            for fr in n.frames:
                if fr[0] == "loop" and fr[2] == "body" and isinstance(fr[1], ast.For):
                    hs = [h for h in cfg.nodes_for(fr[1]) if h.kind == "for"]
                    it = strip_sites(T.of(cfg, hs[0], fr[1].iter)) if hs else ("unknown", "")
                    subs = list(_all_subterms(it))
                    if any(z == data for z in subs) and any(z == ("const", "characteristics") for z in subs):
                        elem = ("iter", it)
            if elem is None:
                continue
            k = strip_sites(T.of(cfg, n, tg.slice))
            stores += 1
            def _fld(nm):  # c[nm] or c.pop(nm)
                return (("sub", elem, ("const", nm)), ("call", ("attr", elem, "pop"), (("const", nm),), ()))

            ok = k[0] == "tuple" and len(k[1]) == 2 and k[1][0] in _fld("aid") and k[1][1] in _fld("iid")
            ck.check(R, ok, "format_characteristic_list: an event entry is keyed by (c['aid'], c['iid']) of its own characteristic",
                     f"{ctx.fkey(f)}:key", f"format_characteristic_list: an entry is keyed by {show(k, 120)}, not (c['aid'], c['iid'])", ctx.loc(f, n))
    if stores == 0:
        ck.unknown(R, "format_characteristic_list: no store of a characteristic of the message into the result was found", f.loc())


# ---------------------------------------------------------------------- X1
def _listener_calls(ctx: Context, cfg, attr: str | None):
    """Calls whose callee is an element obtained by iterating ``<obj>.<attr>`` (attr None: any attribute of self)."""
    st = _self_term(cfg.func)
    out = []
    for n in cfg.nodes:
        for c in ctx.calls(n):
            if not isinstance(c.func, ast.Name):
                continue
            t = strip_sites(ctx.terms.of(cfg, n, c.func))
            if t[0] != "iter":
                continue
            coll = _uncopy(t[1])
            if coll[0] == "attr" and ((attr is None and coll[1] == st) or (attr is not None and coll[2] == attr)):
                out.append((n, c, coll))
    return out


def _isolation(ctx: Context, R: str, f, attr: str | None, anchor: bool) -> int:
    ck = ctx.ck
    T = ctx.terms
    cfg = ctx.cfg(f.qualname)
    who = _short(f.qualname)
    calls = _listener_calls(ctx, cfg, attr)
    if not calls:
        if anchor:
            ck.unknown(R, f"{who}: no call of an element of a self.<listeners> collection found", f.loc())
        return 0
    if anchor:
        evp = ("param", f.pos_params[1]) if len(f.pos_params) == 2 else None
        for n, c, _coll in calls:
            a = T.of(cfg, n, c.args[0]) if len(c.args) == 1 and not c.keywords else None
            if evp is not None and a == evp:
                ck.holds(R, f"{who}: each listener is called with the event itself", ctx.loc(f, n))
            else:
                ck.unknown(R, f"{who}: the listener is not simply called with the event parameter", ctx.loc(f, n))
    call_ids = {id(c) for _n, c, _coll in calls}
    base = ctx.flow
    # a listener is an arbitrary callable (plain function, bound method, functools.partial, callable instance): the only
    # thing every one of them supports is being called; reading any other attribute of it (`listener.__qualname__` for a
    # nicer log line) raises AttributeError for a partial / callable instance - in the handler that is outside the try
    lnames = {c.func.id for _n, c, _coll in calls if isinstance(c.func, ast.Name)}
    universal = {"__class__", "__doc__", "__call__", "__repr__", "__str__", "__hash__", "__eq__", "__ne__", "__dir__", "__reduce__"}

    def raises(g, node, hstack):
        out = set(base._raises(g, node, hstack))
        for e in node.exprs:
            if e is None:
                continue
            for sub in walk_expr(e):
                if isinstance(sub, ast.Call) and id(sub) in call_ids:
                    out.add("Exception")
                elif isinstance(sub, ast.Attribute) and isinstance(sub.ctx, ast.Load) and isinstance(sub.value, ast.Name) and sub.value.id in lnames \
                        and sub.attr not in universal:
                    out.add("AttributeError")
        return out

    x = CFG(ctx.prog, f, raises, base._noreturn)
    lnodes = [n for n in x.nodes if any(id(c) in call_ids for c in ctx.calls(n))]
    l_ids = {n.id for n in lnodes}
    sites = 0
    for ln in lnodes:
        sites += 1
        # the loop that enumerates the listeners
        loop = None
        for fr in ln.frames:
            if fr[0] == "loop" and fr[2] == "body" and isinstance(fr[1], (ast.For, ast.AsyncFor)):
                heads0 = [h for h in cfg.nodes_for(fr[1]) if h.kind == "for"]
                if heads0 and any(_uncopy(T.of(cfg, heads0[0], fr[1].iter)) == coll for _n, _c, coll in calls):
                    loop = fr[1]
        if loop is None:
            ck.violated(R, f"{ctx.fkey(f)}:listener-call-outside-loop",
                        f"{who}: the listener call is not inside the loop over the listeners (only one of them is called)", ctx.loc(f, ln), None,
                        f"{who}: the listener is called inside the loop over all listeners")
            continue
        heads = [h for h in x.nodes_for(loop) if h.kind == "for"]
        hid = {h.id for h in heads}
        body_entry = [d for h in heads for (_s, d, _l, _e) in x.out_edges(h, ("T",))]
        p = _path(x, body_entry, {x.exit.id, x.xexit.id}, avoid_nodes=hid)
        if p is None:
            ck.holds(R, f"{who}: with listener calls raising Exception, the loop body is left only through the loop head "
                     "(the exception is caught inside the iteration; no break/return/raise in the handler)", ctx.loc(f, ln))
        else:
            escapes = p[-1][0] == x.xexit.id
            ck.violated(
                R, f"{ctx.fkey(f)}:listener-loop-" + ("propagates" if escapes else "stops"),
                f"{who}: " + ("an exception raised by a listener (or re-raised by the handler) propagates out of the function"
                              if escapes else "after a listener raised (or on break/return) the remaining listeners are not called"),
                ctx.loc(f, ln), x.render_path(p),
                f"{who}: a raising listener neither stops the loop nor propagates")
        p = _path(x, body_entry, hid, avoid_nodes=l_ids)
        ck.check(R, p is None, f"{who}: every iteration calls its listener", f"{ctx.fkey(f)}:listener-skipped",
                 f"{who}: an iteration can finish without calling the listener", ctx.loc(f, ln), x.render_path(p) if p else None)
        outside = [x.nodes[d] for (d, l, _e) in ln.succ if l == "x" and not x.in_region(x.nodes[d], "loop", loop, "body")]
        ck.check(R, not outside, f"{who}: the handler receiving a listener's exception lies inside the loop body (try within the loop)",
                 f"{ctx.fkey(f)}:handler-outside-loop",
                 f"{who}: a listener's exception is handled outside the loop (or not at all): the first raising listener ends delivery",
                 ctx.loc(f, ln))
    bad = sorted(e for e in x.escapes() if ctx.prog.is_subclass(e, "Exception") or not ctx.prog.known_class(e))
    ck.check(R, not bad, f"{who}: escape set with raising listeners has no Exception subclass ({sorted(x.escapes())})",
             f"{ctx.fkey(f)}:escapes", f"{who} lets {bad} escape when a listener raises: the caller (event path / connection_made) is broken",
             f.loc())
    return sites


# ---------------------------------------------------------------------- thorough tier: package sweeps
def _x2(ctx: Context) -> None:
    """Two further ways the delivery loop / event path can raise that listener isolation does not cover."""
    from ..engine.partial import PartialProfile

    ck = ctx.ck
    T = ctx.terms
    R = "C12.X2"
    # (a) the delivery loop iterates a snapshot: a listener may register or remove listeners (its own stop callback)
    #     during delivery; iterating the live set raises RuntimeError at the loop head, outside the per-listener try
    f = ctx.func(f"{ABS}.AbstractPairing._callback_listeners")
    cfg = ctx.cfg(f.qualname)
    attr = _listener_attr(ctx)
    loops = [n for n in cfg.nodes if n.kind == "for_iter"]
    found = 0
    for n in loops:
        it = strip_sites(T.of(cfg, n, n.ast.iter))
        live = ("attr", ("param", "self"), attr) if attr else None
        if live is None or not contains(it, lambda s: s == live):
            continue
        found += 1
        # the raw AST decides whether a copy is taken (the term engine treats list()/tuple() of a set as a call already)
        e = n.ast.iter
        copied = (
            isinstance(e, ast.Call)
            and (
                (isinstance(e.func, ast.Name) and e.func.id in ("list", "tuple", "set", "frozenset", "sorted"))
                or (isinstance(e.func, ast.Attribute) and e.func.attr == "copy")
            )
        )
        if not copied and isinstance(e, ast.Name):
            # a local that was assigned a copy
            du = T.du(cfg)
            rd = du.reaching(n.id, e.id)
            copied = bool(rd) and all(
                d.kind == "assign" and isinstance(d.value, ast.Call) and (
                    (isinstance(d.value.func, ast.Name) and d.value.func.id in ("list", "tuple", "set", "frozenset", "sorted"))
                    or (isinstance(d.value.func, ast.Attribute) and d.value.func.attr == "copy"))
                for _nid, d in rd)
        ck.check(
            R,
            copied,
            "_callback_listeners iterates a snapshot of the listener set",
            f"{ctx.fkey(f)}:iterates-live-set",
            "_callback_listeners iterates the live listener set: a listener that registers or removes a listener during delivery "
            "(e.g. a one-shot listener calling its own stop callback) makes the loop raise `RuntimeError: Set changed size during "
            "iteration` outside the per-listener try - the remaining listeners are skipped and the exception breaks the connection",
            ctx.loc(f, n),
        )
    if not found:
        ck.unknown(R, "_callback_listeners: loop over the listener collection not found", f.loc())
    # (b) the event path with bytes.decode() of the peer's body as a raise site lets no Exception escape
    q = f"{CONN}.HomeKitConnection.event_received"
    prof = PartialProfile("c12-event", {q: {"decode": True}})
    prof.prepare(ctx)
    fl = ctx.flow_with(prof)
    esc = sorted(e for e in fl.esc(q) if ctx.prog.is_subclass(e, "Exception") or not ctx.prog.known_class(e))
    sites = [s for s in prof.sites if s[0] == q]
    ck.require_min(R, "decode sites in HomeKitConnection.event_received", len(sites), 1)
    ef = ctx.func(q)
    ck.check(
        R,
        not esc,
        f"HomeKitConnection.event_received: with body.decode() as a raise site nothing escapes ({len(sites)} decode site(s))",
        f"{ctx.fkey(ef)}:decode-escapes",
        f"HomeKitConnection.event_received lets {esc} escape: an EVENT whose body is not valid UTF-8 raises out of data_received and "
        "tears the connection down instead of being ignored like any other non-JSON body",
        ef.loc(),
    )


def run_thorough(ctx: Context) -> None:
    ck = ctx.ck
    prog = ctx.prog
    lattr = _listener_attr(ctx)
    # S1: every implementation and every call site of _callback_listeners
    if ck.rule("C12.S1", "sweep: every _callback_listeners call site reaches an isolating implementation"):
        impls = [g for g in prog.package_functions() if g.name == "_callback_listeners" and g.cls is not None]
        isolated = set()
        for g in impls:
            before = len([i for i in ck.instances if i.status != "HOLDS"])
            if _isolation(ctx, "C12.S1", g, None, anchor=True) and len([i for i in ck.instances if i.status != "HOLDS"]) == before:
                isolated.add(g.qualname)
        sites = 0
        for g in prog.package_functions():
            if isinstance(g.node, ast.Lambda):
                continue
            for n in walk_own(g.node):
                if isinstance(n, ast.Call) and isinstance(n.func, ast.Attribute) and n.func.attr == "_callback_listeners":
                    sites += 1
                    names = list(ctx.callee_names(g, n))
                    ok = bool(names) and all(x in isolated for x in names)
                    ck.check("C12.S1", ok, f"{_short(g.qualname)}: _callback_listeners(...) resolves to an isolating implementation",
                             f"{ctx.fkey(g)}:callback-site", f"{_short(g.qualname)}: _callback_listeners(...) resolves to {names}, not (only) to an implementation that isolates listeners",
                             g.loc(n))
        ck.require_min("C12.S1", "_callback_listeners call sites in the package", sites, 4)
    # S2: every loop in the package that calls the elements of a `.listeners` collection obeys the isolation rule
    if ck.rule("C12.S2", "sweep: every loop over a .listeners collection isolates its listeners"):
        loops = 0
        if lattr is None:
            ck.unknown("C12.S2", "cannot determine the attribute _callback_listeners iterates", "")
        else:
            for g in prog.package_functions():
                if isinstance(g.node, ast.Lambda):
                    continue
                if not any(isinstance(n, ast.Attribute) and n.attr == lattr for n in walk_own(g.node)):
                    continue
                loops += _isolation(ctx, "C12.S2", g, lattr, anchor=False)
            ck.require_min("C12.S2", f"loops calling the elements of .{lattr}", loops, 1)
        # other callback collections are outside the property; listed for the reader, not judged
        other = []
        for g in prog.package_functions():
            if isinstance(g.node, ast.Lambda) or g.cls is None or not prog.is_subclass(g.cls.qualname, AP):
                continue
            cfg = ctx.cfg(g.qualname)
            for _n, _c, coll in _listener_calls(ctx, cfg, None):
                if coll[2] != lattr:
                    other.append(f"{_short(g.qualname)} over self.{coll[2]}")
        if other:
            ck.note("callback loops over other collections (availability / config-changed listeners) are not part of C12 "
                    "and are not isolated: " + ", ".join(sorted(set(other))))
    # S3: the generic chain rule for every other override of the chain's methods
    if ck.rule("C12.S3", "sweep: no override bypasses the checked chain"):
        for base, meth in ((HC, "event_received"), (PAIRING, "event_received"), (PAIRING, "connection_made"),
                           (PAIRING, "subscribe"), (PAIRING, "_update_subscriptions"), (IPROTO, "data_received")):
            own = prog.lookup_method(base, meth)
            if own is None:
                ck.unknown("C12.S3", f"{base}.{meth} not found", "")
                continue
            allowed = {f"{SPROTO}.data_received"}  # examined as link 0 of the chain
            bad = [q for q in _methods(prog, base, meth) if q != own.qualname and q not in allowed and not q.startswith("aiohomekit.testing")]
            ck.check("C12.S3", not bad, f"{_short(base)}.{meth}: no unchecked override in the package",
                     f"{base}.{meth}:override", f"{base}.{meth} is overridden by {bad}, which the chain rules did not examine",
                     own.loc())


MANIFEST = {
    "technique": "CFG must-pass-through queries with gates as edges and exception edges (a second CFG of the listener loop "
    "in which every listener call is a raise site of Exception), def-use terms for 'the whole argument' / payload "
    "comprehensions / event keys, call-chain resolution through annotated attributes, who-may-write sweeps over the package",
    "level_text": "Static, all CFG paths: decides the structural premises of the property - re-notification and "
    "re-subscription of the whole subscription set on every secure (re)connection, recording before the first failing "
    "await, unfiltered payload with ev set, complete send loop, the single documented polling fall-back, one unfiltered "
    "delivery per completed EVENT message along the resolved call chain keyed by (aid, iid), and isolation of raising "
    "listeners. The history-level statement (after every reconnect, every event exactly once and in order, for all "
    "interleavings of subscribe/unsubscribe/disconnect) follows from these premises on a single-threaded event loop by a "
    "standard argument and is not itself explored.",
    "level_note": "Not decided: exactly-once and ordering over histories; what the accessory does with the request; events that "
    "arrive while a reconnect is in progress. Trusted: asyncio delivers bytes in order to data_received; HTTP/EVENT framing "
    "(C07) and request/response pairing (C08); itertools.groupby and set/list copies drop nothing; constructor annotations "
    "for owner/connection. Engine raise-site definition applies: bytes.decode on an event body (invalid UTF-8) and "
    "iteration over the live self.listeners set (a listener that registers/unregisters listeners during delivery raises "
    "RuntimeError at the loop head, outside the per-listener try) are not modelled as raise sites. Unrecognised "
    "restructurings end in ANALYSIS-ERROR (exit 2), never in a pass.",
}

TWIN_FILES = [
    "aiohomekit/controller/ip/pairing.py",
    "aiohomekit/controller/ip/connection.py",
    "aiohomekit/controller/abstract.py",
]
_PF = "aiohomekit/controller/ip/pairing.py"
_CF = "aiohomekit/controller/ip/connection.py"
_AF = "aiohomekit/controller/abstract.py"
VARIANTS = [
    {
        "name": "re-subscribe on reconnect deleted",
        "file": _PF,
        "old": "        if self.subscriptions:\n            await self.subscribe(self.subscriptions)\n",
        "new": "",
        "expect": "C12.G1",
    },
    {
        "name": "try moved outside the for in _callback_listeners",
        "file": _AF,
        "old": "        for listener in list(self.listeners):\n            try:\n                logger.debug(\"callback ev:%s\", event)\n                listener(event)\n"
        "            except Exception:\n                logger.exception(\"Unhandled error when processing event\")\n",
        "new": "        try:\n            for listener in list(self.listeners):\n                logger.debug(\"callback ev:%s\", event)\n                listener(event)\n"
        "        except Exception:\n            logger.exception(\"Unhandled error when processing event\")\n",
        "expect": "C12.X1",
    },
    {
        "name": "break in the listener handler",
        "file": _AF,
        "old": "                logger.exception(\"Unhandled error when processing event\")\n",
        "new": "                logger.exception(\"Unhandled error when processing event\")\n                break\n",
        "expect": "C12.X1",
    },
    {
        "name": "ids added to subscriptions only after the request",
        "file": _PF,
        "old": "        await super().subscribe(set(characteristics))\n\n        if not self.supports_subscribe:\n            logger.info(\n"
        "                \"This device does not support push, so only polling operations will be supported during this session\"\n"
        "            )\n            return None\n\n        try:\n            await self._ensure_connected()\n        except AccessoryDisconnectedError:\n"
        "            logger.debug(\"Attempted to subscribe to characteristics but could not connect to accessory\")\n            return {}\n\n"
        "        try:\n            return await self._update_subscriptions(characteristics, True)\n        except AccessoryDisconnectedError:\n"
        "            self.supports_subscribe = False\n            return {}\n",
        "new": "        if not self.supports_subscribe:\n            await super().subscribe(set(characteristics))\n            return None\n\n"
        "        try:\n            await self._ensure_connected()\n        except AccessoryDisconnectedError:\n"
        "            await super().subscribe(set(characteristics))\n            return {}\n\n"
        "        try:\n            status = await self._update_subscriptions(characteristics, True)\n        except AccessoryDisconnectedError:\n"
        "            self.supports_subscribe = False\n            return {}\n        await super().subscribe(set(characteristics))\n        return status\n",
        "expect": "C12.G2",
    },
    {
        "name": "owner.connection_made(True) not called after the secure session is up",
        "file": _CF,
        "old": "        if self.owner:\n            await self.owner.connection_made(True)\n",
        "new": "        if self.owner:\n            logger.debug(\"%s: connected\", self.name)\n",
        "expect": "C12.G1",
    },
    {
        "name": "owner.connection_made(True) called before is_secure = True",
        "file": _CF,
        "old": "        self.is_secure = True\n\n        logger.debug(\"Secure connection to %s:%s established\", self.connected_host, self.port)\n\n"
        "        if self.owner:\n            await self.owner.connection_made(True)\n",
        "new": "        logger.debug(\"Secure connection to %s:%s established\", self.connected_host, self.port)\n\n"
        "        if self.owner:\n            await self.owner.connection_made(True)\n\n        self.is_secure = True\n",
        "expect": "C12.G1",
    },
    {
        "name": "EMPTY_EVENT notification removed",
        "file": _PF,
        "old": "        self._callback_listeners(EMPTY_EVENT)\n",
        "new": "        logger.debug(\"connection is back\")\n",
        "expect": "C12.G1",
    },
    {
        "name": "secure test of connection_made inverted",
        "file": _PF,
        "old": "        if not secure:\n            return\n",
        "new": "        if secure:\n            return\n",
        "expect": "C12.G1",
    },
    {
        "name": "re-subscribe only the first 16 ids",
        "file": _PF,
        "old": "            await self.subscribe(self.subscriptions)\n",
        "new": "            await self.subscribe(sorted(self.subscriptions)[:16])\n",
        "expect": "C12.G1",
    },
    {
        "name": "owner.event_received called twice",
        "file": _CF,
        "old": "        self.owner.event_received(parsed)\n",
        "new": "        self.owner.event_received(parsed)\n        self.owner.event_received(parsed)\n",
        "expect": "C12.G3",
    },
    {
        "name": "event dispatch filtered by the subscription set",
        "file": _PF,
        "old": "        self._callback_listeners(format_characteristic_list(event))\n",
        "new": "        self._callback_listeners(\n            {k: v for k, v in format_characteristic_list(event).items() if k in self.subscriptions}\n        )\n",
        "expect": "C12.G3",
    },
    {
        "name": "EVENT messages dropped while requests are pending",
        "file": _CF,
        "old": "                    self.connection.event_received(self.current_response)\n",
        "new": "                    if not self.result_cbs:\n                        self.connection.event_received(self.current_response)\n",
        "expect": "C12.G3",
    },
    {
        "name": "events without a value silently dropped in connection.event_received",
        "file": _CF,
        "old": "        self.owner.event_received(parsed)\n",
        "new": "        if not parsed.get(\"characteristics\"):\n            return\n        self.owner.event_received(parsed)\n",
        "expect": "C12.G3",
    },
    {
        "name": "event keys swapped to (iid, aid)",
        "file": _PF,
        "old": "        key = (c[\"aid\"], c[\"iid\"])\n",
        "new": "        key = (c[\"iid\"], c[\"aid\"])\n",
        "expect": "C12.G3",
    },
    {
        "name": "listener handler catches only ValueError",
        "file": _AF,
        "old": "            except Exception:\n                logger.exception(\"Unhandled error when processing event\")\n",
        "new": "            except ValueError:\n                logger.exception(\"Unhandled error when processing event\")\n",
        "expect": "C12.X1",
    },
    {
        "name": "listener handler re-raises",
        "file": _AF,
        "old": "                logger.exception(\"Unhandled error when processing event\")\n",
        "new": "                logger.exception(\"Unhandled error when processing event\")\n                raise\n",
        "expect": "C12.X1",
    },
    {
        "name": "supports_subscribe switched off on any exception",
        "file": _PF,
        "old": "        except AccessoryDisconnectedError:\n            self.supports_subscribe = False\n",
        "new": "        except Exception:\n            self.supports_subscribe = False\n",
        "expect": "C12.G2",
    },
    {
        "name": "supports_subscribe switched off when the connection cannot be made",
        "file": _PF,
        "old": "            logger.debug(\"Attempted to subscribe to characteristics but could not connect to accessory\")\n",
        "new": "            self.supports_subscribe = False\n",
        "expect": "C12.G2",
    },
    {
        "name": "return inside the per-accessory send loop",
        "file": _PF,
        "old": "            if response:\n                # An empty body is a success response\n",
        "new": "            if not response:\n                return status\n            if response:\n                # An empty body is a success response\n",
        "expect": "C12.G2",
    },
    {
        "name": "ev flag dropped from the payload",
        "file": _PF,
        "old": "[{\"aid\": aid, \"iid\": iid, \"ev\": ev} for aid, iid in aid_iids]",
        "new": "[{\"aid\": aid, \"iid\": iid} for aid, iid in aid_iids]",
        "expect": "C12.G2",
    },
    {
        "name": "payload comprehension filtered",
        "file": _PF,
        "old": "for aid, iid in aid_iids]",
        "new": "for aid, iid in aid_iids if aid == 1]",
        "expect": "C12.G2",
    },
    {
        "name": "only the first per-accessory payload is sent",
        "file": _PF,
        "old": "        for char_payload in char_payloads:\n",
        "new": "        for char_payload in char_payloads[:1]:\n",
        "expect": "C12.G2",
    },
    {
        "name": "break after the first successful request",
        "file": _PF,
        "old": "                            \"description\": to_status_code(row[\"status\"]).description,\n                        }\n",
        "new": "                            \"description\": to_status_code(row[\"status\"]).description,\n                        }\n            else:\n                break\n",
        "expect": "C12.G2",
    },
    {
        "name": "only the new ids are requested (nothing on reconnect)",
        "file": _PF,
        "old": "        await super().subscribe(set(characteristics))\n",
        "new": "        characteristics = await super().subscribe(set(characteristics))\n",
        "expect": "C12.G2",
    },
    {
        "name": "subscription set cleared when an insecure connection is made",
        "file": _PF,
        "old": "        if not secure:\n            return\n",
        "new": "        if not secure:\n            self.subscriptions.clear()\n            return\n",
        "expect": "C12.G2",
    },
    {
        "name": "AbstractPairing.subscribe records only the new ids after computing them from a cleared set",
        "file": _AF,
        "old": "        self.subscriptions.update(characteristics)\n",
        "new": "        self.subscriptions = new_characteristics\n",
        "expect": "C12.G2",
    },
]

VARIANTS += [
    {"name": "handler names the failing listener by listener.__qualname__ (a partial has none)", "file": "aiohomekit/controller/abstract.py",
     "old": '                logger.exception("Unhandled error when processing event")',
     "new": '                logger.exception("Unhandled error in %s when processing event", listener.__qualname__)',
     "expect": "C12.X1"},
    {"name": "delivery loop iterates the live listener set (pinned defect)", "file": "aiohomekit/controller/abstract.py",
     "old": "        for listener in list(self.listeners):", "new": "        for listener in self.listeners:", "expect": "C12.X2"},
    {"name": "event body decoded outside the try (pinned defect)", "file": "aiohomekit/controller/ip/connection.py",
     "old": "        try:\n            decoded = event.body.decode(\"utf-8\")\n            if not decoded:\n                return\n            parsed = hkjson.loads(decoded)",
     "new": "        decoded = event.body.decode(\"utf-8\")\n        try:\n            if not decoded:\n                return\n            parsed = hkjson.loads(decoded)", "expect": "C12.X2"},
]

VARIANTS += [
    {"name": "connection check moved into _update_subscriptions (a failure to connect is taken for a cut-off request)", "file": _PF,
     "old": '        """Subscribe or unsubscribe to characteristics."""\n        status = {}\n',
     "new": '        """Subscribe or unsubscribe to characteristics."""\n        await self._ensure_connected()\n        status = {}\n',
     "expect": "C12.G2"},
]
