"""C16  Structured TLV8 messages round-trip for every defined message type."""

from __future__ import annotations

import ast
import struct as _struct

from ..engine.context import Context, compare_parts
from ..engine.loader import dotted, walk_expr, walk_own
from ..engine.terms import contains, show, strip_sites, subterms

PROPERTY = "C16"
EXPLANATION = (
    "Static analysis of the structured TLV8 layer over every TLVStruct subclass found by reflection on the class table: "
    "(K1) every annotated tlv_entry field type resolves - by the same MRO/origin rule find_serializer uses - to a key of "
    "SERIALIZERS and of DESERIALIZERS, and the two tables have the same key set; (K2) the sequence codec is a TLV-array "
    "codec (it calls .encode() on items and splits on separator items), so the element type of every Sequence[T] field "
    "must be a TLVStruct; (K3) TLV types are unique within each struct (decode is a function of the type byte); (K4) "
    "constants agree: encoder chunk step = slice width = 255 = the decoder's continuation trigger, the separator emitted "
    "between sequence items (00 00) is the splitter's separator and no sequence element struct has a field of that type, "
    "fields are emitted in declaration order, scalar widths and byte orders of serialiser/deserialiser pairs agree with the "
    "type names; (T1) look-ahead byte accounting of tlv_iterator / tlv_array (peek offset, bounds test before the read, "
    "merged slice, advance); (K5) struct-valued characteristic access returns struct.decode of the whole stored payload "
    "(or of every item tlv_array yields), unconditionally. Quantifier: every struct and every field row - not sampled messages."
)
VALUE_GETTER = "aiohomekit.model.characteristics.characteristic.Characteristic.value"


def _k5(ctx: Context) -> None:
    """Characteristic.value for a tlv8 characteristic with a registered struct: the single-message form returns
    struct.decode(<the whole base64-decoded payload>) - unconditionally, an all-unset message encodes to zero bytes and
    must decode to the equal all-unset message, not to None; the array form returns struct.decode(item) for every item
    tlv_array splits the payload into."""
    ck = ctx.ck
    T = ctx.terms
    f = ctx.func(VALUE_GETTER)
    cfg = ctx.cfg(VALUE_GETTER)
    stored = ("attr", ("param", f.pos_params[0]), "_value")
    payload = ("call", ("glob", "base64.b64decode"), (stored,), ())

    def is_struct(t) -> bool:
        return t[0] == "call" and t[1][0] == "attr" and t[1][2] == "get" and t[2] == (("const", "struct"),)

    counts = {"single": 0, "arrays": 0}
    for n in cfg.nodes:
        if n.kind != "return" or not n.exprs or n.copy_of:
            continue
        t0 = strip_sites(T.of(cfg, n, n.exprs[0]))

        def _alts(t_):
            return [a for x in t_[1] for a in _alts(x)] if t_[0] == "phi" else [t_]

        for t in _alts(t0):  # one return of a local that holds either form (a helper's two returns): each form judged
            _k5_one(ck, ctx, f, n, t, is_struct, payload, counts)
    single, arrays = counts["single"], counts["arrays"]
    ck.check("C16.K5", single >= 1 and arrays >= 1, "Characteristic.value has both forms (single message, bare array)", f"{ctx.fkey(f)}:both-forms",
             f"Characteristic.value: single-message returns {single}, array returns {arrays}", f.loc())


def _k5_one(ck, ctx, f, n, t, is_struct, payload, counts) -> None:
    single = arrays = 0
    if True:
        if not contains(t, is_struct):
            return
        ok_single = t[0] == "call" and t[1][0] == "attr" and t[1][2] == "decode" and is_struct(t[1][1]) and t[2] == (payload,) and not t[3]
        ok_array = False
        if t[0] == "comp" and t[1] == "ListComp" and len(t[3]) == 1:
            elt, (var, it, conds) = t[2], t[3][0]
            ok_array = (elt[0] == "call" and elt[1][0] == "attr" and elt[1][2] == "decode" and is_struct(elt[1][1]) and elt[2] == (var,)
                        and it == ("call", ("glob", f"{M}.tlv_array"), (payload,), ()) and not conds)
        single += ok_single
        arrays += ok_array
        ck.check("C16.K5", ok_single or ok_array,
                 "Characteristic.value: a struct-valued result is struct.decode(whole payload) or [struct.decode(item) for item in tlv_array(payload)]",
                 f"{ctx.fkey(f)}:struct-result:{'single' if not t[0] == 'comp' else 'array'}",
                 f"Characteristic.value returns {show(t, 160)} for a struct-valued characteristic: the message is not simply the decode of the whole "
                 "stored payload (an all-unset message is zero bytes and must still decode to the equal message)", ctx.loc(f, n))
    counts["single"] += single
    counts["arrays"] += arrays


TRUSTED = ["dataclasses.fields() returns fields in declaration order", "struct.pack/unpack and int.from_bytes/to_bytes"]

M = "aiohomekit.tlv8"
TS = f"{M}.TLVStruct"
SEQ = "collections.abc.Sequence"


def _u(e) -> str:
    return " ".join(ast.unparse(e).split())


def structs(ctx: Context):
    out = []
    for c in ctx.prog.classes.values():
        if c.module.name == "aiohomekit.testing":
            continue
        if TS in ctx.prog.mro(c.qualname)[1:]:
            out.append(c)
    return sorted(out, key=lambda c: c.qualname)


def fields_of(ctx: Context, c):
    """[(name, annotation ast, tlv type const, node)] of the class's own tlv_entry fields (declaration order)"""
    out = []
    for st in c.node.body:
        if isinstance(st, ast.AnnAssign) and isinstance(st.value, ast.Call) and (ctx.prog.resolve_dotted(c.module, dotted(st.value.func) or "") == f"{M}.tlv_entry"):
            t = ctx.prog.try_const(st.value.args[0], c.module, c, None) if st.value.args else None
            for kw in st.value.keywords:
                if kw.arg == "type":
                    t = ctx.prog.try_const(kw.value, c.module, c, None)
            out.append((st.target.id, st.annotation, t, st))
    return out


def all_fields(ctx: Context, c):
    out = []
    for cn in reversed(ctx.prog.mro(c.qualname)):
        cc = ctx.prog.classes.get(cn)
        if cc is not None and cn != TS:
            out += fields_of(ctx, cc)
    return out


def table_keys(ctx: Context, name: str):
    m = ctx.prog.module(M)
    vals = m.assigns.get(name, [])
    if len(vals) != 1 or not isinstance(vals[0], ast.Dict):
        return None
    out = {}
    for k, v in zip(vals[0].keys, vals[0].values):
        d = dotted(k) if k is not None else None
        if d is None:
            return None
        out[ctx.prog.resolve_dotted(m, d)] = ctx.prog.resolve_dotted(m, dotted(v) or "")
    return out


def type_key(ctx: Context, c, ann: ast.expr, keys) -> tuple[str | None, str]:
    """(table key chosen by the MRO/origin rule or None, description of the type)"""
    if isinstance(ann, ast.Constant) and isinstance(ann.value, str):
        try:
            ann = ast.parse(ann.value, mode="eval").body
        except SyntaxError:
            return None, repr(ann.value)
    if isinstance(ann, ast.Subscript):
        base = ctx.prog.resolve_dotted(c.module, dotted(ann.value) or "")
        origin = {"typing.Sequence": SEQ, "collections.abc.Sequence": SEQ, "typing.List": "list", "list": "list"}.get(base, base)
        return (origin if origin in keys else None), _u(ann)
    d = dotted(ann)
    if d is None:
        return None, _u(ann)
    r = ctx.prog.resolve_dotted(c.module, d)
    for cn in ctx.prog.mro(r):
        if cn in keys:
            return cn, r
    return None, r


def run(ctx: Context) -> None:
    ck = ctx.ck
    ss = structs(ctx)
    ck.stats["c16_structs"] = [c.qualname for c in ss]
    ser = table_keys(ctx, "SERIALIZERS")
    des = table_keys(ctx, "DESERIALIZERS")
    if ser is None or des is None:
        ck.unknown("C16.K1", "SERIALIZERS / DESERIALIZERS are not literal dicts keyed by names", "aiohomekit/tlv8.py:1")
        return
    if ck.rule("C16.K1", "every field type has a codec in both tables"):
        _k1(ctx, ss, ser, des)
    if ck.rule("C16.K2", "sequence element types are structs"):
        _k2(ctx, ss)
    if ck.rule("C16.K3", "TLV types unique within each struct"):
        _k3(ctx, ss)
    if ck.rule("C16.K4", "constants, order and scalar codecs agree"):
        _k4(ctx, ss, ser, des)
    if ck.rule("C16.K5", "struct-valued characteristic access decodes the whole payload"):
        _k5(ctx)
    if ck.rule("C16.T1", "look-ahead byte accounting"):
        _t1(ctx)


def _k1(ctx: Context, ss, ser, des) -> None:
    ck = ctx.ck
    ck.check("C16.K1", set(ser) == set(des), f"SERIALIZERS and DESERIALIZERS have the same {len(ser)} keys", f"{M}:table-keys",
             f"codec tables differ: only serialisable {sorted(set(ser) - set(des))}, only deserialisable {sorted(set(des) - set(ser))}", "aiohomekit/tlv8.py:1")
    keys = set(ser) & set(des)
    n = 0
    for c in ss:
        for name, ann, t, st in fields_of(ctx, c):
            n += 1
            k_ser, desc = type_key(ctx, c, ann, set(ser))
            k_des, _ = type_key(ctx, c, ann, set(des))
            ck.check(
                "C16.K1",
                k_ser is not None and k_des is not None,
                f"{c.name}.{name}: {_u(ann)} -> codec {str(k_ser).rsplit('.', 1)[-1]}",
                f"{c.qualname}:{name}:no-codec",
                f"{c.name}.{name} is declared as {_u(ann)} ({desc}), which has no entry in "
                f"{'SERIALIZERS' if k_ser is None else ''}{' / ' if k_ser is None and k_des is None else ''}{'DESERIALIZERS' if k_des is None else ''}: "
                "encoding or decoding a message with this field raises",
                f"{c.module.relpath}:{st.lineno}",
            )
    ck.require_min("C16.K1", "tlv_entry fields over all structs", n, 50)
    ck.require_min("C16.K1", "TLVStruct subclasses", len(ss), 10)
    # every field is annotated + tlv_entry (a dataclass field without tlv metadata would make encode() raise KeyError)
    for c in ss:
        for st in c.node.body:
            if isinstance(st, ast.AnnAssign) and not (isinstance(st.value, ast.Call) and (dotted(st.value.func) or "").endswith("tlv_entry")) and not _u(st.annotation).startswith("ClassVar"):
                is_field_false = isinstance(st.value, ast.Call) and any(kw.arg == "init" and isinstance(kw.value, ast.Constant) and kw.value.value is False for kw in st.value.keywords)
                ck.check("C16.K1", is_field_false, f"{c.name}.{st.target.id}: non-TLV field is excluded from init", f"{c.qualname}:{st.target.id}:no-tlv-metadata",
                         f"{c.name}.{st.target.id} is a dataclass field without tlv_entry metadata: encode() raises KeyError for it", f"{c.module.relpath}:{st.lineno}")


def _k2(ctx: Context, ss) -> None:
    ck = ctx.ck
    # the sequence codec really is an array-of-struct codec?
    sf = ctx.func(f"{M}.serialize_typing_sequence")
    enc_calls = [x for x in walk_own(sf.node) if isinstance(x, ast.Call) and isinstance(x.func, ast.Attribute) and x.func.attr == "encode"]
    df = ctx.func(f"{M}.deserialize_typing_sequence")
    uses_array = any(isinstance(x, ast.Call) and ctx.resolve_name(df, x.func) == f"{M}.tlv_array" for x in walk_own(df.node))
    struct_only = bool(enc_calls) and uses_array
    ck.stats["c16_sequence_codec_is_struct_array"] = struct_only
    n = 0
    for c in ss:
        for name, ann, t, st in fields_of(ctx, c):
            if not isinstance(ann, ast.Subscript):
                continue
            n += 1
            el = ann.slice
            d = dotted(el)
            r = ctx.prog.resolve_dotted(c.module, d) if d else _u(el)
            is_struct = TS in ctx.prog.mro(r)
            ok = is_struct or not struct_only
            ck.check(
                "C16.K2",
                ok,
                f"{c.name}.{name}: Sequence[{_u(el)}] has struct elements",
                f"{c.qualname}:{name}:sequence-of-scalar",
                f"{c.name}.{name} is declared Sequence[{_u(el)}], but the sequence codec encodes items with .encode() and splits the value on "
                "zero-length separator TLVs: a packed list of scalars (e.g. the 16-bit instance ids of linked services, `01 00 02 00`) is decoded "
                "as ONE little-endian integer (131073) and an id whose low byte is 0 (8192 = `00 20`) is read as a separator; encoding raises AttributeError",
                f"{c.module.relpath}:{st.lineno}",
            )
    ck.require_min("C16.K2", "Sequence[...] fields", n, 4)


def _k3(ctx: Context, ss) -> None:
    ck = ctx.ck
    for c in ss:
        seen = {}
        fl = all_fields(ctx, c)
        dups = {}
        for name, ann, t, st in fl:
            if t is None:
                ck.unknown("C16.K3", f"{c.name}.{name}: TLV type is not a constant", f"{c.module.relpath}:{st.lineno}")
                continue
            if t in seen:
                dups.setdefault(t, [seen[t]]).append(name)
            seen.setdefault(t, name)
        if not dups:
            ck.holds("C16.K3", f"{c.name}: {len(fl)} fields, TLV types unique", f"{c.module.relpath}:{c.node.lineno}")
        for t, names in sorted(dups.items()):
            ck.violated(
                "C16.K3",
                f"{c.qualname}:duplicate-type:{t}",
                f"{c.name} declares TLV type {t} for several fields ({', '.join(names)}): decode() can fill only one of them (the last declared), so "
                f"{c.name}({names[0]}=b'x') does not round-trip",
                f"{c.module.relpath}:{c.node.lineno}",
                None,
                f"{c.name}: TLV types unique",
            )


def _k4(ctx: Context, ss, ser, des) -> None:
    ck = ctx.ck
    T = ctx.terms
    # encoder: range(0, len(encoded), K), slice [offset : offset + K], length byte pack("B", len(chunk))
    ef = ctx.func(f"{TS}.encode")
    ecfg = ctx.cfg(ef.qualname)
    K_step = K_slice = None
    for n in ecfg.nodes:
        if n.kind == "for_iter" and isinstance(n.ast.iter, ast.Call) and isinstance(n.ast.iter.func, ast.Name) and n.ast.iter.func.id == "range" and len(n.ast.iter.args) == 3:
            K_step = ctx.const(ef, n.ast.iter.args[2], None)
            off = n.ast.target.id if isinstance(n.ast.target, ast.Name) else None
            for x in ast.walk(n.ast):
                if isinstance(x, ast.Subscript) and isinstance(x.slice, ast.Slice) and x.slice.lower is not None and x.slice.upper is not None and _u(x.slice.lower) == off:
                    up = x.slice.upper
                    if isinstance(up, ast.BinOp) and isinstance(up.op, ast.Add) and _u(up.left) == off:
                        K_slice = ctx.const(ef, up.right, None)
                    else:
                        # the end of the fragment kept in a local, possibly clamped to the length (`end = offset + K if .. else total`):
                        # by value - every alternative is `offset + K` (one K) or the length of what is fragmented
                        hn = next((m for m in ecfg.nodes if m.ast is not None and any(y is x for y in ast.walk(m.ast))), None)
                        widths, other = set(), False
                        if hn is not None:
                            def _alts_(t_):
                                return [a_ for z_ in t_[1] for a_ in _alts_(z_)] if t_[0] == "phi" else [t_]

                            for a_ in _alts_(strip_sites(T.of(ecfg, hn, up))):
                                if a_[0] == "add" and len(a_[1]) == 2 and any(p_[0] == "const" and isinstance(p_[1], int) for p_ in a_[1]) and any(p_[0] == "loopvar" or p_[0] == "each" or p_[0] not in ("const",) for p_ in a_[1]):
                                    widths.add(next(p_[1] for p_ in a_[1] if p_[0] == "const"))
                                elif a_[0] == "call" and a_[1] == ("glob", "len"):
                                    pass
                                else:
                                    other = True
                        if len(widths) == 1 and not other:
                            K_slice = next(iter(widths))
                        else:
                            K_slice = NotImplemented
    if K_step is None:
        # the consuming form: `while len(v) > K: emit v[:K]; v = v[K:]` and the remainder after the loop
        for n in ecfg.nodes:
            if n.kind != "test" or not any(fr[0] == "loop" for fr in n.frames) and not isinstance(n.ast, ast.While):
                continue
            cp = compare_parts(n.exprs[0])
            if not (cp and cp[1] in ("Gt", "GtE") and isinstance(cp[0], ast.Call) and isinstance(cp[0].func, ast.Name) and cp[0].func.id == "len" and len(cp[0].args) == 1
                    and isinstance(cp[0].args[0], ast.Name)):
                continue
            v, K_test = cp[0].args[0].id, ctx.const(ef, cp[2], None)
            takes = {ctx.const(ef, x.slice.upper, None) for x in walk_own(ef.node) if isinstance(x, ast.Subscript) and isinstance(x.slice, ast.Slice)
                     and isinstance(x.value, ast.Name) and x.value.id == v and x.slice.lower is None and x.slice.upper is not None}
            advs = {ctx.const(ef, x.value.slice.lower, None) for x in walk_own(ef.node) if isinstance(x, ast.Assign) and len(x.targets) == 1 and isinstance(x.targets[0], ast.Name)
                    and x.targets[0].id == v and isinstance(x.value, ast.Subscript) and isinstance(x.value.slice, ast.Slice) and isinstance(x.value.value, ast.Name)
                    and x.value.value.id == v and x.value.slice.upper is None and x.value.slice.lower is not None}
            if len(takes) == 1 and len(advs) == 1 and isinstance(K_test, int):
                K_slice, K_step = next(iter(takes)), next(iter(advs))
                ck.check("C16.K4", K_test == K_step, "encoder: a fragment is split off while more than the fragment size is left", f"{ctx.fkey(ef)}:chunk-loop-test",
                         f"TLVStruct.encode splits fragments of {K_step} bytes off while more than {K_test} bytes are left", ctx.loc(ef, n))
                if cp[1] == "GtE":
                    # `while len(v) >= K`: for a length that is an exact multiple of K nothing is left after the loop - the item
                    # written behind the loop must then be skipped, or the value gets a trailing zero-length fragment
                    tails = [m for m in ecfg.nodes for c_ in ctx.calls(m) if isinstance(c_.func, ast.Attribute) and c_.func.attr in ("append", "extend") and c_.args
                             and isinstance(c_.args[0], ast.Call) and isinstance(c_.args[0].func, ast.Name) and c_.args[0].func.id == "len"
                             and _u(c_.args[0].args[0]) == v and not any(fr[0] == "loop" and fr[2] == "body" and fr[1] is n.ast for fr in m.frames)]
                    nonempty = []
                    for tn in ecfg.nodes:
                        if tn.kind == "test":
                            if isinstance(tn.exprs[0], ast.Name) and tn.exprs[0].id == v:
                                nonempty += ecfg.out_edges(tn, ("T",))
                            c2 = compare_parts(tn.exprs[0])
                            if c2 and isinstance(c2[0], ast.Call) and isinstance(c2[0].func, ast.Name) and c2[0].func.id == "len" and _u(c2[0].args[0]) == v and tn is not n:
                                if c2[1] == "Gt" and ctx.const(ef, c2[2], None) == 0 or c2[1] == "NotEq" and ctx.const(ef, c2[2], None) == 0 or c2[1] == "GtE" and ctx.const(ef, c2[2], None) == 1:
                                    nonempty += ecfg.out_edges(tn, ("T",))
                    for tl in tails:
                        wit = None
                        for e_ in ecfg.out_edges(n, ("F",)):
                            wit = wit or ([] if e_[1] == tl.id else ecfg.find_path(e_[1], tl.id, avoid_edges=nonempty))
                        ck.check("C16.K4", wit is None, "encoder: after `while len(v) >= K` the last item is written only when something is left", f"{ctx.fkey(ef)}:trailing-empty-fragment",
                                 f"TLVStruct.encode splits fragments off while len >= {K_test} and then writes the rest unconditionally: a value whose length is an exact multiple of "
                                 f"{K_test} gets a trailing zero-length item (not the canonical encoding; the value is no longer `every fragment but the last is full`)", ctx.loc(ef, tl))
    if K_slice is NotImplemented:
        ck.unknown("C16.K4", "TLVStruct.encode: the end of the fragment slice is not `offset + K` (nor that clamped to the length) in a form that is read: slice width not decided", ef.loc())
        K_slice = None
        if K_step is not None:
            ck.check("C16.K4", K_step == 255, "encoder: chunk step = 255", f"{ctx.fkey(ef)}:chunk", f"TLVStruct.encode chunks by step {K_step} (TLV8: 255)", ef.loc())
    elif K_step is None and K_slice is None:
        ck.unknown("C16.K4", "TLVStruct.encode: the fragmentation loop was not recognised (neither range(0, len, K) nor while len > K): fragment size not decided", ef.loc())
    else:
        ck.check("C16.K4", K_step == K_slice == 255, "encoder: chunk step = slice width = 255", f"{ctx.fkey(ef)}:chunk", f"TLVStruct.encode chunks by step {K_step} / slice width {K_slice} (TLV8: 255)", ef.loc())
    # decoder: continuation trigger length == 255
    itf = ctx.func(f"{M}.tlv_iterator")
    icfg = ctx.cfg(itf.qualname)
    trig = None
    for n in icfg.nodes:
        if n.kind == "test":
            cp = compare_parts(n.exprs[0])
            if cp and cp[1] in ("Eq", "Gt", "GtE") and isinstance(ctx.const(itf, cp[2], None), int) and any(x[0] == "loop" for x in n.frames) and n.ast is not None:
                # the inner while's condition
                if any(isinstance(w, ast.While) and any(n.exprs[0] is y for y in ast.walk(w.test)) for w in ast.walk(itf.node)):
                    k_ = ctx.const(itf, cp[2], None)
                    # the length is a byte (0..255): `> 254` / `>= 255` single out 255 just as `== 255` does; a lower threshold
                    # continues after fragments that are not full
                    trig = k_ if cp[1] == "Eq" else 255 if (cp[1], k_) in (("Gt", 254), ("GtE", 255)) else f"{'>' if cp[1] == 'Gt' else '>='} {k_}"
    if trig is None:
        ck.unknown("C16.K4", "tlv_iterator: the continuation loop is not driven by a comparison of the length with a constant in its own condition (a flag?): the trigger is not decided", itf.loc())
    else:
        ck.check("C16.K4", trig == 255 and K_step in (255, None), "decoder: a value continues exactly after a 255-byte fragment", f"{ctx.fkey(itf)}:continuation", f"tlv_iterator continues a value when length == {trig}; the encoder fragments at {K_step}", itf.loc())
    # declaration order: for f in fields(self)
    order = any(n.kind == "for_iter" and isinstance(n.ast.iter, ast.Call) and ctx.resolve_name(ef, n.ast.iter.func) == "dataclasses.fields" and _u(n.ast.iter.args[0]) == "self" for n in ecfg.nodes)
    ck.check("C16.K4", order, "fields are emitted in declaration order (dataclasses.fields(self))", f"{ctx.fkey(ef)}:order", "TLVStruct.encode no longer iterates dataclasses.fields(self)", ef.loc())
    nosort = not any(isinstance(x, ast.Call) and isinstance(x.func, ast.Name) and x.func.id in ("sorted", "reversed") for x in walk_own(ef.node))
    ck.check("C16.K4", nosort, "the field order is not permuted", f"{ctx.fkey(ef)}:order-permuted", "TLVStruct.encode sorts/reverses the fields", ef.loc())
    # header: type byte then one length byte = len(chunk)
    # separator
    sf = ctx.func(f"{M}.serialize_typing_sequence")
    seps = {ctx.const(sf, x.args[0], None) for x in walk_own(sf.node) if isinstance(x, ast.Call) and isinstance(x.func, ast.Attribute) and x.func.attr == "extend" and x.args and isinstance(ctx.const(sf, x.args[0], None), bytes)}
    # ... or `<separator>.join(<encoded items>)`: exactly one separator between neighbours, none before / after
    seps |= {ctx.const(sf, x.func.value, None) for x in walk_own(sf.node) if isinstance(x, ast.Call) and isinstance(x.func, ast.Attribute) and x.func.attr == "join" and len(x.args) == 1
             and isinstance(ctx.const(sf, x.func.value, None), bytes)}
    af = ctx.func(f"{M}.tlv_array")
    sep_default = ctx.const(af, af.node.args.defaults[-1], None) if af.node.args.defaults else None
    ck.check("C16.K4", seps == {bytes([sep_default or 0, 0])} and sep_default == 0, "sequence separator emitted (00 00) = separator the splitter looks for (type 0, length 0)", f"{M}:separator",
             f"serialize_typing_sequence emits {sorted(seps)} but tlv_array splits on type {sep_default}", sf.loc())
    # a separator stands between neighbours because of their POSITION: a test that decides whether the separator is
    # emitted must not look at the items themselves (`if val != value[-1]` drops the separator after every item that equals
    # the last one - two equal neighbours then decode as one item)
    scfg = ctx.cfg(sf.qualname)
    seq_p = ("param", sf.pos_params[1]) if len(sf.pos_params) >= 2 else None
    sep_nodes = [n for n in scfg.nodes for c in ctx.calls(n) if isinstance(c.func, ast.Attribute) and c.func.attr == "extend" and c.args
                 and isinstance(ctx.const(sf, c.args[0], None), bytes) and any(fr[0] == "loop" and fr[2] == "body" for fr in n.frames)]

    def _is_item(s_) -> bool:
        if s_[0] in ("iter", "each") and len(s_) == 2:
            if s_[1] == seq_p:
                return True
        if s_[0] == "sub" and len(s_) == 3 and s_[1][0] in ("iter", "each") and s_[2] == ("const", 1) and s_[1][1][0] == "call" and s_[1][1][1] == ("glob", "enumerate"):
            return True
        return s_[0] == "sub" and len(s_) == 3 and s_[1] == seq_p  # value[i] / value[-1]

    for sn in sep_nodes:
        for tn in scfg.nodes:
            if tn.kind != "test" or not any(fr[0] == "loop" and fr[2] == "body" for fr in tn.frames):
                continue
            gates_it = any(scfg.find_path(tn.id, sn.id, avoid_edges=scfg.out_edges(tn, (lab,))) is None and scfg.find_path(tn.id, sn.id) is not None for lab in ("T", "F"))
            if not gates_it:
                continue
            tt = strip_sites(T.of(scfg, tn, tn.exprs[0]))
            by_value = contains(tt, _is_item)
            ck.check("C16.K4", not by_value, "the test that places a separator looks at positions, not at the items", f"{ctx.fkey(sf)}:separator-by-value",
                     f"serialize_typing_sequence decides by `{tn.text()}` - a comparison of the items themselves - whether a separator follows: equal items lose "
                     "the separator between them and decode as one item", ctx.loc(sf, tn))
    df = ctx.func(f"{M}.deserialize_typing_sequence")
    explicit = [x for x in walk_own(df.node) if isinstance(x, ast.Call) and ctx.resolve_name(df, x.func) == f"{M}.tlv_array" and (len(x.args) > 1 or x.keywords)]
    ck.check("C16.K4", not explicit, "the sequence decoder uses the default separator", f"{ctx.fkey(df)}:separator-arg", "deserialize_typing_sequence passes its own separator", df.loc())
    # no sequence element struct has a field of the separator type
    elems = set()
    for c in ss:
        for name, ann, t, st in fields_of(ctx, c):
            if isinstance(ann, ast.Subscript):
                d = dotted(ann.slice)
                r = ctx.prog.resolve_dotted(c.module, d) if d else None
                if r in ctx.prog.classes and TS in ctx.prog.mro(r):
                    elems.add(r)
    for r in sorted(elems):
        c = ctx.prog.classes[r]
        zero = [name for name, ann, t, st in all_fields(ctx, c) if t == 0]
        ck.check("C16.K4", not zero, f"{c.name} (sequence element) has no field of TLV type 0", f"{r}:separator-typed-field",
                 f"{c.name} is used as a sequence element but its field {zero} has TLV type 0, which the splitter takes for the item separator when empty", f"{c.module.relpath}:{c.node.lineno}")
    ck.require_min("C16.K4", "struct types used as sequence elements", len(elems), 3)
    # scalar codecs
    widths = {"u8": ("B", 1, "little"), "u16": ("H", 2, "little"), "u32": ("I", 4, "little"), "u64": ("Q", 8, "little"), "bu16": ("H", 2, "big")}
    for tname, (code, width, order_) in widths.items():
        key = f"{M}.{tname}"
        sfn, dfn = ser.get(key), des.get(key)
        if sfn not in ctx.prog.functions or dfn not in ctx.prog.functions:
            ck.unknown("C16.K4", f"{tname}: codec functions not found", "aiohomekit/tlv8.py:1")
            continue
        s_f, d_f = ctx.func(sfn), ctx.func(dfn)
        fmt = None
        for x in walk_own(s_f.node):
            if isinstance(x, ast.Call) and ctx.resolve_name(s_f, x.func) == "struct.pack" and x.args:
                fmt = ctx.const(s_f, x.args[0], None)
        ok_s = False
        if isinstance(fmt, str):
            body = fmt.lstrip("<>=!@")
            prefix = fmt[: len(fmt) - len(body)]
            s_order = "big" if prefix in (">", "!") else "little"  # native order is little-endian on every platform HomeKit controllers run on
            ok_s = body == code and _struct.calcsize("<" + body) == width and s_order == order_
        d_order = None
        for x in walk_own(d_f.node):
            if isinstance(x, ast.Call) and isinstance(x.func, ast.Attribute) and x.func.attr == "from_bytes" and len(x.args) == 2:
                d_order = ctx.const(d_f, x.args[1], None)
        ck.check("C16.K4", ok_s and d_order == order_, f"{tname}: {width} bytes {order_}-endian in both directions", f"{M}:scalar:{tname}",
                 f"{tname}: serialiser packs {fmt!r}, deserialiser reads {d_order!r}-endian; expected {width} bytes {order_}-endian", s_f.loc())
    # every scalar deserialiser is the plain conversion and nothing else: one return, int.from_bytes(<the value>, order)
    for tname, order_ in (("u8", "little"), ("u16", "little"), ("u32", "little"), ("u64", "little"), ("u128", "little"), ("bu16", "big")):
        dfn = des.get(f"{M}.{tname}")
        if dfn not in ctx.prog.functions:
            continue
        d_f = ctx.func(dfn)
        dcfg = ctx.cfg(dfn)
        rets = [n for n in dcfg.nodes if n.kind == "return" and n.exprs]
        vp = d_f.pos_params[1] if len(d_f.pos_params) > 1 else None
        want = ("call", ("attr", ("glob", "int"), "from_bytes"), (("param", vp), ("const", order_)), ())
        got = [strip_sites(T.of(dcfg, n, n.exprs[0])) for n in rets]
        branches = [n for n in dcfg.nodes if n.kind in ("test", "for", "loop_head")]
        ck.check("C16.K4", got == [want] and not branches, f"{tname}: the deserialiser is exactly int.from_bytes(value, '{order_}')", f"{M}:scalar-deserialiser:{tname}",
                 f"{d_f.name} returns {[show(g, 80) for g in got]}{' under conditions' if branches else ''}: the decoded value is not always the number that was encoded "
                 "(decode(encode(m)) != m for the values the extra logic rewrites)", d_f.loc())
    # u128
    s_f = ctx.func(ser.get(f"{M}.u128", "")) if ser.get(f"{M}.u128") in ctx.prog.functions else None
    if s_f is not None:
        kws = {}
        for x in walk_own(s_f.node):
            if isinstance(x, ast.Call) and isinstance(x.func, ast.Attribute) and x.func.attr == "to_bytes":
                kws = {k.arg: ctx.const(s_f, k.value, None) for k in x.keywords}
                for i, a in enumerate(x.args):
                    kws[["length", "byteorder"][i]] = ctx.const(s_f, a, None)
        ck.check("C16.K4", kws.get("length") == 16 and kws.get("byteorder") == "little", "u128: 16 bytes little-endian", f"{M}:scalar:u128", f"u128 serialiser uses {kws}", s_f.loc())


def _t1(ctx: Context) -> None:
    _t1_iterator(ctx)
    _t1_array(ctx)


def _t1_iterator(ctx: Context) -> None:
    """Byte accounting of tlv_iterator, stated over values at program points (engine/avail.py) and therefore independent of
    how the look-ahead is organised (a `peek` temporary inside the loop, a `next_offset` kept across iterations, the tests
    folded into the loop condition ...).  With O the cursor, and buf the parameter:

        type byte   = buf[O]              read only under  O < len(buf)
        length byte = buf[O + 1]
        value       = buf[O + 2 : O + 2 + buf[O + 1]]                       (first fragment assigned, further ones appended)
        look-ahead  = buf[O + 2 + buf[O + 1]]   read only under  (that index) < len(buf),  compared with the item's type
        every move of O:   O := O + 2 + buf[O + 1]                          (to the next fragment / item, never elsewhere)
    """
    from ..engine import avail as AV

    ck = ctx.ck
    R = "C16.T1"
    f = ctx.func(f"{M}.tlv_iterator")
    cfg = ctx.cfg(f.qualname)
    fk = ctx.fkey(f)
    buf = f.pos_params[0]
    ys = [x for x in walk_own(f.node) if isinstance(x, ast.Yield)]
    if len(ys) != 1 or not isinstance(ys[0].value, ast.Tuple) or len(ys[0].value.elts) != 4:
        ck.unknown(R, "tlv_iterator: yield (offset, type, length, value) not found", f.loc())
        return
    offv, typv, lenv, valv = [e.id if isinstance(e, ast.Name) else None for e in ys[0].value.elts]
    if None in (offv, typv, lenv, valv) or len({offv, typv, lenv, valv}) != 4:
        ck.unknown(R, "tlv_iterator: yield elements are not four distinct simple names", f.loc())
        return
    A = AV.Avail(ctx, cfg)
    if A.kills.get(buf):
        ck.unknown(R, f"tlv_iterator: the buffer `{buf}` is rebound or changed in place: byte accounting by offset not decided", f.loc())
        return
    BUF = AV.atom(("var", buf))
    roles = {offv, typv, lenv, valv, buf}
    live = cfg.reachable_from(cfg.entry.id) | {cfg.entry.id}

    def in_roles(v) -> bool:
        """the value is built only from the cursor variables, the buffer and constants (nothing the analysis could not read)"""
        return all(a[0] != "opaque" and (a[0] != "var" or a[1] in roles) for a in AV.atoms_of(v))

    def judge(ok: bool, actual, desc: str, key: str, msg: str, loc) -> None:
        if ok:
            ck.holds(R, desc, loc)
        elif all(in_roles(v) for v in actual):
            ck.violated(R, f"{fk}:{key}", msg, loc, None, desc)
        else:
            ck.unknown(R, f"{msg} - the value depends on something the analysis does not read: not decided", loc)

    def frag_len(n):  # the length byte of the fragment at the cursor, as of node n
        return AV.atom(("read", BUF, AV.add(A.var(n, offv), AV.const(1))))

    def next_start(n):  # where the fragment after the one at the cursor starts
        return AV.add(AV.add(A.var(n, offv), AV.const(2)), frag_len(n))

    def L_at(n):
        return A.var(n, lenv)

    # ---- where the length variable is known to be 255 (a full fragment): behind the outcome `length == 255` - or, the length
    # being a byte of the buffer (0..255), `length > 254` and the like - with the variable unchanged since.  There `offset + 257`
    # IS `offset + 2 + length`, and values are compared with 255 put for the length.
    len_defs = [cfg.nodes[i] for i in A.kills.get(lenv, set()) if i in live]
    len_is_byte = bool(len_defs) and all(lenv in A.assigned(d) and (AV.sole_atom(A.assigned(d)[lenv]) or ("",))[0] == "read" for d in len_defs if d.kind == "stmt" and d.ast is not None)
    full_gate = []
    for t in cfg.nodes:
        if t.kind != "test" or t.id not in live:
            continue
        cp = compare_parts(t.exprs[0])
        if cp is None:
            continue
        l_, op_, r_ = cp
        lv_, rv_ = A.value(t, l_), A.value(t, r_)
        k_ = AV.as_const(rv_)
        if k_ is None:
            k_, lv_ = AV.as_const(lv_), rv_
            op_ = {"Lt": "Gt", "Gt": "Lt", "LtE": "GtE", "GtE": "LtE"}.get(op_, op_)
        if k_ is None or lv_ != A.var(t, lenv):
            continue
        lab_ = {("Eq", 255): "T", ("NotEq", 255): "F"}.get((op_, k_))
        if lab_ is None and len_is_byte:
            lab_ = {("Gt", 254): "T", ("GtE", 255): "T", ("LtE", 254): "F", ("Lt", 255): "F"}.get((op_, k_))
        if lab_ is not None:
            full_gate += cfg.out_edges(t, (lab_,))
    _full_memo: dict = {}

    def full_at(n) -> bool:
        if n.id in _full_memo:
            return _full_memo[n.id]
        res = bool(full_gate)
        if res:
            for s_ in sorted({cfg.entry.id} | A.kills.get(lenv, set())):
                if s_ not in live:
                    continue
                for d, lab, exc in cfg.nodes[s_].succ:
                    if (s_, d, lab, exc) in full_gate or lab == "x":
                        continue
                    if d == n.id or cfg.find_path(d, n.id, avoid_edges=full_gate) is not None:
                        res = False
        _full_memo[n.id] = res
        return res

    def at255(n, v):
        """v with 255 put for the length variable / the length byte at the cursor, where that is known at n"""
        if not full_at(n) or not (isinstance(v, tuple) and v and v[0] == "lin"):
            return v
        out = AV.const(v[2])
        for a_, c_ in v[1]:
            av = AV.atom(a_)
            if av == L_at(n) or (L_at(n) == frag_len(n) and av == frag_len(n)):
                out = AV.add(out, AV.const(255 * c_))
            else:
                out = AV.add(out, AV.scale(av, c_))
        return out

    # ---- every indexed read of the buffer, classified by the value of its index at that point
    type_reads, peek_reads = [], []
    n_reads = 0
    for n in cfg.nodes:
        if n.id not in live:
            continue
        roots = [n.ast] if n.kind == "stmt" and n.ast is not None else [e for e in n.exprs if e is not None]
        for r in roots:
            for x in walk_expr(r):
                if not (isinstance(x, ast.Subscript) and isinstance(x.value, ast.Name) and x.value.id == buf and isinstance(x.ctx, ast.Load)):
                    continue
                if isinstance(x.slice, ast.Slice):
                    continue
                n_reads += 1
                idx = A.value(n, x.slice)
                O = A.var(n, offv)
                # the length variable stands for the length byte when it is in step with the cursor here
                peek = AV.add(AV.add(O, AV.const(2)), L_at(n))
                if idx == O:
                    type_reads.append((n, x))
                elif idx == AV.add(O, AV.const(1)):
                    pass  # the length byte
                elif idx == peek and L_at(n) == frag_len(n) or idx == next_start(n) or (full_at(n) and L_at(n) == frag_len(n) and at255(n, idx) == at255(n, peek)):
                    peek_reads.append((n, x))
                else:
                    judge(False, [idx, O, L_at(n)], "", "read-position",
                          f"tlv_iterator reads {buf}[{AV.show(idx)}] where the cursor is {AV.show(O)} and the length variable is {AV.show(L_at(n))}: not the type byte "
                          f"({buf}[offset]), the length byte ({buf}[offset + 1]) or the next fragment's type byte ({buf}[offset + 2 + length byte])", ctx.loc(f, n))
    ck.require_min(R, "indexed reads of the buffer in tlv_iterator", n_reads, 3)

    # ---- bounds: a read at index X is reached only through the outcome X < len(buf), with X unchanged since
    def guarded(n, x, what: str, key: str) -> None:
        want = A.value(n, x.slice)
        vars_in = {a[1] for a in AV.atoms_of(want) if a[0] == "var"}
        gate = []
        for t in cfg.nodes:
            if t.kind != "test" or t.id not in live:
                continue
            cp = compare_parts(t.exprs[0])
            if cp is None:
                continue
            l, op, r = cp
            # by value: `end = len(buf)` kept in a local is the same bound; the index may stand on either side
            LENV = AV.atom(("len", BUF))
            lv, rv = A.value(t, l), A.value(t, r)
            if rv == LENV and lv == want:
                pass
            elif lv == LENV and rv == want:
                op = {"Lt": "Gt", "Gt": "Lt", "LtE": "GtE", "GtE": "LtE"}.get(op, op)
            else:
                continue
            # the same value at the test and at the read: nothing it is built from changes in between
            if t.id != n.id and any(not A.unchanged(w, t.id, n.id, frozenset({t.id})) for w in vars_in):
                continue
            if op == "Lt":
                gate += cfg.out_edges(t, ("T",))
            elif op == "GtE":
                gate += cfg.out_edges(t, ("F",))
        starts = {cfg.entry.id}
        for w in vars_in:
            starts |= A.kills.get(w, set())
        wit = None
        for s_ in sorted(starts):
            if s_ not in live:
                continue
            for d, lab, exc in cfg.nodes[s_].succ:
                if (s_, d, lab, exc) in gate or lab == "x":
                    continue
                p = [] if d == n.id else cfg.find_path(d, n.id, avoid_edges=gate)
                if p is not None:
                    wit = wit or [(s_, lab, exc)] + p
        ck.check(R, wit is None, f"the {what} is read only under `{AV.show(want)} < len({buf})`", f"{fk}:{key}",
                 f"tlv_iterator reads the {what} {buf}[{AV.show(want)}] without the test that this index is inside the buffer", ctx.loc(f, n),
                 cfg.render_path(wit) if wit else None)

    for n, x in type_reads:
        guarded(n, x, "type byte", "outer-guard")
    for n, x in peek_reads:
        guarded(n, x, "next fragment's type byte (look-ahead)", "peek-bounds")
    ck.require_min(R, "type-byte reads", len(type_reads), 1)
    if type_reads:
        ck.check(R, bool(peek_reads), "fragments of one item are recognised by looking at the next TLV's type byte", f"{fk}:same-type",
                 "tlv_iterator no longer looks at the type byte of the TLV that follows a full fragment: fragments of a long value are not joined", f.loc())
    else:
        ck.unknown(R, "tlv_iterator: the header bytes are not read by subscripts of the buffer in this function (a helper reads them?): not decided", f.loc())

    # ---- the look-ahead byte is compared with the item's type
    for n, x in peek_reads:
        ok = None
        if n.kind == "test":
            cp = compare_parts(n.exprs[0], left=lambda z: z is x)
            if cp is not None and cp[0] is x and cp[1] in ("Eq", "NotEq"):
                ok = A.value(n, cp[2]) in (A.var(n, typv), AV.atom(("var", typv)))
        if ok is None:
            ck.unknown(R, "tlv_iterator: the look-ahead byte is not compared directly in a test: the same-type condition is not decided", ctx.loc(f, n))
        else:
            ck.check(R, ok, "the next TLV continues the item only when its type byte equals the item's type", f"{fk}:same-type-operand",
                     "tlv_iterator compares the look-ahead byte with something other than the item's type", ctx.loc(f, n))

    # ---- definitions of the four variables
    n_moves = 0
    move_nodes = []
    for n in cfg.nodes:
        if n.id not in live or n.kind != "stmt" or n.ast is None:
            continue
        got = A.assigned(n)
        loc = ctx.loc(f, n)
        O = A.var(n, offv)
        if typv in got:
            judge(got[typv] == AV.atom(("read", BUF, O)), [got[typv], O], "type = buffer[offset]", "header-bytes",
                  f"tlv_iterator: the type is read as {AV.show(got[typv])} where the cursor is {AV.show(O)}", loc)
        if lenv in got:
            judge(got[lenv] == frag_len(n), [got[lenv], O], "length = buffer[offset + 1]", "header-bytes",
                  f"tlv_iterator: the length is read as {AV.show(got[lenv])} where the cursor is {AV.show(O)}", loc)
        if valv in got and type(n.ast) is ast.Assign and isinstance(n.ast.value, ast.Name) and n.ast.value.id not in roles:
            # the value variable is made to name another local object.  When that object is created once, outside the item
            # loop, and changed in place inside it, every item yielded afterwards is the SAME object: what the consumer kept of
            # an earlier item changes under its hands (an alias of the iterator's scratch buffer escapes through the yield)
            w = n.ast.value.id
            wdefs = [cfg.nodes[i] for i in A.du.defs if w in A.du.defs[i] and i != cfg.entry.id and A.du.defs[i][w].kind != "aug"]
            mutable = all(type(d.ast) is ast.Assign and (isinstance(d.ast.value, (ast.List, ast.Dict, ast.Set)) or (
                isinstance(d.ast.value, ast.Call) and isinstance(d.ast.value.func, ast.Name) and d.ast.value.func.id in ("bytearray", "list", "dict", "set"))) for d in wdefs)
            loops_y = [fr[1] for y in [m for m in cfg.nodes if any(isinstance(z, ast.Yield) for e in m.exprs if e is not None for z in walk_expr(e))]
                       for fr in y.frames if fr[0] == "loop" and fr[2] == "body"]
            outer = loops_y[0] if loops_y else None
            in_outer = lambda m: outer is not None and any(fr[0] == "loop" and fr[1] is outer and fr[2] == "body" for fr in m.frames)  # noqa: E731
            mut_in = [i for i in A.kills.get(w, set()) if i not in A.du.defs or w not in A.du.defs[i] or A.du.defs[i][w].kind == "aug"]
            if wdefs and mutable and not any(in_outer(d) for d in wdefs) and any(in_outer(cfg.nodes[i]) for i in mut_in):
                ck.violated(R, f"{fk}:value-aliases-scratch",
                            f"tlv_iterator: the yielded value is made to name `{w}`, one object created outside the item loop and changed in place inside it: "
                            "every later item rewrites the value a consumer kept from an earlier one", loc, None,
                            "each yielded value is an object of its own")
                continue
        if valv in got:
            want_lo = AV.add(O, AV.const(2))
            frag_a = AV.atom(("slice", BUF, want_lo, AV.add(want_lo, L_at(n))))
            frag_b = AV.atom(("slice", BUF, want_lo, next_start(n)))
            v = got[valv]
            if isinstance(n.ast, ast.AugAssign):
                v = AV.add(v, A.var(n, valv), -1)  # what is appended
            in_step = L_at(n) == frag_len(n)
            judge(v == frag_b or (v == frag_a and in_step), [v, O, L_at(n)], "value (+)= buffer[offset + 2 : offset + 2 + length byte]", "value-slices",
                  f"tlv_iterator: the fragment taken is {AV.show(v)} where the cursor is {AV.show(O)} and the length variable is {AV.show(L_at(n))}"
                  + ("" if in_step else " (the length variable is not the length byte of the fragment at the cursor here)"), loc)
        if offv in got:
            v = got[offv]
            if AV.as_const(v) == 0:
                ck.holds(R, "the cursor starts at 0", loc)
                continue
            n_moves += 1
            move_nodes.append(n)
            in_step = L_at(n) == frag_len(n)
            ok = v == next_start(n) or (in_step and v == AV.add(AV.add(O, AV.const(2)), L_at(n)))
            ok = ok or (in_step and full_at(n) and at255(n, v) == at255(n, AV.add(AV.add(O, AV.const(2)), L_at(n))))
            judge(ok, [v, O, L_at(n)], "the cursor moves by 2 + length byte of the fragment it is on (to the next fragment / item)", "advance",
                  f"tlv_iterator: the cursor moves to {AV.show(v)} where it is {AV.show(O)} and the length variable is {AV.show(L_at(n))}; the next TLV starts at "
                  "offset + 2 + (length byte of the fragment at offset)", loc)
    ck.require_min(R, "cursor moves in tlv_iterator", n_moves, 2)
    # ---- after an item was yielded the cursor moves before the next header is read
    ynodes = [n for n in cfg.nodes if n.id in live and any(isinstance(x, ast.Yield) for e in n.exprs if e is not None for x in walk_expr(e))]
    mv = {n.id for n in move_nodes}
    for y in ynodes:
        p = None
        for e in ctx.normal_out(cfg, y):
            for tn, _x in type_reads:
                if e[1] in mv:
                    continue
                p = p or ([] if e[1] == tn.id else cfg.find_path(e[1], tn.id, avoid_nodes=mv))
        ck.check(R, p is None, "after each item the cursor moves past its last fragment before the next header is read", f"{fk}:advance-missing",
                 "tlv_iterator can read the next header without having moved the cursor past the item it just yielded", ctx.loc(f, y),
                 cfg.render_path(p) if p else None)


def _t1_array(ctx: Context) -> None:
    ck = ctx.ck

    def src(e):
        return _u(e).replace(" ", "")

    # tlv_array
    a = ctx.func(f"{M}.tlv_array")
    abuf = a.pos_params[0]
    ys = [x for x in walk_own(a.node) if isinstance(x, ast.Yield)]
    simple = {x.targets[0].id: x.value for x in walk_own(a.node) if isinstance(x, ast.Assign) and isinstance(x.targets[0], ast.Name)}
    nassign = {}
    for x in walk_own(a.node):
        if isinstance(x, ast.Assign) and isinstance(x.targets[0], ast.Name):
            nassign[x.targets[0].id] = nassign.get(x.targets[0].id, 0) + 1

    def deref(e):
        # a yielded local that is assigned exactly once stands for its defining expression
        if isinstance(e, ast.Name) and nassign.get(e.id) == 1:
            return simple[e.id]
        return e

    srcs = sorted(src(deref(y.value)) for y in ys if y.value is not None)
    loops = [x for x in walk_own(a.node) if isinstance(x, ast.For)]
    oky = False
    if len(loops) == 1 and isinstance(loops[0].target, ast.Tuple) and len(loops[0].target.elts) == 4:
        o2 = _u(loops[0].target.elts[0])
        def _plus2(v_):
            # <offset> + 2 in any order, the 2 a literal or a named constant
            return isinstance(v_, ast.BinOp) and isinstance(v_.op, ast.Add) and any(
                _u(p_) == o2 and ctx.const(a, q_, None) == 2 and type(ctx.const(a, q_, None)) is int for p_, q_ in ((v_.left, v_.right), (v_.right, v_.left)))

        starts = [x for x in walk_own(a.node) if isinstance(x, ast.Assign) and isinstance(x.targets[0], ast.Name) and _plus2(x.value)]
        if len(starts) == 1:
            sv = starts[0].targets[0].id
            oky = srcs == sorted([f"{abuf}[{sv}:{o2}]", f"{abuf}[{sv}:]"])
    ck.check("C16.T1", oky, "tlv_array: item = buffer[start:offset of the separator], start = that offset + 2, tail = buffer[start:]", f"{ctx.fkey(a)}:slices", f"tlv_array yields {srcs}", a.loc())
    # every separator delimits an item, an empty one included (an all-unset message encodes to zero bytes: it IS the empty
    # slice between two separators): the start moves past a separator only after the slice before it was yielded
    if oky:
        acfg = ctx.cfg(a.qualname)
        adv = [n for n in acfg.nodes if n.kind == "stmt" and n.ast is starts[0]]
        ynodes = [n for n in acfg.nodes if any(isinstance(x, ast.Yield) and x.value is not None and src(deref(x.value)) == f"{abuf}[{sv}:{o2}]" for e in n.exprs if e is not None for x in walk_expr(e))]
        heads = [n for n in acfg.nodes if n.kind == "for" and n.ast is loops[0]]
        if adv and ynodes and heads:
            p = acfg.find_path(heads[0].id, adv[0].id, avoid_nodes=[y.id for y in ynodes])
            ck.check("C16.T1", p is None, "tlv_array: the slice before a separator is yielded whenever the start moves past that separator (empty items included)",
                     f"{ctx.fkey(a)}:empty-item-dropped",
                     "tlv_array can move past a separator without yielding the slice before it: an empty item (an all-unset message, zero bytes) between two "
                     "separators is dropped and the decoded list is shorter than the encoded one", ctx.loc(a, adv[0]), acfg.render_path(p) if p else None)


MANIFEST = {
    "technique": "reflection over the class table (all TLVStruct subclasses), codec-table agreement by the MRO/origin rule, uniqueness and "
    "constant agreement checks, AST/path analysis of the look-ahead iterator",
    "level_text": "Static, every struct and every field: decides that a codec exists in both directions for every declared field type, that "
    "sequence fields have struct elements (the codec cannot carry packed scalars), that decode is a function of the type byte, "
    "that encoder/decoder constants, separators, order and scalar widths agree, the iterator's byte accounting, and that struct-valued "
    "characteristic access decodes the whole stored payload unconditionally. Round-trip "
    "equality as values is not decided; these are necessary conditions whose violation breaks it.",
    "level_note": "Trusted: dataclasses.fields order, struct/int conversions. Known findings: Sequence[u16] linked-service fields (BLE, CoAP) and "
    "the duplicate TLV types 128/129 in Meshcop.",
}

TWIN_FILES = ["aiohomekit/tlv8.py", "aiohomekit/meshcop.py", "aiohomekit/controller/ble/structs.py", "aiohomekit/controller/coap/structs.py", "aiohomekit/model/characteristics/structs.py"]
_F = "aiohomekit/tlv8.py"
VARIANTS = [
    {"name": "separator after every item that differs from the last one (by value, not by position)", "file": "aiohomekit/tlv8.py",
     "old": "    for val in value_iter:\n        result.extend(b\"\\x00\\x00\")\n        result.extend(val.encode())\n",
     "new": "    for val in value_iter:\n        if val != value[0]:\n            result.extend(b\"\\x00\\x00\")\n        result.extend(val.encode())\n",
     "expect": "C16.K4"},
    {"name": "single struct-valued characteristic decoded through tlv_array (None for the all-unset message)",
     "file": "aiohomekit/model/characteristics/characteristic.py",
     "old": "                return struct.decode(new_val)\n",
     "new": "                items = [struct.decode(x) for x in tlv_array(new_val)]\n                return items[0] if items else None\n",
     "expect": "C16.K5"},
    {"name": "float codec removed (pinned defect)", "file": _F, "old": "    float: deserialize_float,\n", "new": "", "expect": "C16.K1"},
    {"name": "bytes not deserialisable", "file": _F, "old": "    bytes: deserialize_bytes,\n", "new": "", "expect": "C16.K1"},
    {"name": "new field of an unsupported type", "file": "aiohomekit/controller/ble/structs.py", "old": "class BleRequest(TLVStruct):\n", "new": "class BleRequest(TLVStruct):\n    extra: int = tlv_entry(0x7E)\n", "expect": "C16.K1"},
    {"name": "sequence of a scalar added", "file": "aiohomekit/model/characteristics/structs.py", "old": "class SessionControl(TLVStruct):\n", "new": "class SessionControl(TLVStruct):\n    ids: Sequence[u8] = tlv_entry(0x7E)\n", "expect": "C16.K2"},
    {"name": "duplicate TLV type in a camera struct", "file": "aiohomekit/model/characteristics/structs.py", "old": "class SessionControl(TLVStruct):\n", "new": "class SessionControl(TLVStruct):\n    shadow: u8 = tlv_entry(1)\n", "expect": "C16.K3"},
    {"name": "chunk 256", "file": _F, "old": "            for offset in range(0, len(encoded), 255):\n                chunk = encoded[offset : offset + 255]", "new": "            for offset in range(0, len(encoded), 256):\n                chunk = encoded[offset : offset + 256]", "expect": "C16.K4"},
    {"name": "slice width differs from the step", "file": _F, "old": "                chunk = encoded[offset : offset + 255]", "new": "                chunk = encoded[offset : offset + 254]", "expect": "C16.K4"},
    {"name": "separator 00 01", "file": _F, "old": "        result.extend(b\"\\x00\\x00\")", "new": "        result.extend(b\"\\x00\\x01\")", "expect": "C16.K4"},
    {"name": "u16 serialised big-endian", "file": _F, "old": "    return struct.pack(\"H\", value)", "new": "    return struct.pack(\">H\", value)", "expect": "C16.K4"},
    {"name": "u32 deserialised big-endian", "file": _F, "old": "def deserialize_u32(value_type: type, value: bytes) -> int:\n    return int.from_bytes(value, \"little\")", "new": "def deserialize_u32(value_type: type, value: bytes) -> int:\n    return int.from_bytes(value, \"big\")", "expect": "C16.K4"},
    {"name": "fields sorted by name", "file": _F, "old": "        for struct_field in fields(self):", "new": "        for struct_field in sorted(fields(self), key=lambda f: f.name):", "expect": "C16.K4"},
    {"name": "continuation trigger 254", "file": _F, "old": "        while length == 255:", "new": "        while length == 254:", "expect": "C16.K4"},
    {"name": "peek one byte short", "file": _F, "old": "            peek_offset = offset + 2 + length", "new": "            peek_offset = offset + 1 + length", "expect": "C16.T1"},
    {"name": "bounds test removed", "file": _F, "old": "            if peek_offset >= len(encoded_struct):", "new": "            if False:", "expect": "C16.T1"},
    {"name": "advance without the header", "file": _F, "old": "        offset += 2 + length", "new": "        offset += length", "expect": "C16.T1"},
    {"name": "array item start off by one", "file": _F, "old": "            start = offset + 2", "new": "            start = offset + 1", "expect": "C16.T1"},
]
