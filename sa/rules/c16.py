"""C16  Structured TLV8 messages round-trip for every defined message type."""

from __future__ import annotations

import ast
import struct as _struct

from ..engine.context import Context, compare_parts
from ..engine.loader import dotted, walk_expr, walk_own
from ..engine.terms import contains, show, strip_sites, subterms

PROPERTY = "C16"
EXPLANATION = (
    "Static analysis of the structured TLV8 layer over every TLVStruct subclass found by reflection on the class table: "
    "(K1) every annotated tlv_entry field type resolves - by the same MRO/origin rule find_serializer uses - to a key of "
    "SERIALIZERS and of DESERIALIZERS, and the two tables have the same key set; (K2) the sequence codec is a TLV-array "
    "codec (it calls .encode() on items and splits on separator items), so the element type of every Sequence[T] field "
    "must be a TLVStruct; (K3) TLV types are unique within each struct (decode is a function of the type byte); (K4) "
    "constants agree: encoder chunk step = slice width = 255 = the decoder's continuation trigger, the separator emitted "
    "between sequence items (00 00) is the splitter's separator and no sequence element struct has a field of that type, "
    "fields are emitted in declaration order, scalar widths and byte orders of serialiser/deserialiser pairs agree with the "
    "type names; (T1) look-ahead byte accounting of tlv_iterator / tlv_array (peek offset, bounds test before the read, "
    "merged slice, advance); (K5) struct-valued characteristic access returns struct.decode of the whole stored payload "
    "(or of every item tlv_array yields), unconditionally. Quantifier: every struct and every field row - not sampled messages."
)
VALUE_GETTER = "aiohomekit.model.characteristics.characteristic.Characteristic.value"


def _k5(ctx: Context) -> None:
    """Characteristic.value for a tlv8 characteristic with a registered struct: the single-message form returns
    struct.decode(<the whole base64-decoded payload>) - unconditionally, an all-unset message encodes to zero bytes and
    must decode to the equal all-unset message, not to None; the array form returns struct.decode(item) for every item
    tlv_array splits the payload into."""
    ck = ctx.ck
    T = ctx.terms
    f = ctx.func(VALUE_GETTER)
    cfg = ctx.cfg(VALUE_GETTER)
    stored = ("attr", ("param", f.pos_params[0]), "_value")
    payload = ("call", ("glob", "base64.b64decode"), (stored,), ())

    def is_struct(t) -> bool:
        return t[0] == "call" and t[1][0] == "attr" and t[1][2] == "get" and t[2] == (("const", "struct"),)

    single = arrays = 0
    for n in cfg.nodes:
        if n.kind != "return" or not n.exprs or n.copy_of:
            continue
        t = strip_sites(T.of(cfg, n, n.exprs[0]))
        if not contains(t, is_struct):
            continue
        ok_single = t[0] == "call" and t[1][0] == "attr" and t[1][2] == "decode" and is_struct(t[1][1]) and t[2] == (payload,) and not t[3]
        ok_array = False
        if t[0] == "comp" and t[1] == "ListComp" and len(t[3]) == 1:
            elt, (var, it, conds) = t[2], t[3][0]
            ok_array = (elt[0] == "call" and elt[1][0] == "attr" and elt[1][2] == "decode" and is_struct(elt[1][1]) and elt[2] == (var,)
                        and it == ("call", ("glob", f"{M}.tlv_array"), (payload,), ()) and not conds)
        single += ok_single
        arrays += ok_array
        ck.check("C16.K5", ok_single or ok_array,
                 "Characteristic.value: a struct-valued result is struct.decode(whole payload) or [struct.decode(item) for item in tlv_array(payload)]",
                 f"{ctx.fkey(f)}:struct-result:{'single' if not t[0] == 'comp' else 'array'}",
                 f"Characteristic.value returns {show(t, 160)} for a struct-valued characteristic: the message is not simply the decode of the whole "
                 "stored payload (an all-unset message is zero bytes and must still decode to the equal message)", ctx.loc(f, n))
    ck.check("C16.K5", single >= 1 and arrays >= 1, "Characteristic.value has both forms (single message, bare array)", f"{ctx.fkey(f)}:both-forms",
             f"Characteristic.value: single-message returns {single}, array returns {arrays}", f.loc())


TRUSTED = ["dataclasses.fields() returns fields in declaration order", "struct.pack/unpack and int.from_bytes/to_bytes"]

M = "aiohomekit.tlv8"
TS = f"{M}.TLVStruct"
SEQ = "collections.abc.Sequence"


def _u(e) -> str:
    return " ".join(ast.unparse(e).split())


def structs(ctx: Context):
    out = []
    for c in ctx.prog.classes.values():
        if c.module.name == "aiohomekit.testing":
            continue
        if TS in ctx.prog.mro(c.qualname)[1:]:
            out.append(c)
    return sorted(out, key=lambda c: c.qualname)


def fields_of(ctx: Context, c):
    """[(name, annotation ast, tlv type const, node)] of the class's own tlv_entry fields (declaration order)"""
    out = []
    for st in c.node.body:
        if isinstance(st, ast.AnnAssign) and isinstance(st.value, ast.Call) and (ctx.prog.resolve_dotted(c.module, dotted(st.value.func) or "") == f"{M}.tlv_entry"):
            t = ctx.prog.try_const(st.value.args[0], c.module, c, None) if st.value.args else None
            for kw in st.value.keywords:
                if kw.arg == "type":
                    t = ctx.prog.try_const(kw.value, c.module, c, None)
            out.append((st.target.id, st.annotation, t, st))
    return out


def all_fields(ctx: Context, c):
    out = []
    for cn in reversed(ctx.prog.mro(c.qualname)):
        cc = ctx.prog.classes.get(cn)
        if cc is not None and cn != TS:
            out += fields_of(ctx, cc)
    return out


def table_keys(ctx: Context, name: str):
    m = ctx.prog.module(M)
    vals = m.assigns.get(name, [])
    if len(vals) != 1 or not isinstance(vals[0], ast.Dict):
        return None
    out = {}
    for k, v in zip(vals[0].keys, vals[0].values):
        d = dotted(k) if k is not None else None
        if d is None:
            return None
        out[ctx.prog.resolve_dotted(m, d)] = ctx.prog.resolve_dotted(m, dotted(v) or "")
    return out


def type_key(ctx: Context, c, ann: ast.expr, keys) -> tuple[str | None, str]:
    """(table key chosen by the MRO/origin rule or None, description of the type)"""
    if isinstance(ann, ast.Constant) and isinstance(ann.value, str):
        try:
            ann = ast.parse(ann.value, mode="eval").body
        except SyntaxError:
            return None, repr(ann.value)
    if isinstance(ann, ast.Subscript):
        base = ctx.prog.resolve_dotted(c.module, dotted(ann.value) or "")
        origin = {"typing.Sequence": SEQ, "collections.abc.Sequence": SEQ, "typing.List": "list", "list": "list"}.get(base, base)
        return (origin if origin in keys else None), _u(ann)
    d = dotted(ann)
    if d is None:
        return None, _u(ann)
    r = ctx.prog.resolve_dotted(c.module, d)
    for cn in ctx.prog.mro(r):
        if cn in keys:
            return cn, r
    return None, r


def run(ctx: Context) -> None:
    ck = ctx.ck
    ss = structs(ctx)
    ck.stats["c16_structs"] = [c.qualname for c in ss]
    ser = table_keys(ctx, "SERIALIZERS")
    des = table_keys(ctx, "DESERIALIZERS")
    if ser is None or des is None:
        ck.unknown("C16.K1", "SERIALIZERS / DESERIALIZERS are not literal dicts keyed by names", "aiohomekit/tlv8.py:1")
        return
    if ck.rule("C16.K1", "every field type has a codec in both tables"):
        _k1(ctx, ss, ser, des)
    if ck.rule("C16.K2", "sequence element types are structs"):
        _k2(ctx, ss)
    if ck.rule("C16.K3", "TLV types unique within each struct"):
        _k3(ctx, ss)
    if ck.rule("C16.K4", "constants, order and scalar codecs agree"):
        _k4(ctx, ss, ser, des)
    if ck.rule("C16.K5", "struct-valued characteristic access decodes the whole payload"):
        _k5(ctx)
    if ck.rule("C16.T1", "look-ahead byte accounting"):
        _t1(ctx)


def _k1(ctx: Context, ss, ser, des) -> None:
    ck = ctx.ck
    ck.check("C16.K1", set(ser) == set(des), f"SERIALIZERS and DESERIALIZERS have the same {len(ser)} keys", f"{M}:table-keys",
             f"codec tables differ: only serialisable {sorted(set(ser) - set(des))}, only deserialisable {sorted(set(des) - set(ser))}", "aiohomekit/tlv8.py:1")
    keys = set(ser) & set(des)
    n = 0
    for c in ss:
        for name, ann, t, st in fields_of(ctx, c):
            n += 1
            k_ser, desc = type_key(ctx, c, ann, set(ser))
            k_des, _ = type_key(ctx, c, ann, set(des))
            ck.check(
                "C16.K1",
                k_ser is not None and k_des is not None,
                f"{c.name}.{name}: {_u(ann)} -> codec {str(k_ser).rsplit('.', 1)[-1]}",
                f"{c.qualname}:{name}:no-codec",
                f"{c.name}.{name} is declared as {_u(ann)} ({desc}), which has no entry in "
                f"{'SERIALIZERS' if k_ser is None else ''}{' / ' if k_ser is None and k_des is None else ''}{'DESERIALIZERS' if k_des is None else ''}: "
                "encoding or decoding a message with this field raises",
                f"{c.module.relpath}:{st.lineno}",
            )
    ck.require_min("C16.K1", "tlv_entry fields over all structs", n, 50)
    ck.require_min("C16.K1", "TLVStruct subclasses", len(ss), 10)
    # every field is annotated + tlv_entry (a dataclass field without tlv metadata would make encode() raise KeyError)
    for c in ss:
        for st in c.node.body:
            if isinstance(st, ast.AnnAssign) and not (isinstance(st.value, ast.Call) and (dotted(st.value.func) or "").endswith("tlv_entry")) and not _u(st.annotation).startswith("ClassVar"):
                is_field_false = isinstance(st.value, ast.Call) and any(kw.arg == "init" and isinstance(kw.value, ast.Constant) and kw.value.value is False for kw in st.value.keywords)
                ck.check("C16.K1", is_field_false, f"{c.name}.{st.target.id}: non-TLV field is excluded from init", f"{c.qualname}:{st.target.id}:no-tlv-metadata",
                         f"{c.name}.{st.target.id} is a dataclass field without tlv_entry metadata: encode() raises KeyError for it", f"{c.module.relpath}:{st.lineno}")


def _k2(ctx: Context, ss) -> None:
    ck = ctx.ck
    # the sequence codec really is an array-of-struct codec?
    sf = ctx.func(f"{M}.serialize_typing_sequence")
    enc_calls = [x for x in walk_own(sf.node) if isinstance(x, ast.Call) and isinstance(x.func, ast.Attribute) and x.func.attr == "encode"]
    df = ctx.func(f"{M}.deserialize_typing_sequence")
    uses_array = any(isinstance(x, ast.Call) and ctx.resolve_name(df, x.func) == f"{M}.tlv_array" for x in walk_own(df.node))
    struct_only = bool(enc_calls) and uses_array
    ck.stats["c16_sequence_codec_is_struct_array"] = struct_only
    n = 0
    for c in ss:
        for name, ann, t, st in fields_of(ctx, c):
            if not isinstance(ann, ast.Subscript):
                continue
            n += 1
            el = ann.slice
            d = dotted(el)
            r = ctx.prog.resolve_dotted(c.module, d) if d else _u(el)
            is_struct = TS in ctx.prog.mro(r)
            ok = is_struct or not struct_only
            ck.check(
                "C16.K2",
                ok,
                f"{c.name}.{name}: Sequence[{_u(el)}] has struct elements",
                f"{c.qualname}:{name}:sequence-of-scalar",
                f"{c.name}.{name} is declared Sequence[{_u(el)}], but the sequence codec encodes items with .encode() and splits the value on "
                "zero-length separator TLVs: a packed list of scalars (e.g. the 16-bit instance ids of linked services, `01 00 02 00`) is decoded "
                "as ONE little-endian integer (131073) and an id whose low byte is 0 (8192 = `00 20`) is read as a separator; encoding raises AttributeError",
                f"{c.module.relpath}:{st.lineno}",
            )
    ck.require_min("C16.K2", "Sequence[...] fields", n, 4)


def _k3(ctx: Context, ss) -> None:
    ck = ctx.ck
    for c in ss:
        seen = {}
        fl = all_fields(ctx, c)
        dups = {}
        for name, ann, t, st in fl:
            if t is None:
                ck.unknown("C16.K3", f"{c.name}.{name}: TLV type is not a constant", f"{c.module.relpath}:{st.lineno}")
                continue
            if t in seen:
                dups.setdefault(t, [seen[t]]).append(name)
            seen.setdefault(t, name)
        if not dups:
            ck.holds("C16.K3", f"{c.name}: {len(fl)} fields, TLV types unique", f"{c.module.relpath}:{c.node.lineno}")
        for t, names in sorted(dups.items()):
            ck.violated(
                "C16.K3",
                f"{c.qualname}:duplicate-type:{t}",
                f"{c.name} declares TLV type {t} for several fields ({', '.join(names)}): decode() can fill only one of them (the last declared), so "
                f"{c.name}({names[0]}=b'x') does not round-trip",
                f"{c.module.relpath}:{c.node.lineno}",
                None,
                f"{c.name}: TLV types unique",
            )


def _k4(ctx: Context, ss, ser, des) -> None:
    ck = ctx.ck
    T = ctx.terms
    # encoder: range(0, len(encoded), K), slice [offset : offset + K], length byte pack("B", len(chunk))
    ef = ctx.func(f"{TS}.encode")
    ecfg = ctx.cfg(ef.qualname)
    K_step = K_slice = None
    for n in ecfg.nodes:
        if n.kind == "for_iter" and isinstance(n.ast.iter, ast.Call) and isinstance(n.ast.iter.func, ast.Name) and n.ast.iter.func.id == "range" and len(n.ast.iter.args) == 3:
            K_step = ctx.const(ef, n.ast.iter.args[2], None)
            off = n.ast.target.id if isinstance(n.ast.target, ast.Name) else None
            for x in ast.walk(n.ast):
                if isinstance(x, ast.Subscript) and isinstance(x.slice, ast.Slice) and x.slice.lower is not None and x.slice.upper is not None and _u(x.slice.lower) == off:
                    up = x.slice.upper
                    if isinstance(up, ast.BinOp) and isinstance(up.op, ast.Add) and _u(up.left) == off:
                        K_slice = ctx.const(ef, up.right, None)
    ck.check("C16.K4", K_step == K_slice == 255, "encoder: chunk step = slice width = 255", f"{ctx.fkey(ef)}:chunk", f"TLVStruct.encode chunks by step {K_step} / slice width {K_slice} (TLV8: 255)", ef.loc())
    # decoder: continuation trigger length == 255
    itf = ctx.func(f"{M}.tlv_iterator")
    icfg = ctx.cfg(itf.qualname)
    trig = None
    for n in icfg.nodes:
        if n.kind == "test":
            cp = compare_parts(n.exprs[0])
            if cp and cp[1] == "Eq" and isinstance(ctx.const(itf, cp[2], None), int) and any(x[0] == "loop" for x in n.frames) and n.ast is not None:
                # the inner while's condition
                for fr in n.frames:
                    pass
                if any(isinstance(w, ast.While) and any(n.exprs[0] is y for y in ast.walk(w.test)) for w in ast.walk(itf.node)):
                    trig = ctx.const(itf, cp[2], None)
    ck.check("C16.K4", trig == 255 == K_step, "decoder: a value continues exactly after a 255-byte fragment", f"{ctx.fkey(itf)}:continuation", f"tlv_iterator continues a value when length == {trig}; the encoder fragments at {K_step}", itf.loc())
    # declaration order: for f in fields(self)
    order = any(n.kind == "for_iter" and isinstance(n.ast.iter, ast.Call) and ctx.resolve_name(ef, n.ast.iter.func) == "dataclasses.fields" and _u(n.ast.iter.args[0]) == "self" for n in ecfg.nodes)
    ck.check("C16.K4", order, "fields are emitted in declaration order (dataclasses.fields(self))", f"{ctx.fkey(ef)}:order", "TLVStruct.encode no longer iterates dataclasses.fields(self)", ef.loc())
    nosort = not any(isinstance(x, ast.Call) and isinstance(x.func, ast.Name) and x.func.id in ("sorted", "reversed") for x in walk_own(ef.node))
    ck.check("C16.K4", nosort, "the field order is not permuted", f"{ctx.fkey(ef)}:order-permuted", "TLVStruct.encode sorts/reverses the fields", ef.loc())
    # header: type byte then one length byte = len(chunk)
    # separator
    sf = ctx.func(f"{M}.serialize_typing_sequence")
    seps = {ctx.const(sf, x.args[0], None) for x in walk_own(sf.node) if isinstance(x, ast.Call) and isinstance(x.func, ast.Attribute) and x.func.attr == "extend" and x.args and isinstance(ctx.const(sf, x.args[0], None), bytes)}
    # ... or `<separator>.join(<encoded items>)`: exactly one separator between neighbours, none before / after
    seps |= {ctx.const(sf, x.func.value, None) for x in walk_own(sf.node) if isinstance(x, ast.Call) and isinstance(x.func, ast.Attribute) and x.func.attr == "join" and len(x.args) == 1
             and isinstance(ctx.const(sf, x.func.value, None), bytes)}
    af = ctx.func(f"{M}.tlv_array")
    sep_default = ctx.const(af, af.node.args.defaults[-1], None) if af.node.args.defaults else None
    ck.check("C16.K4", seps == {bytes([sep_default or 0, 0])} and sep_default == 0, "sequence separator emitted (00 00) = separator the splitter looks for (type 0, length 0)", f"{M}:separator",
             f"serialize_typing_sequence emits {sorted(seps)} but tlv_array splits on type {sep_default}", sf.loc())
    df = ctx.func(f"{M}.deserialize_typing_sequence")
    explicit = [x for x in walk_own(df.node) if isinstance(x, ast.Call) and ctx.resolve_name(df, x.func) == f"{M}.tlv_array" and (len(x.args) > 1 or x.keywords)]
    ck.check("C16.K4", not explicit, "the sequence decoder uses the default separator", f"{ctx.fkey(df)}:separator-arg", "deserialize_typing_sequence passes its own separator", df.loc())
    # no sequence element struct has a field of the separator type
    elems = set()
    for c in ss:
        for name, ann, t, st in fields_of(ctx, c):
            if isinstance(ann, ast.Subscript):
                d = dotted(ann.slice)
                r = ctx.prog.resolve_dotted(c.module, d) if d else None
                if r in ctx.prog.classes and TS in ctx.prog.mro(r):
                    elems.add(r)
    for r in sorted(elems):
        c = ctx.prog.classes[r]
        zero = [name for name, ann, t, st in all_fields(ctx, c) if t == 0]
        ck.check("C16.K4", not zero, f"{c.name} (sequence element) has no field of TLV type 0", f"{r}:separator-typed-field",
                 f"{c.name} is used as a sequence element but its field {zero} has TLV type 0, which the splitter takes for the item separator when empty", f"{c.module.relpath}:{c.node.lineno}")
    ck.require_min("C16.K4", "struct types used as sequence elements", len(elems), 3)
    # scalar codecs
    widths = {"u8": ("B", 1, "little"), "u16": ("H", 2, "little"), "u32": ("I", 4, "little"), "u64": ("Q", 8, "little"), "bu16": ("H", 2, "big")}
    for tname, (code, width, order_) in widths.items():
        key = f"{M}.{tname}"
        sfn, dfn = ser.get(key), des.get(key)
        if sfn not in ctx.prog.functions or dfn not in ctx.prog.functions:
            ck.unknown("C16.K4", f"{tname}: codec functions not found", "aiohomekit/tlv8.py:1")
            continue
        s_f, d_f = ctx.func(sfn), ctx.func(dfn)
        fmt = None
        for x in walk_own(s_f.node):
            if isinstance(x, ast.Call) and ctx.resolve_name(s_f, x.func) == "struct.pack" and x.args:
                fmt = ctx.const(s_f, x.args[0], None)
        ok_s = False
        if isinstance(fmt, str):
            body = fmt.lstrip("<>=!@")
            prefix = fmt[: len(fmt) - len(body)]
            s_order = "big" if prefix in (">", "!") else "little"  # native order is little-endian on every platform HomeKit controllers run on
            ok_s = body == code and _struct.calcsize("<" + body) == width and s_order == order_
        d_order = None
        for x in walk_own(d_f.node):
            if isinstance(x, ast.Call) and isinstance(x.func, ast.Attribute) and x.func.attr == "from_bytes" and len(x.args) == 2:
                d_order = ctx.const(d_f, x.args[1], None)
        ck.check("C16.K4", ok_s and d_order == order_, f"{tname}: {width} bytes {order_}-endian in both directions", f"{M}:scalar:{tname}",
                 f"{tname}: serialiser packs {fmt!r}, deserialiser reads {d_order!r}-endian; expected {width} bytes {order_}-endian", s_f.loc())
    # every scalar deserialiser is the plain conversion and nothing else: one return, int.from_bytes(<the value>, order)
    for tname, order_ in (("u8", "little"), ("u16", "little"), ("u32", "little"), ("u64", "little"), ("u128", "little"), ("bu16", "big")):
        dfn = des.get(f"{M}.{tname}")
        if dfn not in ctx.prog.functions:
            continue
        d_f = ctx.func(dfn)
        dcfg = ctx.cfg(dfn)
        rets = [n for n in dcfg.nodes if n.kind == "return" and n.exprs]
        vp = d_f.pos_params[1] if len(d_f.pos_params) > 1 else None
        want = ("call", ("attr", ("glob", "int"), "from_bytes"), (("param", vp), ("const", order_)), ())
        got = [strip_sites(T.of(dcfg, n, n.exprs[0])) for n in rets]
        branches = [n for n in dcfg.nodes if n.kind in ("test", "for", "loop_head")]
        ck.check("C16.K4", got == [want] and not branches, f"{tname}: the deserialiser is exactly int.from_bytes(value, '{order_}')", f"{M}:scalar-deserialiser:{tname}",
                 f"{d_f.name} returns {[show(g, 80) for g in got]}{' under conditions' if branches else ''}: the decoded value is not always the number that was encoded "
                 "(decode(encode(m)) != m for the values the extra logic rewrites)", d_f.loc())
    # u128
    s_f = ctx.func(ser.get(f"{M}.u128", "")) if ser.get(f"{M}.u128") in ctx.prog.functions else None
    if s_f is not None:
        kws = {}
        for x in walk_own(s_f.node):
            if isinstance(x, ast.Call) and isinstance(x.func, ast.Attribute) and x.func.attr == "to_bytes":
                kws = {k.arg: ctx.const(s_f, k.value, None) for k in x.keywords}
                for i, a in enumerate(x.args):
                    kws[["length", "byteorder"][i]] = ctx.const(s_f, a, None)
        ck.check("C16.K4", kws.get("length") == 16 and kws.get("byteorder") == "little", "u128: 16 bytes little-endian", f"{M}:scalar:u128", f"u128 serialiser uses {kws}", s_f.loc())


def _t1(ctx: Context) -> None:
    ck = ctx.ck
    f = ctx.func(f"{M}.tlv_iterator")
    cfg = ctx.cfg(f.qualname)
    T = ctx.terms
    buf = f.pos_params[0]
    # collect by data flow
    asg = {}
    for n in cfg.nodes:
        if n.kind == "stmt" and isinstance(n.ast, (ast.Assign, ast.AugAssign)):
            tg = n.ast.targets[0] if isinstance(n.ast, ast.Assign) else n.ast.target
            if isinstance(tg, ast.Name):
                asg.setdefault(tg.id, []).append(n)
    # peek = offset + 2 + length
    peeks = [n for n in cfg.nodes if n.kind == "stmt" and isinstance(n.ast, ast.Assign) and isinstance(n.ast.value, ast.BinOp) and any(isinstance(x, ast.Name) and x.id == "length" for x in ast.walk(n.ast.value)) is not None
             and isinstance(n.ast.targets[0], ast.Name) and any(fr[0] == "loop" for fr in n.frames) and sum(1 for fr in n.frames if fr[0] == "loop") == 2]
    inner = [n for n in peeks if isinstance(n.ast.value, ast.BinOp)]
    offv = lenv = None
    # names of offset and length from the yield
    ys = [x for x in walk_own(f.node) if isinstance(x, ast.Yield)]
    if len(ys) != 1 or not isinstance(ys[0].value, ast.Tuple) or len(ys[0].value.elts) != 4:
        ck.unknown("C16.T1", "tlv_iterator: yield (offset, type, length, value) not found", f.loc())
        return
    offv, typv, lenv, valv = [e.id if isinstance(e, ast.Name) else None for e in ys[0].value.elts]
    if None in (offv, typv, lenv, valv):
        ck.unknown("C16.T1", "tlv_iterator: yield elements are not simple names", f.loc())
        return

    def src(e):
        return _u(e).replace(" ", "")

    peek_nodes = [n for n in asg.get("peek_offset", []) + [m for k, v in asg.items() for m in v if k not in (offv, typv, lenv, valv)] if src(n.ast.value) in (f"{offv}+2+{lenv}", f"{offv}+{lenv}+2", f"2+{offv}+{lenv}")]
    peek_nodes = list({n.id: n for n in peek_nodes}.values())
    if len(peek_nodes) != 1:
        # a wrong look-ahead offset cannot be told from a differently organised iterator here (the accounting below is written
        # for the `peek = offset + 2 + length` temporary): not decided rather than reported
        wrong = [n for n in asg.get("peek_offset", []) if n not in peek_nodes]
        if wrong:
            ck.violated("C16.T1", f"{ctx.fkey(f)}:peek-offset", f"tlv_iterator: the look-ahead offset is `{src(wrong[0].ast.value)}`, not offset + 2 + length", ctx.loc(f, wrong[0]))
        else:
            ck.unknown("C16.T1", "tlv_iterator: no look-ahead temporary `offset + 2 + length` found: this organisation of the iterator is not decided", f.loc())
        return
    ck.holds("C16.T1", "look-ahead offset = offset + 2 + length", ctx.loc(f, peek_nodes[0]))
    pk = peek_nodes[0]
    pkv = pk.ast.targets[0].id
    # bounds test before the read buf[peek]
    reads = [n for n in cfg.nodes if any(isinstance(x, ast.Subscript) and _u(x.value) == buf and _u(x.slice) == pkv for e in n.exprs if e is not None for x in walk_expr(e))]
    gate = []
    for n in cfg.nodes:
        if n.kind == "test":
            cp = compare_parts(n.exprs[0], left=lambda x: _u(x) == pkv)
            if cp and _u(cp[0]) == pkv and src(cp[2]) == f"len({buf})":
                if cp[1] == "GtE":
                    gate += cfg.out_edges(n, ("F",))
                elif cp[1] == "Lt":
                    gate += cfg.out_edges(n, ("T",))
    for r in reads:
        p = cfg.find_path(pk.id, r.id, avoid_edges=gate)
        ck.check("C16.T1", p is None, "the look-ahead read is bounds-tested (peek < len) first", f"{ctx.fkey(f)}:peek-bounds", "tlv_iterator reads the look-ahead byte without testing peek_offset < len(buffer)", ctx.loc(f, r))
    ck.require_min("C16.T1", "look-ahead reads", len(reads), 1)
    # same-type test
    same = any(n.kind == "test" and (cp := compare_parts(n.exprs[0], left=lambda x: src(x) == f"{buf}[{pkv}]")) and cp[1] in ("NotEq", "Eq") and src(cp[0]) == f"{buf}[{pkv}]" and _u(cp[2]) == typv for n in cfg.nodes)
    ck.check("C16.T1", same, "fragments are merged only when the next TLV has the same type", f"{ctx.fkey(f)}:same-type", "tlv_iterator no longer compares the next type byte with the current type", f.loc())
    # merge: offset = peek; length = buf[offset+1]; value += buf[offset+2:][:length]
    merges = [n for n in asg.get(valv, []) if isinstance(n.ast, ast.AugAssign)]
    okm = len(merges) == 1 and src(merges[0].ast.value) in (f"{buf}[{offv}+2:][:{lenv}]", f"{buf}[{offv}+2:{offv}+2+{lenv}]")
    first = [n for n in asg.get(valv, []) if isinstance(n.ast, ast.Assign)]
    okf = len(first) == 1 and src(first[0].ast.value) in (f"{buf}[{offv}+2:][:{lenv}]", f"{buf}[{offv}+2:{offv}+2+{lenv}]")
    ck.check("C16.T1", okm and okf, "value = buffer[offset+2:][:length], merged fragment likewise", f"{ctx.fkey(f)}:value-slices",
             f"tlv_iterator: value slices are {[src(n.ast.value) for n in first + merges]}", f.loc())
    lens = [n for n in asg.get(lenv, [])]
    okl = lens and all(src(n.ast.value) == f"{buf}[{offv}+1]" for n in lens)
    typs = [n for n in asg.get(typv, [])]
    okt = typs and all(src(n.ast.value) == f"{buf}[{offv}]" for n in typs)
    ck.check("C16.T1", bool(okl and okt), "type = buffer[offset], length = buffer[offset+1]", f"{ctx.fkey(f)}:header-bytes", "tlv_iterator: header byte positions changed", f.loc())
    # in the merge: offset moves to peek before length/value are re-read
    moves = [n for n in asg.get(offv, []) if isinstance(n.ast, ast.Assign) and _u(n.ast.value) == pkv]
    okmv = len(moves) == 1 and merges and cfg.find_path(pk.id, merges[0].id, avoid_nodes=[moves[0].id]) is None
    relen = [n for n in lens if any(fr[0] == "loop" for fr in n.frames) and sum(1 for fr in n.frames if fr[0] == "loop") == 2]
    okre = len(relen) == 1 and merges and moves and cfg.find_path(moves[0].id, merges[0].id, avoid_nodes=[relen[0].id]) is None
    ck.check("C16.T1", bool(okmv and okre), "on a merge: offset := peek, then length is re-read, then the fragment is appended", f"{ctx.fkey(f)}:merge-order", "tlv_iterator: merge steps are out of order", f.loc())
    # advance after the yield
    adv = [n for n in asg.get(offv, []) if isinstance(n.ast, ast.AugAssign) and isinstance(n.ast.op, ast.Add)]
    oka = len(adv) == 1 and src(adv[0].ast.value) in (f"2+{lenv}", f"{lenv}+2")
    ynode = [n for n in cfg.nodes if any(isinstance(x, ast.Yield) for e in n.exprs if e is not None for x in walk_expr(e))]
    if oka and ynode:
        oka = cfg.find_path(ynode[0].id, ynode[0].id, avoid_nodes=[adv[0].id]) is None or True
        p = None
        for e in ctx.normal_out(cfg, ynode[0]):
            if e[1] == adv[0].id:
                continue
            p = p or cfg.find_path(e[1], ynode[0].id, avoid_nodes=[adv[0].id])
        oka = p is None
    ck.check("C16.T1", bool(oka), "after each item the offset advances by 2 + length of the last fragment", f"{ctx.fkey(f)}:advance", "tlv_iterator: the advance after an item is not offset += 2 + length", f.loc())
    # outer guard
    outer = any(n.kind == "test" and (cp := compare_parts(n.exprs[0], left=lambda x: _u(x) == offv)) and cp[1] == "Lt" and _u(cp[0]) == offv and src(cp[2]) == f"len({buf})" for n in cfg.nodes)
    ck.check("C16.T1", outer, "items are read while offset < len(buffer)", f"{ctx.fkey(f)}:outer-guard", "tlv_iterator: the outer loop guard changed", f.loc())
    # tlv_array
    a = ctx.func(f"{M}.tlv_array")
    abuf = a.pos_params[0]
    ys = [x for x in walk_own(a.node) if isinstance(x, ast.Yield)]
    simple = {x.targets[0].id: x.value for x in walk_own(a.node) if isinstance(x, ast.Assign) and isinstance(x.targets[0], ast.Name)}
    nassign = {}
    for x in walk_own(a.node):
        if isinstance(x, ast.Assign) and isinstance(x.targets[0], ast.Name):
            nassign[x.targets[0].id] = nassign.get(x.targets[0].id, 0) + 1

    def deref(e):
        # a yielded local that is assigned exactly once stands for its defining expression
        if isinstance(e, ast.Name) and nassign.get(e.id) == 1:
            return simple[e.id]
        return e

    srcs = sorted(src(deref(y.value)) for y in ys if y.value is not None)
    loops = [x for x in walk_own(a.node) if isinstance(x, ast.For)]
    oky = False
    if len(loops) == 1 and isinstance(loops[0].target, ast.Tuple) and len(loops[0].target.elts) == 4:
        o2 = _u(loops[0].target.elts[0])
        starts = [x for x in walk_own(a.node) if isinstance(x, ast.Assign) and isinstance(x.targets[0], ast.Name) and src(x.value) in (f"{o2}+2", f"2+{o2}")]
        if len(starts) == 1:
            sv = starts[0].targets[0].id
            oky = srcs == sorted([f"{abuf}[{sv}:{o2}]", f"{abuf}[{sv}:]"])
    ck.check("C16.T1", oky, "tlv_array: item = buffer[start:offset of the separator], start = that offset + 2, tail = buffer[start:]", f"{ctx.fkey(a)}:slices", f"tlv_array yields {srcs}", a.loc())
    # every separator delimits an item, an empty one included (an all-unset message encodes to zero bytes: it IS the empty
    # slice between two separators): the start moves past a separator only after the slice before it was yielded
    if oky:
        acfg = ctx.cfg(a.qualname)
        adv = [n for n in acfg.nodes if n.kind == "stmt" and n.ast is starts[0]]
        ynodes = [n for n in acfg.nodes if any(isinstance(x, ast.Yield) and x.value is not None and src(deref(x.value)) == f"{abuf}[{sv}:{o2}]" for e in n.exprs if e is not None for x in walk_expr(e))]
        heads = [n for n in acfg.nodes if n.kind == "for" and n.ast is loops[0]]
        if adv and ynodes and heads:
            p = acfg.find_path(heads[0].id, adv[0].id, avoid_nodes=[y.id for y in ynodes])
            ck.check("C16.T1", p is None, "tlv_array: the slice before a separator is yielded whenever the start moves past that separator (empty items included)",
                     f"{ctx.fkey(a)}:empty-item-dropped",
                     "tlv_array can move past a separator without yielding the slice before it: an empty item (an all-unset message, zero bytes) between two "
                     "separators is dropped and the decoded list is shorter than the encoded one", ctx.loc(a, adv[0]), acfg.render_path(p) if p else None)


MANIFEST = {
    "technique": "reflection over the class table (all TLVStruct subclasses), codec-table agreement by the MRO/origin rule, uniqueness and "
    "constant agreement checks, AST/path analysis of the look-ahead iterator",
    "level_text": "Static, every struct and every field: decides that a codec exists in both directions for every declared field type, that "
    "sequence fields have struct elements (the codec cannot carry packed scalars), that decode is a function of the type byte, "
    "that encoder/decoder constants, separators, order and scalar widths agree, the iterator's byte accounting, and that struct-valued "
    "characteristic access decodes the whole stored payload unconditionally. Round-trip "
    "equality as values is not decided; these are necessary conditions whose violation breaks it.",
    "level_note": "Trusted: dataclasses.fields order, struct/int conversions. Known findings: Sequence[u16] linked-service fields (BLE, CoAP) and "
    "the duplicate TLV types 128/129 in Meshcop.",
}

TWIN_FILES = ["aiohomekit/tlv8.py", "aiohomekit/meshcop.py", "aiohomekit/controller/ble/structs.py", "aiohomekit/controller/coap/structs.py", "aiohomekit/model/characteristics/structs.py"]
_F = "aiohomekit/tlv8.py"
VARIANTS = [
    {"name": "single struct-valued characteristic decoded through tlv_array (None for the all-unset message)",
     "file": "aiohomekit/model/characteristics/characteristic.py",
     "old": "                return struct.decode(new_val)\n",
     "new": "                items = [struct.decode(x) for x in tlv_array(new_val)]\n                return items[0] if items else None\n",
     "expect": "C16.K5"},
    {"name": "float codec removed (pinned defect)", "file": _F, "old": "    float: deserialize_float,\n", "new": "", "expect": "C16.K1"},
    {"name": "bytes not deserialisable", "file": _F, "old": "    bytes: deserialize_bytes,\n", "new": "", "expect": "C16.K1"},
    {"name": "new field of an unsupported type", "file": "aiohomekit/controller/ble/structs.py", "old": "class BleRequest(TLVStruct):\n", "new": "class BleRequest(TLVStruct):\n    extra: int = tlv_entry(0x7E)\n", "expect": "C16.K1"},
    {"name": "sequence of a scalar added", "file": "aiohomekit/model/characteristics/structs.py", "old": "class SessionControl(TLVStruct):\n", "new": "class SessionControl(TLVStruct):\n    ids: Sequence[u8] = tlv_entry(0x7E)\n", "expect": "C16.K2"},
    {"name": "duplicate TLV type in a camera struct", "file": "aiohomekit/model/characteristics/structs.py", "old": "class SessionControl(TLVStruct):\n", "new": "class SessionControl(TLVStruct):\n    shadow: u8 = tlv_entry(1)\n", "expect": "C16.K3"},
    {"name": "chunk 256", "file": _F, "old": "            for offset in range(0, len(encoded), 255):\n                chunk = encoded[offset : offset + 255]", "new": "            for offset in range(0, len(encoded), 256):\n                chunk = encoded[offset : offset + 256]", "expect": "C16.K4"},
    {"name": "slice width differs from the step", "file": _F, "old": "                chunk = encoded[offset : offset + 255]", "new": "                chunk = encoded[offset : offset + 254]", "expect": "C16.K4"},
    {"name": "separator 00 01", "file": _F, "old": "        result.extend(b\"\\x00\\x00\")", "new": "        result.extend(b\"\\x00\\x01\")", "expect": "C16.K4"},
    {"name": "u16 serialised big-endian", "file": _F, "old": "    return struct.pack(\"H\", value)", "new": "    return struct.pack(\">H\", value)", "expect": "C16.K4"},
    {"name": "u32 deserialised big-endian", "file": _F, "old": "def deserialize_u32(value_type: type, value: bytes) -> int:\n    return int.from_bytes(value, \"little\")", "new": "def deserialize_u32(value_type: type, value: bytes) -> int:\n    return int.from_bytes(value, \"big\")", "expect": "C16.K4"},
    {"name": "fields sorted by name", "file": _F, "old": "        for struct_field in fields(self):", "new": "        for struct_field in sorted(fields(self), key=lambda f: f.name):", "expect": "C16.K4"},
    {"name": "continuation trigger 254", "file": _F, "old": "        while length == 255:", "new": "        while length == 254:", "expect": "C16.K4"},
    {"name": "peek one byte short", "file": _F, "old": "            peek_offset = offset + 2 + length", "new": "            peek_offset = offset + 1 + length", "expect": "C16.T1"},
    {"name": "bounds test removed", "file": _F, "old": "            if peek_offset >= len(encoded_struct):", "new": "            if False:", "expect": "C16.T1"},
    {"name": "advance without the header", "file": _F, "old": "        offset += 2 + length", "new": "        offset += length", "expect": "C16.T1"},
    {"name": "array item start off by one", "file": _F, "old": "            start = offset + 2", "new": "            start = offset + 1", "expect": "C16.T1"},
]
