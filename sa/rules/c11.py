"""C11  A pairing never holds more than one open connection and leaks none."""

from __future__ import annotations

import ast

from ..engine.context import Context
from ..engine.excflow import CANCELLED
from ..engine.loader import dotted, walk_own
from ..engine.report import norm_stmt
from ..engine.terms import strip_sites

PROPERTY = "C11"
EXPLANATION = (
    "Resource-discipline analysis over all exits of the IP connection code: (G1) from the point where the secure "
    "_connect_once owns a fresh transport (normal return of super()._connect_once()) every exceptional exit - or the "
    "_reconnect handler that receives it - passes _drop_transport()/transport.close() (CancelledError is released by "
    "close(), the only canceller, which is checked too); (G2) every path from the protocol's connection_lost callback to "
    "_drop_transport() passes an identity test between the reporting protocol/transport and the connection's current "
    "one; (X1) the inter-procedural escape set of HomeKitConnection.close() contains no Exception subclass; (G3) "
    "_drop_transport closes before forgetting, close() reaches it, post_tlv closes on an HTTP error, and there is one "
    "create_connection site reachable only through the connector. Quantifier: all CFG paths and all exception classes "
    "of the escape fix-point."
)
TRUSTED = ["asyncio transports: close() is idempotent and eventually calls connection_lost on the protocol set on them"]

M = "aiohomekit.controller.ip.connection"
HC = f"{M}.HomeKitConnection"
SHC = f"{M}.SecureHomeKitConnection"
PROTO = f"{M}.InsecureHomeKitProtocol"


def is_release(call: ast.Call, path: str | None = None) -> bool:
    """`path`: the callee with local aliases resolved (Context.call_path), so `t = self.transport; t.close()` counts."""
    d = path or dotted(call.func)
    if d is None:
        return False
    return d.endswith("._drop_transport") or d.endswith(".transport.close") or d == "transport.close"


def release_nodes(ctx: Context, cfg) -> set[int]:
    out = set()
    for n in cfg.nodes:
        for c in ctx.calls(n):
            if is_release(c, ctx.call_path(cfg, n, c)):
                out.add(n.id)
    return out


def run(ctx: Context) -> None:
    ck = ctx.ck
    if ck.rule("C11.G1", "release on every failed secure-session setup"):
        _g1(ctx)
    if ck.rule("C11.G2", "a stale connection_lost cannot drop the current connection"):
        _g2(ctx)
        _g2_family(ctx)
    if ck.rule("C11.X1", "close() lets no Exception escape"):
        _x1(ctx)
    if ck.rule("C11.G3", "drop/close discipline and single connect site"):
        _g3(ctx)


def _g1(ctx: Context) -> None:
    ck = ctx.ck
    f = ctx.func(f"{SHC}._connect_once")
    cfg = ctx.cfg(f.qualname)
    acq = []
    for n in cfg.nodes:
        for c in ctx.calls(n):
            if (
                isinstance(c.func, ast.Attribute)
                and c.func.attr == "_connect_once"
                and isinstance(c.func.value, ast.Call)
                and isinstance(c.func.value.func, ast.Name)
                and c.func.value.func.id == "super"
            ):
                acq.append(n)
    if len(acq) != 1:
        ck.unknown("C11.G1", f"expected one `await super()._connect_once()` in the secure _connect_once, found {len(acq)}", f.loc())
        return
    a = acq[0]
    rel = release_nodes(ctx, cfg)
    starts = [d for (_s, d, _l, _e) in ctx.normal_out(cfg, a)]
    # 1. every non-cancellation exceptional exit after the acquire point
    unreleased: dict[str, list] = {}
    for src, lab, exc in cfg.xexit.pred:
        if lab != "x" or exc == CANCELLED:
            continue
        for s in starts:
            path = cfg.find_path(
                s,
                cfg.xexit.id,
                avoid_nodes=rel,
                edge_ok=lambda u, d, l, e, _exc=exc: not (d == cfg.xexit.id and e != _exc)
                and not (l == "x" and e not in (None, _exc)),
            )
            if path is not None:
                unreleased.setdefault(exc, path)
    # fallback: released by the handler in _reconnect that receives it
    rf = ctx.func(f"{HC}._reconnect")
    rcfg = ctx.cfg(rf.qualname)
    rrel = release_nodes(ctx, rcfg)
    callers = [n for n, c in ctx.nodes_calling_name(rcfg, "_connect_once")]
    n_classes = 0
    all_classes = sorted({exc for (_s, l, exc) in cfg.xexit.pred if l == "x" and exc != CANCELLED})
    for exc in all_classes:
        n_classes += 1
        short = exc.rsplit(".", 1)[-1]
        if exc not in unreleased:
            ck.holds("C11.G1", f"secure _connect_once: every exit raising {short} after connect passes a release", f.loc())
            continue
        ok = bool(callers)
        wit = cfg.render_path(unreleased[exc])
        for cn in callers:
            for s, d, l, e in rcfg.all_out_edges(cn):
                if l == "x" and e == exc:
                    stops = {cn.id, rcfg.exit.id, rcfg.xexit.id}
                    p2 = rcfg.find_path(d, stops, avoid_nodes=rrel)
                    if p2 is not None:
                        ok = False
                        wit = wit + ["  -- then in _reconnect --"] + rcfg.render_path(p2)
        if ok:
            ck.holds("C11.G1", f"{short}: released by the _reconnect handler that receives it", rf.loc())
        else:
            raise_site = cfg.nodes[unreleased[exc][-2][0]] if len(unreleased[exc]) >= 2 else a
            ck.violated(
                "C11.G1",
                f"{ctx.fkey(f)}:unreleased:{short}",
                f"secure _connect_once: a failure with {short} after the TCP connection was opened leaves the "
                f"transport open (no _drop_transport()/transport.close() on the way out, nor in _reconnect)",
                ctx.loc(f, raise_site),
                wit,
                f"secure _connect_once: exits raising {short} release the transport",
            )
    ck.require_min("C11.G1", "escaping exception classes after the acquire point", n_classes, 3)
    # 2. cancellation: the only canceller of the connector is _stop_connector <- close(), which drops afterwards
    cancellers = []
    for g in ctx.prog.package_functions():
        if g.module.name != M or isinstance(g.node, ast.Lambda):
            continue
        gcfg = ctx.cfg(g.qualname)
        for gn in gcfg.nodes:
            for n in ctx.calls(gn):
                if isinstance(n.func, ast.Attribute) and n.func.attr == "cancel":
                    d = ctx.expr_path(gcfg, gn, n.func.value) or dotted(n.func.value)
                    if d and d.endswith("_connector"):
                        cancellers.append(g.qualname)
    ck.check(
        "C11.G1",
        set(cancellers) == {f"{HC}._stop_connector"},
        "the connector task is cancelled only by _stop_connector",
        f"{M}:connector-cancellers",
        f"connector task cancelled from {sorted(set(cancellers))}; the cancellation-release argument needs _stop_connector only",
        ctx.func(f"{HC}._stop_connector").loc(),
    )
    stop_callers = []
    for g in ctx.prog.package_functions():
        if isinstance(g.node, ast.Lambda):
            continue
        for n in walk_own(g.node):
            if isinstance(n, ast.Call) and isinstance(n.func, ast.Attribute) and n.func.attr == "_stop_connector":
                stop_callers.append(g.qualname)
    ck.check(
        "C11.G1",
        set(stop_callers) == {f"{HC}.close"},
        "_stop_connector is called only by close()",
        f"{M}:stop-connector-callers",
        f"_stop_connector called from {sorted(set(stop_callers))}",
        ctx.func(f"{HC}.close").loc(),
    )
    ccfg = ctx.cfg(f"{HC}.close")
    stops = [n for n, c in ctx.nodes_calling_name(ccfg, "_stop_connector")]
    drops = [n for n, c in ctx.nodes_calling_name(ccfg, "_drop_transport")]
    ok = bool(stops) and bool(drops)
    if ok:
        for s in stops:
            for e in ctx.normal_out(ccfg, s):
                p = ccfg.find_path(e[1], ccfg.exit.id, avoid_nodes={d.id for d in drops})
                if p is not None and e[1] not in {d.id for d in drops}:
                    ok = False
    ck.check(
        "C11.G1",
        ok,
        "close(): after stopping (cancelling) the connector every normal path drops the transport",
        f"{HC}.close:drop-after-stop",
        "close(): a path from _stop_connector() to the normal exit avoids _drop_transport()",
        ctx.func(f"{HC}.close").loc(),
    )


def _identity_gate_edges(ctx: Context, cfg, reporter_terms) -> list:
    """Edges that certify 'the reporter is the connection's current protocol/transport' or 'there is no current one'."""
    T = ctx.terms
    edges = []

    def is_current(t) -> bool:
        # <something>.protocol / <something>.transport of the connection object
        return t[0] == "attr" and t[2] in ("protocol", "transport") and t[1] != ("param", "self") or (
            t[0] == "attr" and t[2] in ("protocol", "transport") and cfg.func.cls is not None and cfg.func.cls.qualname.endswith("Connection")
        )

    for n in cfg.nodes:
        if n.kind != "test":
            continue
        t = T.of(cfg, n, n.exprs[0])
        if t[0] == "cmp" and len(t[1]) == 1 and t[1][0] in ("Is", "IsNot", "Eq", "NotEq"):
            l, r = t[2]
            pos = t[1][0] in ("Is", "Eq")
            for a, b in ((l, r), (r, l)):
                if is_current(a) and b in reporter_terms:
                    edges += ctx.edges(cfg, n, "T" if pos else "F")
        # NOT accepted: "there is no current protocol" (is None / falsy).  _drop_transport clears the reference, so that
        # outcome is exactly the case of a connection the controller dropped on purpose; forwarding its loss restarts the
        # connector (after an authentication failure: endless immediate retries - reproduced against the real code).
    return edges


def _g2(ctx: Context) -> None:
    ck = ctx.ck
    pf = ctx.func(f"{PROTO}.connection_lost")
    pcfg = ctx.cfg(pf.qualname)
    lf = ctx.func(f"{HC}._connection_lost")
    lcfg = ctx.cfg(lf.qualname)
    T = ctx.terms
    calls = [(n, c) for n, c in ctx.nodes_calling_name(pcfg, "_connection_lost")]
    if not calls:
        # the callback no longer informs the connection at all: nothing stale can be dropped,
        # but then a real loss is never noticed (C10); not this rule's business
        ck.unknown("C11.G2", "connection_lost no longer calls HomeKitConnection._connection_lost", pf.loc())
        return
    reporter_p = [("param", "self"), ("attr", ("param", "self"), "transport")]
    gate_p = _identity_gate_edges(ctx, pcfg, reporter_p)
    # reporter as seen inside _connection_lost: any parameter bound to self / self.transport at the call
    drops = [n for n, c in ctx.nodes_calling_name(lcfg, "_drop_transport")]
    drops += [n for n in lcfg.nodes if any(is_release(c, ctx.call_path(lcfg, n, c)) for c in ctx.calls(n)) and n not in drops]
    for n, c in calls:
        reporter_l = []
        params = lf.pos_params[1:]
        for i, a in enumerate(c.args):
            at = T.of(pcfg, n, a)
            if at in reporter_p and i < len(params):
                reporter_l.append(("param", params[i]))
        for kw in c.keywords:
            if kw.arg and T.of(pcfg, n, kw.value) in reporter_p:
                reporter_l.append(("param", kw.arg))
        gate_l = _identity_gate_edges(ctx, lcfg, reporter_l) if reporter_l else []
        p1 = pcfg.find_path(pcfg.entry.id, n.id, avoid_edges=gate_p)
        if p1 is None:
            ck.holds("C11.G2", "connection_lost: the connection is informed only under an identity test", ctx.loc(pf, n))
            continue
        bad = None
        for d in drops:
            p2 = lcfg.find_path(lcfg.entry.id, d.id, avoid_edges=gate_l)
            if p2 is not None:
                bad = (p1, p2)
                break
        if bad is None and drops:
            ck.holds("C11.G2", "_connection_lost: _drop_transport() only under an identity test with the reporter", lf.loc())
        else:
            wit = pcfg.render_path(p1) + ["  -- then in HomeKitConnection._connection_lost --"] + (
                lcfg.render_path(bad[1]) if bad else []
            )
            ck.violated(
                "C11.G2",
                f"{ctx.fkey(pf)}:no-identity-guard",
                "connection_lost of any protocol instance reaches _drop_transport() without a test that the reporting "
                "protocol/transport is the connection's current one: the late loss of an abandoned connection closes the live one",
                ctx.loc(pf, n),
                wit,
                "every path connection_lost -> _drop_transport() passes an identity test",
            )


def _g2_family(ctx: Context) -> None:
    """Every loss callback of the protocol family (overrides included): whatever it writes into the shared connection
    object is written only under the identity test - a protocol that is no longer the current one must not disturb the
    connection in use (e.g. `self.connection.is_secure = False` in an override makes the healthy successor look
    disconnected; the next request then opens another socket over it)."""
    ck = ctx.ck
    T = ctx.terms
    fam = [PROTO] + [c for c in ctx.prog.subclasses(PROTO)]
    n_cb = 0
    for cq in fam:
        for name in ("connection_lost", "eof_received"):
            g = ctx.prog.functions.get(f"{cq}.{name}")
            if g is None:
                continue
            n_cb += 1
            gcfg = ctx.cfg(g.qualname)
            me = ("param", g.pos_params[0])
            gate = _identity_gate_edges(ctx, gcfg, [me, ("attr", me, "transport")])
            for n in gcfg.nodes:
                a = n.ast
                if n.kind != "stmt" or not isinstance(a, (ast.Assign, ast.AugAssign, ast.AnnAssign, ast.Delete)):
                    continue
                tgs = a.targets if isinstance(a, (ast.Assign, ast.Delete)) else [a.target]
                for tg in tgs:
                    if not isinstance(tg, ast.Attribute):
                        continue
                    base = strip_sites(T.of(gcfg, n, tg.value))
                    if base == ("attr", me, "connection"):
                        ctx.must_pass("C11.G2", gcfg, n, "identity test `connection.protocol is self` [true outcome]", gate,
                                      desc=f"{cq.rsplit('.', 1)[-1]}.{name}: `{n.text()[:60]}` writes the shared connection object only when this protocol is its current one")
    ck.require_min("C11.G2", "loss callbacks in the protocol family", n_cb, 1)


def _x1(ctx: Context) -> None:
    ck = ctx.ck
    f = ctx.func(f"{HC}.close")
    cfg = ctx.cfg(f.qualname)
    esc = sorted(ctx.flow.esc(f.qualname))
    bad = [e for e in esc if ctx.prog.is_subclass(e, "Exception") or not ctx.prog.known_class(e) or e == "asyncio.CancelledError[task]"]
    ck.stats["close_escape_set"] = esc
    if not bad:
        ck.holds("C11.X1", f"escapes(HomeKitConnection.close) = {esc}: no Exception subclass", f.loc())
    for e in bad:
        # witness: path in close() to the raising node, then the raise site chain
        wit = []
        for src, lab, exc in cfg.xexit.pred:
            if lab == "x" and exc == e:
                p = cfg.find_path(cfg.entry.id, cfg.xexit.id, edge_ok=lambda u, d, l, x, _e=e: not (d == cfg.xexit.id and x != _e))
                if p:
                    wit = cfg.render_path(p)
                break
        wit += _origin_chain(ctx, f.qualname, e, 5)
        ck.violated(
            "C11.X1",
            f"{ctx.fkey(f)}:escapes:{e.rsplit('.', 1)[-1]}",
            f"HomeKitConnection.close() can raise {e.rsplit('.', 1)[-1]}",
            f.loc(),
            wit,
            "close() never raises",
        )
    # the subclasses / pairing-level close
    for q in (f"{SHC}.close", "aiohomekit.controller.ip.pairing.IpPairing.close"):
        if q in ctx.prog.functions:
            esc2 = sorted(ctx.flow.esc(q))
            bad2 = [e for e in esc2 if ctx.prog.is_subclass(e, "Exception") or e == "asyncio.CancelledError[task]"]
            ck.check(
                "C11.X1",
                not bad2,
                f"escapes({q.split('.')[-2]}.close) has no Exception subclass",
                f"{q}:escapes",
                f"{q} can raise {bad2}",
                ctx.func(q).loc(),
            )


def _origin_chain(ctx: Context, q: str, exc: str, depth: int) -> list[str]:
    """Follow an escaping class down the call chain to an explicit raise (for the witness)."""
    out = []
    seen = set()
    while depth > 0 and q not in seen:
        seen.add(q)
        depth -= 1
        cfg = ctx.cfg(q)
        f = cfg.func
        nxt = None
        for src, lab, e in cfg.xexit.pred:
            if lab == "x" and e == exc:
                n = cfg.nodes[src]
                # find the original raise site: walk back over finally copies
                out.append(f"  {f.module.relpath}:{n.lineno}: in {f.name}: {n.text()}  -> raises {exc.rsplit('.', 1)[-1]}")
                for c in ctx.calls(n):
                    for cal in ctx.callee_names(f, c):
                        if cal in ctx.prog.functions and exc in ctx.flow.esc(cal):
                            nxt = cal
                if nxt is None and isinstance(n.ast, (ast.Expr, ast.Assign, ast.Return)):
                    for sub in ast.walk(n.ast):
                        if isinstance(sub, ast.Await) and isinstance(sub.value, ast.Attribute):
                            owner = f
                            while owner.parent is not None:
                                owner = owner.parent
                            if owner.cls is not None:
                                t = ctx.res.task_attr(owner.cls.qualname, sub.value.attr)
                                if t:
                                    nxt = t
                break
        if nxt is None:
            break
        q = nxt
    return out


def _g3(ctx: Context) -> None:
    ck = ctx.ck
    # _drop_transport: close before clearing
    f = ctx.func(f"{HC}._drop_transport")
    cfg = ctx.cfg(f.qualname)
    clears = []
    for n in cfg.nodes:
        a = n.ast
        if n.kind == "stmt" and isinstance(a, ast.Assign):
            for t in a.targets:
                for tt in (t.elts if isinstance(t, ast.Tuple) else [t]):
                    if dotted(tt) == "self.transport":
                        clears.append(n)
    closes = [n for n in cfg.nodes if any(ctx.call_path(cfg, n, c) == "self.transport.close" for c in ctx.calls(n))]
    gate = []
    for c in closes:
        gate += ctx.normal_out(cfg, c)
    for n in cfg.nodes:
        if n.kind == "test" and (dotted(n.exprs[0]) == "self.transport" or ctx.expr_path(cfg, n, n.exprs[0]) == "self.transport"):
            gate += ctx.edges(cfg, n, "F")  # (also through a local alias: `t = self.transport; if t: t.close()`)
        if n.kind == "test":
            t = ctx.terms.of(cfg, n, n.exprs[0])
            if t[0] == "cmp" and t[1] in (("Is",), ("IsNot",)) and t[2][0] == ("attr", ("param", "self"), "transport") and t[2][1] == ("const", None):
                gate += ctx.edges(cfg, n, "T" if t[1] == ("Is",) else "F")
    if not clears:
        ck.unknown("C11.G3", "_drop_transport no longer clears self.transport", f.loc())
    for c in clears:
        ctx.must_pass("C11.G3", cfg, c, "transport.close() (or no transport)", gate,
                      desc="_drop_transport: the transport is closed before the reference is forgotten")
    # close() reaches _drop_transport on every normal path
    cf = ctx.func(f"{HC}.close")
    ccfg = ctx.cfg(cf.qualname)
    gate = []
    for n, c in ctx.nodes_calling_name(ccfg, "_drop_transport"):
        gate += ctx.normal_out(ccfg, n)
    ctx.must_pass("C11.G3", ccfg, ccfg.exit, "_drop_transport()", gate, desc="close(): every normal exit passes _drop_transport()")
    # post_tlv closes on an HTTP error response
    pf = ctx.func(f"{HC}.post_tlv")
    pcfg = ctx.cfg(pf.qualname)
    hs = [n for n in pcfg.nodes if n.kind == "handler" and n.handler_classes and any(
        ctx.prog.is_subclass("aiohomekit.exceptions.HttpErrorResponse", h) for h in n.handler_classes)]
    rel = release_nodes(ctx, pcfg)
    if not hs:
        ck.violated("C11.G3", f"{ctx.fkey(pf)}:no-http-error-handler",
                    "post_tlv no longer handles HttpErrorResponse (the connection must be closed on an HTTP error)", pf.loc())
    for h in hs:
        if not any(exc for exc in h.incoming_exc):
            continue
        p = pcfg.find_path(h.id, {pcfg.exit.id, pcfg.xexit.id}, avoid_nodes=rel)
        ck.check(
            "C11.G3",
            p is None,
            "post_tlv: the HttpErrorResponse handler closes the transport on every path",
            f"{ctx.fkey(pf)}:http-error-no-close",
            "post_tlv: an HTTP error response does not close the transport on some path",
            ctx.loc(pf, h),
            pcfg.render_path(p) if p else None,
        )
    # one create_connection site; _connect_once only called from _reconnect (and super())
    sites = []
    callers = []
    for g in ctx.prog.package_functions():
        if not g.module.name.startswith("aiohomekit.controller.ip") or isinstance(g.node, ast.Lambda):
            continue
        for n in walk_own(g.node):
            if isinstance(n, ast.Call) and isinstance(n.func, ast.Attribute):
                if n.func.attr == "create_connection":
                    sites.append(g.qualname)
                if n.func.attr == "_connect_once":
                    v = n.func.value
                    is_super = isinstance(v, ast.Call) and isinstance(v.func, ast.Name) and v.func.id == "super"
                    if not is_super:
                        callers.append(g.qualname)
    ck.check("C11.G3", sites == [f"{HC}._connect_once"], "create_connection has one site: HomeKitConnection._connect_once",
             f"{M}:create-connection-sites", f"create_connection called from {sites}", ctx.func(f"{HC}._connect_once").loc())
    ck.check("C11.G3", set(callers) == {f"{HC}._reconnect"}, "_connect_once is called only from _reconnect (and super())",
             f"{M}:connect-once-callers", f"_connect_once called from {sorted(set(callers))}", ctx.func(f"{HC}._reconnect").loc())


MANIFEST = {
    "technique": "CFG release-on-all-exits with exception edges, inter-procedural escape-set fix-point, identity-gate path query",
    "level_text": "Static, all exits: decides that every exception class escaping the secure connection setup after the TCP "
    "connect passes a transport release, that close() has an Exception-free escape set, and that the lost-connection "
    "callback reaches _drop_transport only under an identity test. These are the three mechanisms the property rests on; "
    "the history-level statement (at most one open socket at any moment) follows from them and is not itself explored.",
    "level_note": "Trusted: asyncio transport/close semantics; the exception hierarchy table; calls into owner.connection_made "
    "resolved through the IpPairing annotation. Histories/peer view are not decided.",
}

TWIN_FILES = ["aiohomekit/controller/ip/connection.py"]
_F = "aiohomekit/controller/ip/connection.py"
VARIANTS = [
    {"name": "failed attempt's transport not dropped (pinned defect)", "file": _F,
     "old": "                    except BaseException:\n                        # Whatever went wrong, a transport opened by this\n                        # attempt is of no use without a secure session: close\n                        # it so it is not leaked when the next attempt\n                        # replaces it.\n                        self._drop_transport()\n                        raise",
     "new": "                    except BaseException:\n                        raise", "expect": "C11.G1"},
    {"name": "only HomeKitException failures drop the transport", "file": _F, "old": "                    except BaseException:\n                        # Whatever went wrong", "new": "                    except HomeKitException:\n                        # Whatever went wrong", "expect": "C11.G1"},
    {"name": "identity guard removed (pinned defect)", "file": _F, "old": "        if self.connection.protocol is self:\n", "new": "        if True:\n", "expect": "C11.G2"},
    {"name": "identity guard inverted", "file": _F, "old": "        if self.connection.protocol is self:", "new": "        if self.connection.protocol is not self:", "expect": "C11.G2"},
    {"name": "loss of a deliberately dropped connection forwarded (restarts the connector)", "file": _F, "old": "        if self.connection.protocol is self:", "new": "        if self.connection.protocol is self or self.connection.protocol is None:", "expect": "C11.G2"},
    {"name": "finished connector's error re-raised by close (pinned defect)", "file": _F,
     "old": "        except Exception as ex:  # pylint: disable=broad-except\n            # The connector already finished with an error (for example an\n            # AuthenticationError); closing must not fail because of it.\n            logger.debug(\"%s: Connector had failed: %s\", self.name, ex)\n", "new": "", "expect": "C11.X1"},
    {"name": "close() raises when already closing", "file": _F, "old": "        self.closing = True\n\n        await self._stop_connector()", "new": "        if self.closing:\n            raise AccessoryDisconnectedError(\"already closing\")\n        self.closing = True\n\n        await self._stop_connector()", "expect": "C11.X1"},
    {"name": "references cleared before closing", "file": _F, "old": "        if self.transport:\n            self.transport.close()\n        self.transport = None\n        self.protocol = None", "new": "        transport, self.transport = self.transport, None\n        self.protocol = None\n        self.transport = None\n        if self.transport:\n            self.transport.close()", "expect": "C11.G3"},
    {"name": "close() forgets the transport", "file": _F, "old": "        await self._stop_connector()\n\n        self._drop_transport()\n        self.is_secure = None", "new": "        await self._stop_connector()\n\n        self.is_secure = None", "expect": ["C11.G3", "C11.G1"]},
    {"name": "post_tlv keeps the connection after an HTTP error", "file": _F, "old": "        except HttpErrorResponse as e:\n            self.transport.close()\n            response = e.response", "new": "        except HttpErrorResponse as e:\n            response = e.response", "expect": "C11.G3"},
    {"name": "second connect site", "file": _F, "old": "    async def ensure_connection(self) -> None:", "new": "    async def _quick_connect(self) -> None:\n        await self._connect_once()\n\n    async def ensure_connection(self) -> None:", "expect": "C11.G3"},
]
