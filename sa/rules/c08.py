"""C08  Every request gets its own response or a prompt disconnection error."""

from __future__ import annotations

import ast
from collections import deque

from ..engine.context import Context
from ..engine.excflow import CANCELLED
from ..engine.loader import EXC_ALIASES, EXCLUDED_MODULES, walk_expr
from ..engine.report import norm_stmt
from ..engine.terms import contains, show, strip_sites

PROPERTY = "C08"
EXPLANATION = (
    "Static discipline analysis of the IP request/response pairing (InsecureHomeKitProtocol and HomeKitConnection.request): "
    "(W1) package-wide who-may-mutate sweep over the FIFO `result_cbs` - created empty in __init__, grown only by one "
    ".append(<fresh future>) in _send_lines, shrunk only by .pop(0) (argument constant checked) in data_received and "
    "_cancel_pending_requests, every other occurrence a read; on every CFG path of _send_lines the append precedes the "
    "transport write and the await, with no suspension point between append and write, the awaited/returned value is the "
    "enqueued future's result and the future is used nowhere else; (G1) in data_received pop/set_result lie only behind the "
    "outcome kind=='http' of the response-kind test, event_received only behind kind=='event', set_result only behind "
    "`not done()` of the popped future and with the completed response, a popped future is never dropped, every other kind "
    "can only raise; (G2) every exceptional exit of _send_lines after the enqueue passes transport.close() (per escaping "
    "class, exception edges included), the handler cannot fall through to a normal exit, the class _handle_timeout sets "
    "leaves only as AccessoryDisconnectedError (isinstance outcomes pruned per class), the timer is armed before the await "
    "as loop.call_at(loop.time() + 30, self._handle_timeout, <that future>), _handle_timeout only fails a not-done future, "
    "a closing transport is refused with AccessoryDisconnectedError before the enqueue; (G3) connection_lost and "
    "eof_received reach _cancel_pending_requests on every path to every exit (inter-procedural must-call through "
    "class-hierarchy-resolved calls), eof_received returns a false value, _cancel_pending_requests leaves only through the "
    "queue-empty outcome, pops under the non-empty outcome and fails each popped not-done future with "
    "AccessoryDisconnectedError under a done() guard; (G4) request() passes a `protocol is set` gate before the semaphore "
    "and again after every suspension point before the send, the unset outcomes only raise AccessoryDisconnectedError, the "
    "send lies inside `async with self._concurrency_limit` (an asyncio.Semaphore assigned only in __init__) and request() "
    "returns the reply of its own send. Quantifier covered: all CFG paths / all exits / all escaping classes / all "
    "occurrences in the package - not event-loop interleavings or virtual time."
)
TRUSTED = [
    "asyncio transports: after close() no further data_received is delivered and connection_lost is called exactly once; "
    "an exception escaping data_received (e.g. IndexError of pop(0) on an unsolicited response, RuntimeError on an unknown "
    "kind) makes the transport close itself (fatal error path) and connection_lost follows; a false result of eof_received "
    "closes the transport",
    "asyncio futures/timers: awaiting a future whose awaiting task is cancelled cancels that future; set_result / "
    "set_exception wake exactly the awaiter of that future; loop.call_at runs the callback once at the given loop time",
    "transport.write/writelines/close/is_closing and logging calls do not raise and do not suspend",
]

M = "aiohomekit.controller.ip.connection"
PROTO = f"{M}.InsecureHomeKitProtocol"
HC = f"{M}.HomeKitConnection"
SEND = f"{PROTO}._send_lines"
RECV = f"{PROTO}.data_received"
CANCEL = f"{PROTO}._cancel_pending_requests"
ON_TIMEOUT = f"{PROTO}._handle_timeout"
REQUEST = f"{HC}.request"
ADE = "aiohomekit.exceptions.AccessoryDisconnectedError"
QUEUE = "result_cbs"
TIMEOUT_S = 30  # property statement: "30 s timeout"
SEMAPHORES = {"asyncio.Semaphore", "asyncio.BoundedSemaphore", "asyncio.locks.Semaphore", "asyncio.locks.BoundedSemaphore"}

READ_METHODS = {"copy", "index", "count", "__len__", "__contains__", "__iter__", "__getitem__"}
MUTATORS = {"insert", "extend", "remove", "clear", "sort", "reverse", "__setitem__", "__delitem__", "__iadd__", "__imul__"}
READ_BUILTINS = {"len", "bool", "list", "tuple", "iter", "enumerate", "reversed", "sorted", "any", "all", "repr", "str", "id"}
LOG_METHODS = {"debug", "info", "warning", "error", "exception", "critical", "log"}
COMPLETERS = ("set_result", "set_exception", "cancel")


# ---------------------------------------------------------------------- small helpers
def _self_attr(name: str) -> tuple:
    return ("attr", ("param", "self"), name)


def _timeout_handler(ctx: Context):
    """The callable `_send_lines` arms its timer with -> (qualname, index of the parameter that receives the future) or None.
    A method (`self._handle_timeout`, also a @staticmethod) or a module-level function; found through the timer call, not by
    name (a closure over the future takes no argument: not handled, the caller says so)."""
    got = getattr(ctx, "_c08_timeout_handler", False)
    if got is not False:
        return got
    ctx._c08_timeout_handler = None
    try:
        f = ctx.func(SEND)
    except Exception:  # noqa: BLE001
        return None
    cfg = ctx.cfg(f.qualname)
    T = ctx.terms
    for n in cfg.nodes:
        for c in ctx.calls(n):
            if isinstance(c.func, ast.Attribute) and c.func.attr in ("call_at", "call_later") and len(c.args) >= 2:
                h = strip_sites(T.of(cfg, n, c.args[1]))
                q = None
                if h[0] == "attr" and h[1] == ("param", "self") and f.cls is not None:
                    m = ctx.prog.lookup_method(f.cls.qualname, h[2])
                    q = m.qualname if m is not None else None
                elif h[0] == "glob" and h[1] in ctx.prog.functions:
                    q = h[1]
                if q is not None:
                    g = ctx.prog.functions[q]
                    off = 1 if (g.cls is not None and "staticmethod" not in g.decorators) else 0
                    if len(g.pos_params) > off:
                        ctx._c08_timeout_handler = (q, off, h)
                        return ctx._c08_timeout_handler
    return None


def _is_queue(t) -> bool:
    return isinstance(t, tuple) and len(t) == 3 and t[0] == "attr" and t[2] == QUEUE


def _mentions_queue(t) -> bool:
    return contains(t, _is_queue)


def _short(q: str) -> str:
    return ".".join(q.split(".")[-2:])


def _mcalls(ctx: Context, cfg, node):
    """(call, receiver term, method name) for every method call evaluated at the node."""
    for c in ctx.calls(node):
        if isinstance(c.func, ast.Attribute):
            yield c, ctx.terms.of(cfg, node, c.func.value), c.func.attr


def _is_method_call(t, recv, meth: str) -> bool:
    return isinstance(t, tuple) and t[0] == "call" and t[1] == ("attr", recv, meth)


def _suspends(node) -> bool:
    if node.kind == "with_enter" and isinstance(node.ast, ast.AsyncWith):
        return True
    if node.kind == "for" and isinstance(node.ast, ast.AsyncFor):
        return True
    for e in node.exprs:
        if e is None:
            continue
        for sub in walk_expr(e):
            if isinstance(sub, ast.Await):
                return True
    return False


def _loop_heads(cfg, node) -> set[int]:
    """Heads of the loops that enclose ``node`` (reaching one = going round again)."""
    out = set()
    for kind, st, part in node.frames:
        if kind == "loop" and part == "body":
            for x in cfg.nodes_for(st):
                if x.kind in ("loop_head", "for"):
                    out.add(x.id)
    return out


def _reach(cfg, starts, edge_ok=None, avoid_nodes=(), avoid_edges=()) -> set[int]:
    """Forward reachability with an edge filter (cfg.reachable_from has none)."""
    avoid_nodes = set(avoid_nodes)
    avoid_edges = set(avoid_edges)
    seen = set(s for s in starts if s not in avoid_nodes)
    dq = deque(seen)
    while dq:
        u = dq.popleft()
        for d, l, e in cfg.nodes[u].succ:
            if d in seen or d in avoid_nodes or (u, d, l, e) in avoid_edges:
                continue
            if edge_ok is not None and not edge_ok(u, d, l, e):
                continue
            seen.add(d)
            dq.append(d)
    return seen


def _always_raises(cfg, edge) -> tuple[bool, set]:
    """All paths continuing over ``edge`` leave the function by an exception -> (no normal exit, classes)."""
    reach = cfg.reachable_from(edge[1])
    classes = {exc for (src, lab, exc) in cfg.xexit.pred if src in reach and lab == "x"}
    return cfg.exit.id not in reach, classes


def _exc_class(ctx: Context, cfg, node, e: ast.expr | None) -> str | None:
    """Class of the exception value ``X`` / ``X(...)`` (through locals; canonical, aliases folded)."""
    if e is None:
        return None
    t = ctx.terms.of(cfg, node, e)
    if t[0] == "call" and t[1][0] == "glob":
        t = t[1]
    if t[0] != "glob":
        return None
    return EXC_ALIASES.get(t[1], t[1])


def _tests(ctx: Context, cfg):
    """(node, term, true label, false label) of every test node; a `not` that arrives through a temporary
    (``pending = not f.done()`` / ``if pending:``) is stripped and the outcome labels are swapped."""
    for n in cfg.nodes:
        if n.kind != "test":
            continue
        t = ctx.terms.of(cfg, n, n.exprs[0])
        tl, fl = "T", "F"
        while t[0] == "unop" and t[1] == "Not":
            t = t[2]
            tl, fl = fl, tl
        yield n, t, tl, fl


def _done_edges(ctx: Context, cfg, recv) -> tuple[list, list]:
    """Outcome edges of the tests ``<recv>.done()``: (not-done edges, done edges)."""
    nd, d = [], []
    for n, t, tl, fl in _tests(ctx, cfg):
        if _is_method_call(t, recv, "done") and not t[2]:
            nd += ctx.edges(cfg, n, fl)
            d += ctx.edges(cfg, n, tl)
    return nd, d


def _require_min(ctx: Context, rule: str, what: str, count: int, minimum: int) -> None:
    """Frozen minimum of matched sites - unless the shortfall is already explained by a reported violation of the rule."""
    if count < minimum and any(i.rule == rule and i.status in ("VIOLATED", "KNOWN-FINDING") for i in ctx.ck.instances):
        return
    ctx.ck.require_min(rule, what, count, minimum)


def _unconditional_calls(e: ast.AST):
    """Calls that are evaluated whenever the expression/statement is (not behind and/or, if-else, comprehension, lambda)."""
    stack = [e]
    while stack:
        n = stack.pop()
        if isinstance(n, (ast.Lambda, ast.FunctionDef, ast.AsyncFunctionDef, ast.ClassDef)) and n is not e:
            continue
        if isinstance(n, (ast.ListComp, ast.SetComp, ast.DictComp, ast.GeneratorExp)):
            continue
        if isinstance(n, ast.Call):
            yield n
        if isinstance(n, ast.BoolOp):
            stack.append(n.values[0])
            continue
        if isinstance(n, ast.IfExp):
            stack.append(n.test)
            continue
        stack.extend(ast.iter_child_nodes(n))


def _queue_anchor(ctx: Context, rule: str) -> bool:
    """The state anchor still exists: some method of the protocol family mentions ``self.result_cbs``."""
    for cls in _proto_family(ctx):
        for g in ctx.prog.classes[cls].methods.values():
            for n in ast.walk(g.node):
                if isinstance(n, ast.Attribute) and n.attr == QUEUE:
                    return True
    ctx.ck.unknown(rule, f"state anchor vanished: no method of InsecureHomeKitProtocol mentions {QUEUE}", ctx.prog.cls(PROTO).module.relpath)
    return False


def _proto_family(ctx: Context) -> list[str]:
    ctx.prog.cls(PROTO)
    return [PROTO] + sorted(ctx.prog.subclasses(PROTO))


# ---------------------------------------------------------------------- the enqueue point (shared by W1 and G2)
def _enqueue(ctx: Context, rule: str):
    """_send_lines: append nodes, the enqueued future's term, the nodes awaiting it."""
    ck = ctx.ck
    f = ctx.func(SEND)
    cfg = ctx.cfg(SEND)
    T = ctx.terms
    apps = []
    for n in cfg.nodes:
        for c, recv, meth in _mcalls(ctx, cfg, n):
            if meth == "append" and _is_queue(recv):
                apps.append((n, c))
    if not apps:
        ck.unknown(rule, f"_send_lines no longer appends to {QUEUE}: enqueue point not found", f.loc())
        return None
    futs = set()
    for n, c in apps:
        if len(c.args) != 1 or c.keywords:
            ck.unknown(rule, f"_send_lines: unrecognised append form `{n.text()}`", ctx.loc(f, n))
            return None
        futs.add(T.of(cfg, n, c.args[0]))
    if len(futs) != 1:
        ck.unknown(rule, "_send_lines: the appends do not enqueue one single future value", f.loc())
        return None
    fut = futs.pop()
    awaits = []
    for n in cfg.nodes:
        for e in n.exprs:
            if e is None:
                continue
            for sub in walk_expr(e):
                if isinstance(sub, ast.Await) and T.of(cfg, n, sub.value) == fut and n not in awaits:
                    awaits.append(n)
    if not awaits:
        ck.unknown(rule, "_send_lines: the enqueued future is never awaited (shape not recognised)", f.loc())
        return None
    starts = []
    for n, _c in apps:
        starts += [e[1] for e in ctx.normal_out(cfg, n)]
    return {"f": f, "cfg": cfg, "apps": apps, "fut": fut, "awaits": awaits, "starts": starts}


def run(ctx: Context) -> None:
    ck = ctx.ck
    if ck.rule("C08.W1", "FIFO discipline of result_cbs: who may mutate it and how; enqueue before write and await"):
        _w1_sweep(ctx)
        _w1_order(ctx)
    if ck.rule("C08.G1", "attribution in data_received: pop/set_result only for 'http', events only for 'event', else raise"):
        _g1(ctx)
    if ck.rule("C08.G2", "abandon the connection on any failure of a request; timeout -> AccessoryDisconnectedError"):
        _g2(ctx)
    if ck.rule("C08.G3", "nobody hangs: connection_lost / eof_received fail every pending request"):
        _g3(ctx)
    if ck.rule("C08.G4", "request(): refuse without a protocol, send only inside the semaphore"):
        _g4(ctx)


# ---------------------------------------------------------------------- W1: who may mutate the queue
def _parents(tree: ast.AST) -> dict[int, ast.AST]:
    out = {}
    for p in ast.walk(tree):
        for ch in ast.iter_child_nodes(p):
            out[id(ch)] = p
    return out


def _enclosing_func(node: ast.AST, parents: dict) -> ast.AST | None:
    cur = parents.get(id(node))
    while cur is not None:
        if isinstance(cur, (ast.FunctionDef, ast.AsyncFunctionDef, ast.Lambda, ast.ClassDef, ast.Module)):
            return cur
        cur = parents.get(id(cur))
    return None


def _role(sub: ast.AST, parents: dict) -> tuple:
    """Syntactic role of a queue-valued expression."""
    p = parents.get(id(sub))
    if isinstance(sub, ast.Attribute) and isinstance(sub.ctx, (ast.Store, ast.Del)):
        return ("store", p)
    if isinstance(p, ast.Attribute) and p.value is sub:
        gp = parents.get(id(p))
        if isinstance(gp, ast.Call) and gp.func is p:
            return ("method", p.attr, gp)
        return ("escape", "attribute " + p.attr)
    if isinstance(p, ast.Subscript) and p.value is sub:
        return ("peek",) if isinstance(p.ctx, ast.Load) else ("item-store", p)
    if isinstance(p, (ast.If, ast.While, ast.IfExp, ast.Assert)) and p.test is sub:
        return ("read",)
    if isinstance(p, (ast.BoolOp, ast.Compare, ast.FormattedValue, ast.Expr)):
        return ("read",)
    if isinstance(p, ast.UnaryOp) and isinstance(p.op, ast.Not):
        return ("read",)
    if isinstance(p, (ast.For, ast.AsyncFor, ast.comprehension)) and p.iter is sub:
        return ("read",)
    if isinstance(p, ast.Call) and sub in p.args:
        if isinstance(p.func, ast.Name) and p.func.id in READ_BUILTINS:
            return ("read",)
        if isinstance(p.func, ast.Attribute) and p.func.attr in LOG_METHODS:
            return ("read",)
        return ("escape", "argument of " + " ".join(ast.unparse(p.func).split())[:40])
    if isinstance(p, (ast.Assign, ast.AnnAssign, ast.NamedExpr)) and p.value is sub:
        tg = p.targets if isinstance(p, ast.Assign) else [p.target]
        if all(isinstance(t, ast.Name) for t in tg):
            return ("alias",)
        return ("escape", "stored in " + " ".join(ast.unparse(tg[0]).split())[:40])
    return ("escape", type(p).__name__)


def _w1_sweep(ctx: Context) -> None:
    ck = ctx.ck
    prog = ctx.prog
    T = ctx.terms
    family = _proto_family(ctx)
    inits = {f"{c}.__init__" for c in family}
    n_mut = 0
    n_read = 0
    for m in prog.modules.values():
        if m.name in EXCLUDED_MODULES or QUEUE not in m.source:
            continue
        parents = _parents(m.tree)
        occ = [n for n in ast.walk(m.tree) if isinstance(n, ast.Attribute) and n.attr == QUEUE]
        for n in ast.walk(m.tree):
            if isinstance(n, ast.Constant) and n.value == QUEUE:
                ck.unknown("C08.W1", f"{m.relpath}: the name '{QUEUE}' occurs as a string (reflective access is not tracked)",
                           f"{m.relpath}:{n.lineno}")
        by_func: dict[str, list] = {}
        for o in occ:
            fn = _enclosing_func(o, parents)
            g = prog.func_of_node.get(id(fn)) if isinstance(fn, (ast.FunctionDef, ast.AsyncFunctionDef)) else None
            if g is None:
                ck.unknown("C08.W1", f"{m.relpath}: {QUEUE} is used outside a function body (lambda / class / module level)",
                           f"{m.relpath}:{o.lineno}")
                continue
            by_func.setdefault(g.qualname, []).append(o)
        for q, occs in sorted(by_func.items()):
            f = prog.functions[q]
            cfg = ctx.cfg(q)
            seen: dict[int, tuple] = {}
            for n in cfg.nodes:
                for e in n.exprs:
                    if e is None:
                        continue
                    for sub in walk_expr(e):
                        if id(sub) in seen:
                            continue
                        if isinstance(sub, ast.Attribute):
                            if sub.attr != QUEUE:
                                continue
                        elif not (isinstance(sub, ast.Name) and isinstance(sub.ctx, ast.Load)):
                            continue
                        if _is_queue(T.of(cfg, n, sub)):
                            seen[id(sub)] = (n, sub)
            for o in occs:
                if id(o) not in seen:
                    ck.unknown("C08.W1", f"{_short(q)}: an occurrence of {QUEUE} lies outside every analysed CFG node", f.loc(o))
            for n, sub in seen.values():
                role = _role(sub, parents)
                loc = ctx.loc(f, n)
                where = _short(q)
                if role[0] in ("read", "peek", "alias"):
                    n_read += 1
                    continue
                if role[0] == "escape":
                    ck.unknown("C08.W1", f"{where}: {QUEUE} escapes ({role[1]}): aliasing beyond locals is not tracked", loc)
                    continue
                if role[0] == "store" and isinstance(role[1], ast.AnnAssign) and role[1].value is None:
                    n_read += 1  # bare annotation: declares, does not bind
                    continue
                if role[0] == "store":
                    p = role[1]
                    val = getattr(p, "value", None)
                    vt = T.of(cfg, n, val) if (isinstance(p, (ast.Assign, ast.AnnAssign)) and val is not None) else ("unknown", "")
                    fresh = vt == ("list", ()) or (vt[0] == "call" and vt[1] == ("glob", "list") and not vt[2] and not vt[3])
                    n_mut += 1
                    ck.check(
                        "C08.W1",
                        q in inits and fresh,
                        f"{where}: {QUEUE} is created as an empty list",
                        f"{ctx.fkey(f)}:queue-rebound",
                        f"{where}: {QUEUE} is rebound/deleted (`{norm_stmt(n.text())}`): only __init__ may create it, as an empty "
                        "list - queued futures would be forgotten or foreign ones introduced",
                        loc,
                    )
                    continue
                if role[0] == "item-store":
                    n_mut += 1
                    if q == CANCEL and _is_clear_all(n.ast, lambda e: _is_queue(strip_sites(T.of(cfg, n, e)))):
                        # `del q[:]` in the fail-everything function: legitimate when every snapshotted future is failed (C08.G3)
                        ck.holds("C08.W1", f"{where}: the FIFO is emptied as a whole (`{norm_stmt(n.text())}`); that all its futures are failed is C08.G3", loc)
                        continue
                    ck.violated("C08.W1", f"{ctx.fkey(f)}:item-store", f"{where}: an element of {QUEUE} is replaced/deleted in place "
                                f"(`{norm_stmt(n.text())}`)", loc)
                    continue
                # method call on the queue
                meth, call = role[1], role[2]
                if meth in READ_METHODS:
                    n_read += 1
                    continue
                if meth == "append":
                    n_mut += 1
                    ck.check(
                        "C08.W1",
                        q == SEND,
                        f"{where}: {QUEUE}.append - the only enqueue site",
                        f"{ctx.fkey(f)}:append-outside-owner",
                        f"{where}: {QUEUE}.append outside _send_lines (`{norm_stmt(n.text())}`)",
                        loc,
                    )
                    continue
                if meth == "pop":
                    n_mut += 1
                    if q not in (RECV, CANCEL):
                        ck.violated("C08.W1", f"{ctx.fkey(f)}:pop-outside-owner",
                                    f"{where}: {QUEUE}.pop outside data_received/_cancel_pending_requests (`{norm_stmt(n.text())}`)", loc)
                        continue
                    oldest = len(call.args) == 1 and not call.keywords and T.of(cfg, n, call.args[0]) == ("const", 0)
                    ck.check(
                        "C08.W1",
                        oldest,
                        f"{where}: {QUEUE}.pop(0) takes the oldest future (argument constant 0)",
                        f"{ctx.fkey(f)}:pop-not-oldest",
                        f"{where}: `{norm_stmt(' '.join(ast.unparse(call).split()))}` does not take the oldest entry: responses "
                        "would be matched to requests out of order (FIFO broken)",
                        loc,
                    )
                    continue
                if meth in MUTATORS:
                    n_mut += 1
                    if q == CANCEL and meth == "clear":
                        ck.holds("C08.W1", f"{where}: the FIFO is emptied as a whole ({QUEUE}.clear()); that all its futures are failed is C08.G3", loc)
                        continue
                    if q == CANCEL or q in inits:
                        ck.unknown("C08.W1", f"{where}: {QUEUE}.{meth}() - shape of the owner method not recognised", loc)
                    else:
                        ck.violated("C08.W1", f"{ctx.fkey(f)}:mutator:{meth}",
                                    f"{where}: {QUEUE}.{meth}() mutates the FIFO outside the append/pop(0) discipline", loc)
                    continue
                ck.unknown("C08.W1", f"{where}: unknown method {QUEUE}.{meth}()", loc)
    ck.stats["c08_queue_mutation_sites"] = n_mut
    ck.stats["c08_queue_read_sites"] = n_read
    ck.require_min("C08.W1", f"mutation sites of {QUEUE} (create, append, two pops)", n_mut, 4)


def _is_clear_all(st, is_queue_expr) -> bool:
    """`del q[:]`"""
    if isinstance(st, ast.Delete) and len(st.targets) == 1:
        t = st.targets[0]
        return isinstance(t, ast.Subscript) and isinstance(t.slice, ast.Slice) and t.slice.lower is None and t.slice.upper is None and t.slice.step is None and is_queue_expr(t.value)
    return False


def _cancel_snapshot_form(ctx: Context, f, cfg) -> bool:
    """The other way to fail everything: snapshot the FIFO, empty it as a whole, then fail every snapshotted future that
    is not done.  Returns True when this form is present (and was decided)."""
    ck = ctx.ck
    T = ctx.terms
    prog = ctx.prog
    queue = _self_attr(QUEUE)
    snaps, clears = [], []
    for n in cfg.nodes:
        a = n.ast
        if n.kind != "stmt":
            continue
        if isinstance(a, ast.Assign) and len(a.targets) == 1 and isinstance(a.targets[0], ast.Name):
            t = strip_sites(T.of(cfg, n, a.value))
            is_copy = (t[0] == "call" and t[1] in (("glob", "list"), ("glob", "tuple")) and t[2] == (queue,)) or \
                      (t[0] == "sub" and t[1] == queue and t[2][0] == "slice" and t[2][1] is None and t[2][2] is None) or \
                      (t[0] == "call" and t[1] == ("attr", queue, "copy"))
            if is_copy:
                snaps.append((n, t))
        if _is_clear_all(a, lambda e, n=n: strip_sites(T.of(cfg, n, e)) == queue):
            clears.append(n)
        for c, recv, meth in _mcalls(ctx, cfg, n):
            if meth == "clear" and _is_queue(recv):
                clears.append(n)
    if not snaps or not clears:
        return False
    sn, st = snaps[0]
    gate = [e for c in clears for e in ctx.normal_out(cfg, c)]
    ctx.must_pass("C08.G3", cfg, cfg.exit, f"`{QUEUE}` emptied as a whole", gate, desc="_cancel_pending_requests returns only after the FIFO was emptied")
    for c in clears:
        p = cfg.find_path(cfg.entry.id, c.id, avoid_nodes=[sn.id])
        ck.check("C08.G3", p is None, "_cancel_pending_requests: the FIFO is snapshotted before it is emptied", f"{ctx.fkey(f)}:cleared-before-snapshot",
                 "_cancel_pending_requests empties the FIFO before taking the snapshot of its futures: they are forgotten, their requests hang", ctx.loc(f, c))
    esc = sorted(ctx.flow.esc(CANCEL))
    ck.check("C08.G3", not esc, "_cancel_pending_requests: empty escape set (it cannot stop half-way with an exception)",
             f"{ctx.fkey(f)}:escapes", f"_cancel_pending_requests can raise {esc}: the remaining requests are never failed", f.loc())
    loops = [h for h in cfg.nodes if h.kind == "for" and strip_sites(T.of(cfg, [x for x in cfg.nodes if x.kind == "for_iter" and x.ast is h.ast][0], h.ast.iter)) == st]
    if len(loops) != 1 or not isinstance(loops[0].ast.target, ast.Name):
        ck.unknown("C08.G3", "_cancel_pending_requests: no single loop over the snapshot of the FIFO found", f.loc())
        return True
    h = loops[0]
    p = cfg.find_path(cfg.entry.id, cfg.exit.id, avoid_nodes=[h.id])
    ck.check("C08.G3", p is None, "_cancel_pending_requests: every return passes the loop over the snapshot", f"{ctx.fkey(f)}:snapshot-loop-skipped",
             "_cancel_pending_requests can return without walking the snapshot of the FIFO", f.loc(), cfg.render_path(p) if p else None)
    body_entry = [e[1] for e in cfg.out_edges(h, ("T",))]
    elem = None
    for b in body_entry:
        elem = strip_sites(T.var_at(cfg, cfg.nodes[b], h.ast.target.id))
    nd, done = _done_edges(ctx, cfg, elem)
    fails = set()
    n_fail = 0
    for m in cfg.nodes:
        for c, recv, meth in _mcalls(ctx, cfg, m):
            if meth not in COMPLETERS or recv != elem:
                continue
            cls = _exc_class(ctx, cfg, m, c.args[0] if c.args else None) if meth == "set_exception" else None
            good = meth == "set_exception" and cls is not None and prog.is_subclass(cls, ADE)
            ck.check("C08.G3", good, "_cancel_pending_requests fails the pending request with AccessoryDisconnectedError", f"{ctx.fkey(f)}:wrong-completion:{meth}",
                     f"_cancel_pending_requests ends a pending request with `{norm_stmt(m.text())}`, not with a disconnection error", ctx.loc(f, m))
            if good:
                fails.add(m.id)
                n_fail += 1
            p = cfg.find_path(cfg.entry.id, m.id, avoid_edges=nd)
            ck.check("C08.G3", p is None, f"_cancel_pending_requests: {meth}() only under `not <future>.done()`", f"{ctx.fkey(f)}:unguarded:{meth}",
                     f"_cancel_pending_requests: {meth}() is not guarded by `not done()`: a request that already timed out or was cancelled raises "
                     "InvalidStateError and the requests behind it are never failed", ctx.loc(f, m), cfg.render_path(p) if p else None)
    bad = None
    for b in body_entry:
        if b in fails:
            continue
        p = cfg.find_path(b, {h.id, cfg.exit.id}, avoid_nodes=fails, avoid_edges=done)
        if p is not None:
            bad = p
    ck.check("C08.G3", bad is None and n_fail >= 1, "_cancel_pending_requests: every snapshotted future that is not done is failed",
             f"{ctx.fkey(f)}:popped-not-failed", "_cancel_pending_requests skips a pending future of the snapshot without failing it: that request hangs",
             ctx.loc(f, h), cfg.render_path(bad) if bad else None)
    ck.stats["c08_cancel_fail_sites"] = n_fail
    return True


def _w1_order(ctx: Context) -> None:
    ck = ctx.ck
    T = ctx.terms
    enq = _enqueue(ctx, "C08.W1")
    if enq is None:
        return
    f, cfg, apps, fut, awaits = enq["f"], enq["cfg"], enq["apps"], enq["fut"], enq["awaits"]
    sites = {id(c) for _n, c in apps}
    in_loop = any(fr[0] == "loop" for n, _c in apps for fr in n.frames)
    ck.check(
        "C08.W1",
        len(sites) == 1 and not in_loop,
        "_send_lines: exactly one enqueue per request",
        f"{ctx.fkey(f)}:enqueue-count",
        f"_send_lines enqueues {len(sites)} time(s){' inside a loop' if in_loop else ''}: one request must own exactly one FIFO slot",
        ctx.loc(f, apps[0][0]),
    )
    fresh = fut[0] == "call" and fut[1][0] == "attr" and fut[1][2] == "create_future" and fut[4][0] == f.name
    ck.check(
        "C08.W1",
        fresh,
        "_send_lines: the enqueued value is a future created by this call (loop.create_future())",
        f"{ctx.fkey(f)}:enqueued-not-fresh",
        f"_send_lines enqueues {show(fut, 100)}, not a future created for this request",
        ctx.loc(f, apps[0][0]),
    )
    gate = []
    for n, _c in apps:
        gate += ctx.normal_out(cfg, n)
    for a in awaits:
        ctx.must_pass("C08.W1", cfg, a, f"{QUEUE}.append(<future>)", gate,
                      desc="_send_lines: the future is enqueued on every path before it is awaited")
    writes = []
    for n in cfg.nodes:
        for c, recv, meth in _mcalls(ctx, cfg, n):
            if meth in ("write", "writelines") and recv == _self_attr("transport") and n not in writes:
                writes.append(n)
    if not writes:
        ck.unknown("C08.W1", "_send_lines: no transport.write/writelines found (anchor vanished)", f.loc())
    susp = [n for n in cfg.nodes if _suspends(n)]
    for w in writes:
        ctx.must_pass("C08.W1", cfg, w, f"{QUEUE}.append(<future>)", gate,
                      desc="_send_lines: the future is enqueued on every path before the request is written")
        bad = None
        for s in susp:
            if s is w:
                continue
            for st in enq["starts"]:
                p1 = cfg.find_path(st, s.id)
                p2 = cfg.find_path(s.id, w.id) if p1 is not None else None
                if p1 is not None and p2 is not None and len(p2) > 1:
                    bad = p1 + p2[1:]
        ck.check(
            "C08.W1",
            bad is None,
            "_send_lines: no suspension point between the enqueue and the write (queue order = wire order)",
            f"{ctx.fkey(f)}:suspension-between-enqueue-and-write",
            "_send_lines can be suspended between enqueueing the future and writing the request: another request can be "
            "written first, so the FIFO order no longer matches the order on the wire",
            ctx.loc(f, w),
            cfg.render_path(bad) if bad else None,
        )
    # what the caller gets is the result of its own future
    rets = [n for n in cfg.nodes if n.kind == "return"]
    for r in rets:
        t = T.of(cfg, r, r.exprs[0]) if r.exprs else ("const", None)
        ck.check(
            "C08.W1",
            t == ("await", fut),
            "_send_lines returns the result of the future it enqueued",
            f"{ctx.fkey(f)}:returns-other-value",
            f"_send_lines returns {show(t, 100)} instead of the awaited result of its own future",
            ctx.loc(f, r),
        )
    if not rets:
        ck.unknown("C08.W1", "_send_lines has no return statement", f.loc())
    # the future is handed to nobody else
    parents = _parents(f.node)
    seen = set()
    for n in cfg.nodes:
        for e in n.exprs:
            if e is None:
                continue
            for sub in walk_expr(e):
                if id(sub) in seen or not isinstance(sub, (ast.Name, ast.Call)):
                    continue
                if isinstance(sub, ast.Name) and not isinstance(sub.ctx, ast.Load):
                    continue
                if T.of(cfg, n, sub) != fut:
                    continue
                seen.add(id(sub))
                p = parents.get(id(sub))
                ok = False
                if isinstance(p, ast.Await):
                    ok = True
                elif isinstance(p, (ast.Assign, ast.AnnAssign, ast.NamedExpr)) and p.value is sub:
                    tg = p.targets if isinstance(p, ast.Assign) else [p.target]
                    ok = all(isinstance(t, ast.Name) for t in tg)
                elif isinstance(p, ast.FormattedValue):
                    ok = True
                elif isinstance(p, ast.Call) and sub in p.args and isinstance(p.func, ast.Attribute):
                    recv = T.of(cfg, n, p.func.value)
                    if p.func.attr in LOG_METHODS and not _mentions_queue(recv):
                        ok = True
                    elif p.func.attr == "append" and _is_queue(recv):
                        ok = True
                    elif p.func.attr in ("call_at", "call_later") and len(p.args) >= 3 and sub in p.args[2:]:
                        th_ = _timeout_handler(ctx)
                        ok = th_ is not None and strip_sites(T.of(cfg, n, p.args[1])) == th_[2]
                if not ok:
                    ck.unknown("C08.W1", f"_send_lines: the request future is used in an unrecognised way (`{norm_stmt(n.text())}`): "
                               "who else may complete it is not tracked", ctx.loc(f, n))


# ---------------------------------------------------------------------- G1: attribution
def _kind_case(t) -> str | None:
    """``t`` is the kind of the response being completed: self.current_response.get_http_name()[.lower()/.upper()]"""
    case = "raw"
    if t[0] == "call" and t[1][0] == "attr" and t[1][2] in ("lower", "casefold", "upper") and not t[2]:
        case = "upper" if t[1][2] == "upper" else "lower"
        t = t[1][1]
    if _is_method_call(t, _self_attr("current_response"), "get_http_name") and not t[2]:
        return case
    return None


def _canon_kind(case: str, c) -> str | None:
    if not isinstance(c, str):
        return None
    if case == "lower":
        return c if c == c.lower() else None
    # raw / upper: the wire form is upper case ("HTTP/1.1", "EVENT/1.0")
    return c.lower() if c == c.upper() else None


def _kind_tests(ctx: Context, cfg):
    """Outcome edges of the response-kind tests -> ([(edge, frozenset(kinds implied))], [unrecognised test nodes])."""
    out, unrec = [], []

    def about_kind(s):
        return s[0] == "call" and s[1][0] == "attr" and s[1][2] == "get_http_name"

    for n, t, tl, fl in _tests(ctx, cfg):
        if not contains(t, about_kind):
            continue
        implied = None
        if t[0] == "cmp" and len(t[1]) == 1:
            op, (l, r) = t[1][0], t[2]
            if op in ("Eq", "NotEq"):
                for a, b in ((l, r), (r, l)):
                    case = _kind_case(a)
                    if case is not None and b[0] == "const":
                        k = _canon_kind(case, b[1])
                        if k is not None:
                            implied = (tl if op == "Eq" else fl, frozenset({k}))
            elif op in ("In", "NotIn"):
                case = _kind_case(l)
                if case is not None and r[0] in ("tuple", "list", "set") and r[1] and all(x[0] == "const" for x in r[1]):
                    ks = [_canon_kind(case, x[1]) for x in r[1]]
                    if all(k is not None for k in ks):
                        implied = (tl if op == "In" else fl, frozenset(ks))
        if implied is None:
            unrec.append(n)
            continue
        for e in ctx.edges(cfg, n, implied[0]):
            out.append((e, implied[1]))
    return out, unrec


def _g1(ctx: Context) -> None:
    ck = ctx.ck
    T = ctx.terms
    f = ctx.func(RECV)
    cfg = ctx.cfg(RECV)
    if not _queue_anchor(ctx, "C08.G1"):
        return
    outcomes, unrec = _kind_tests(ctx, cfg)
    for n in unrec:
        ck.unknown("C08.G1", f"data_received: test on the response kind has an unrecognised shape: {n.text()}", ctx.loc(f, n))
    http_edges = [e for e, ks in outcomes if ks <= {"http"}]
    event_edges = [e for e, ks in outcomes if ks <= {"event"}]
    handled_edges = [e for e, ks in outcomes if ks <= {"http", "event"}]
    current = _self_attr("current_response")
    # ---- pops
    pops = []
    for n in cfg.nodes:
        for c, recv, meth in _mcalls(ctx, cfg, n):
            if meth == "pop" and _is_queue(recv):
                pops.append((n, T.of(cfg, n, c)))
    if not pops:
        ck.violated("C08.G1", f"{ctx.fkey(f)}:no-dispatch", "data_received never takes a future from the FIFO: no response is ever "
                    "delivered to its request", f.loc())
    # exactly one FIFO slot per response: after a pop no further pop is reachable before the message is finished
    # (the response object is renewed / the next parse starts).  A response that consumes several slots - e.g. by
    # skipping waiters that already gave up - hands a later caller the answer to an earlier request.
    renew = {m.id for m in cfg.nodes if m.kind == "stmt" and isinstance(m.ast, ast.Assign) and any(
        strip_sites(T.of(cfg, m, tg)) == current for tg in m.ast.targets if isinstance(tg, ast.Attribute))}
    parses = {m.id for m in cfg.nodes for c, recv, meth in _mcalls(ctx, cfg, m) if meth == "parse"}
    pop_ids = {n.id for n, _p in pops}
    for n, popped in pops:
        again = None
        for e in ctx.normal_out(cfg, n):
            if e[1] in pop_ids:
                again = [(n.id, e[2], None), (e[1], None, None)]
                break
            pth = cfg.find_path(e[1], pop_ids, avoid_nodes=renew | parses)
            if pth is not None:
                again = [(n.id, e[2], None)] + pth
                break
        ck.check(
            "C08.G1",
            again is None,
            "data_received: one response consumes exactly one FIFO slot (no second pop before the message is finished)",
            f"{ctx.fkey(f)}:several-pops-per-response",
            "data_received can take more than one future from the FIFO for a single response (e.g. skipping waiters that are already done): "
            "the answer to an abandoned request is delivered to the NEXT caller, whose own answer then goes to the one after",
            ctx.loc(f, n),
            cfg.render_path(again) if again else None,
        )
    for n, popped in pops:
        ctx.must_pass("C08.G1", cfg, n, "response kind == 'http'", http_edges,
                      desc="data_received: a future is taken from the FIFO only for an 'http' response")
        # the popped future is completed (or was already done) before the dispatch goes on: never dropped
        setters = set()
        for m in cfg.nodes:
            for c, recv, meth in _mcalls(ctx, cfg, m):
                if meth == "set_result" and recv == popped:
                    setters.add(m.id)
        _nd, done = _done_edges(ctx, cfg, popped)
        stops = {cfg.exit.id} | _loop_heads(cfg, n)
        bad = None
        for e in ctx.normal_out(cfg, n):
            if e[1] in setters:
                continue
            p = cfg.find_path(e[1], stops, avoid_nodes=setters, avoid_edges=done)
            if p is not None:
                bad = p
        ck.check(
            "C08.G1",
            bad is None,
            "data_received: the future taken for a response is completed with it unless it is already done (never dropped)",
            f"{ctx.fkey(f)}:popped-future-dropped",
            "data_received: a path takes the oldest future from the FIFO and goes on without set_result although it is not done: "
            "that request never gets its response",
            ctx.loc(f, n),
            cfg.render_path(bad) if bad else None,
        )
    # ---- completions
    n_set = 0
    for n in cfg.nodes:
        for c, recv, meth in _mcalls(ctx, cfg, n):
            if meth not in COMPLETERS:
                continue
            is_popped = recv[0] == "call" and recv[1][0] == "attr" and recv[1][2] == "pop" and _is_queue(recv[1][1])
            if not is_popped:
                if _mentions_queue(recv):
                    ck.violated("C08.G1", f"{ctx.fkey(f)}:completes-queued-future:{meth}",
                                f"data_received: `{norm_stmt(n.text())}` completes a future that stays in the FIFO: the next response "
                                "would be given to a request that already has one", ctx.loc(f, n))
                elif meth != "cancel":
                    ck.unknown("C08.G1", f"data_received: `{norm_stmt(n.text())}` completes a future of unknown origin", ctx.loc(f, n))
                continue
            if meth != "set_result":
                ck.violated("C08.G1", f"{ctx.fkey(f)}:response-turned-into:{meth}",
                            f"data_received: the future of the oldest request is ended with {meth}() instead of the response", ctx.loc(f, n))
                continue
            n_set += 1
            ctx.must_pass("C08.G1", cfg, n, "response kind == 'http'", http_edges,
                          desc="data_received: set_result only for an 'http' response")
            nd, _d = _done_edges(ctx, cfg, recv)
            p = cfg.find_path(cfg.entry.id, n.id, avoid_edges=nd)
            ck.check(
                "C08.G1",
                p is None,
                "data_received: set_result only under `not <popped future>.done()`",
                f"{ctx.fkey(f)}:unguarded-set_result",
                "data_received: set_result on the popped future is not guarded by `not done()`: the late response of a request that "
                "timed out or was cancelled raises InvalidStateError inside the protocol callback",
                ctx.loc(f, n),
                cfg.render_path(p) if p else None,
            )
            arg = T.of(cfg, n, c.args[0]) if len(c.args) == 1 else ("unknown", "arity")
            ck.check(
                "C08.G1",
                arg == current,
                "data_received: the request is completed with the response just read (self.current_response)",
                f"{ctx.fkey(f)}:set_result-argument",
                f"data_received: set_result is given {show(arg, 80)}, not the response whose kind was tested",
                ctx.loc(f, n),
            )
    # ---- events
    events = []
    for n in cfg.nodes:
        for c, recv, meth in _mcalls(ctx, cfg, n):
            if meth == "event_received":
                events.append((n, c, recv))
    if not events and f"{HC}.event_received" not in ctx.prog.functions:
        ck.unknown("C08.G1", "anchor vanished: HomeKitConnection.event_received", f.loc())
    elif not events:
        ck.violated("C08.G1", f"{ctx.fkey(f)}:events-not-delivered", "data_received never calls event_received: EVENT messages do not "
                    "reach the listeners", f.loc())
    for n, c, recv in events:
        ctx.must_pass("C08.G1", cfg, n, "response kind == 'event'", event_edges,
                      desc="data_received: event_received only for an 'event' message")
        arg = T.of(cfg, n, c.args[0]) if len(c.args) == 1 else ("unknown", "arity")
        ck.check(
            "C08.G1",
            recv == _self_attr("connection") and arg == current,
            "data_received: the event handed to the connection is the message just read",
            f"{ctx.fkey(f)}:event-argument",
            f"data_received: event_received is called on {show(recv, 60)} with {show(arg, 80)}",
            ctx.loc(f, n),
        )
    # ---- a dispatched message is finished: the parser object is renewed before the next round / the return.  A complete
    # response that stays in self.current_response (e.g. "nobody is waiting, ignore it and continue") is handed to the
    # NEXT request, whose own answer then goes to the one after: every later request is off by one.
    for e in handled_edges:
        hn = cfg.nodes[e[0]]
        stops = {cfg.exit.id} | _loop_heads(cfg, hn)
        p = cfg.find_path(e[1], stops, avoid_nodes=renew) if e[1] not in renew else None
        ck.check(
            "C08.G1",
            p is None,
            "data_received: after a complete message was dispatched the response object is renewed on every path to the next round",
            f"{ctx.fkey(f)}:message-not-consumed",
            "data_received: a path leaves a complete message in self.current_response (no renewal before the next round / return): the "
            "stale response is delivered to the next request, and each later request receives its predecessor's answer",
            ctx.loc(f, hn),
            cfg.render_path([(e[0], e[2], e[3])] + p) if p else None,
        )
    # ---- anything else raises
    tests = sorted({e[0] for e, _ks in outcomes})
    for nid in tests:
        n = cfg.nodes[nid]
        stops = {cfg.exit.id} | _loop_heads(cfg, n)
        p = cfg.find_path(nid, stops, avoid_edges=handled_edges)
        ck.check(
            "C08.G1",
            p is None,
            f"data_received: from {n.text()} a message that is neither 'http' nor 'event' can only raise",
            f"{ctx.fkey(f)}:unknown-kind-falls-through",
            "data_received: a message of another kind is silently consumed (dispatch continues without raising)",
            ctx.loc(f, n),
            cfg.render_path(p) if p else None,
        )
    _require_min(ctx, "C08.G1", "set_result sites on the popped future", n_set, 1)
    _require_min(ctx, "C08.G1", "recognised response-kind tests", len(tests), 2)


# ---------------------------------------------------------------------- G2: abandon on any failure
def _isinstance_infeasible(ctx: Context, cfg, cls: str) -> list:
    """Outcome edges of ``isinstance(<caught>, K)`` that an exception of class ``cls`` cannot take."""
    prog = ctx.prog
    bad = []
    for n, t, tl, fl in _tests(ctx, cfg):
        if not (t[0] == "call" and t[1] == ("glob", "isinstance") and len(t[2]) == 2 and t[2][0][0] == "caught"):
            continue
        k = t[2][1]
        ks = list(k[1]) if k[0] == "tuple" else [k]
        if not all(x[0] == "glob" for x in ks):
            continue
        names = [EXC_ALIASES.get(x[1], x[1]) for x in ks]
        if any(prog.is_subclass(cls, nm) for nm in names):
            bad += ctx.edges(cfg, n, fl)
        elif not any(prog.is_subclass(nm, cls) for nm in names):
            bad += ctx.edges(cfg, n, tl)
    return bad


def _leaves_as(ctx: Context, cfg, src, cls: str) -> tuple[set, bool, set]:
    """What happens to an exception of class ``cls`` raised at node ``src``: (classes leaving the function,
    normal exit reachable, nodes on the way).  A bare ``raise`` / ``raise <caught>`` re-raises ``cls`` itself."""
    T = ctx.terms
    infeasible = set(_isinstance_infeasible(ctx, cfg, cls))
    reraise = set()
    for n in cfg.nodes:
        if n.kind == "raise":
            if n.ast.exc is None or T.of(cfg, n, n.ast.exc)[0] == "caught":
                reraise.add(n.id)

    def ok(u, d, l, e):
        if (u, d, l, e) in infeasible:
            return False
        if u in reraise and l == "x" and e != cls:
            return False
        return True

    starts = [d for (d, l, e) in src.succ if l == "x" and e == cls]
    seen = _reach(cfg, starts, ok)
    leaves = set()
    for s, l, e in cfg.xexit.pred:
        if s in seen and l == "x" and ok(s, cfg.xexit.id, l, e):
            leaves.add(e)
    return leaves, cfg.exit.id in seen, seen


def _g2(ctx: Context) -> None:
    ck = ctx.ck
    T = ctx.terms
    prog = ctx.prog
    enq = _enqueue(ctx, "C08.G2")
    if enq is None:
        return
    f, cfg, fut, awaits, starts = enq["f"], enq["cfg"], enq["fut"], enq["awaits"], enq["starts"]
    transport = _self_attr("transport")
    closes = set()
    uses_transport = False
    for n in cfg.nodes:
        for c, recv, meth in _mcalls(ctx, cfg, n):
            uses_transport |= recv == transport
            if meth in ("close", "abort") and recv == transport:
                closes.add(n.id)
    if not uses_transport:
        ck.unknown("C08.G2", "_send_lines: no call on self.transport found (anchor vanished)", f.loc())
        return
    # (a) every exceptional exit after the enqueue passes transport.close(), per escaping class
    classes = sorted({e for (s, l, e) in cfg.xexit.pred if l == "x"
                      and any(s in cfg.reachable_from(st) | {st} for st in starts)})
    for exc in classes:
        bad = None
        for st in starts:
            if st in closes:
                continue
            p = cfg.find_path(
                st,
                cfg.xexit.id,
                avoid_nodes=closes,
                edge_ok=lambda u, d, l, e, _x=exc: not (d == cfg.xexit.id and e != _x),
            )
            if p is not None:
                bad = p
        short = exc.rsplit(".", 1)[-1]
        ck.check(
            "C08.G2",
            bad is None,
            f"_send_lines: every exit raising {short} after the enqueue passes transport.close()",
            f"{ctx.fkey(f)}:exit-without-close:{short}",
            f"_send_lines: a request that fails with {short} after its future was enqueued leaves the connection open: the "
            "abandoned future stays in the FIFO and the late response is matched to the wrong request",
            f.loc(),
            cfg.render_path(bad) if bad else None,
        )
    _require_min(ctx, "C08.G2", "exception classes leaving _send_lines after the enqueue (timeout, cancellation, disconnection)",
                   len(classes), 2)
    ck.check(
        "C08.G2",
        CANCELLED in classes,
        "_send_lines: cancellation of the caller is modelled at the await (CancelledError edge present)",
        f"{ctx.fkey(f)}:cancellation-swallowed",
        "_send_lines: CancelledError does not leave the function: the caller's cancellation is swallowed",
        f.loc(),
    )
    # (b) the only normal exit is the completed await
    done_edges = []
    for a in awaits:
        done_edges += ctx.normal_out(cfg, a)
    bad = None
    for st in starts:
        p = cfg.find_path(st, cfg.exit.id, avoid_edges=done_edges)
        if p is not None:
            bad = p
    ck.check(
        "C08.G2",
        bad is None,
        "_send_lines: a normal exit is reached only through the completed await (no handler falls through)",
        f"{ctx.fkey(f)}:failure-returns-normally",
        "_send_lines can return normally without a response (a handler swallows the failure)",
        f.loc(),
        cfg.render_path(bad) if bad else None,
    )
    # (c) the timer and its callback
    th = _timeout_handler(ctx)
    if th is None:
        ck.unknown("C08.G2", "_send_lines: the callable the timeout timer is armed with is not a method or module-level function that takes the future (a closure?): "
                             "what the timer does to the request is not decided", f.loc())
        return
    tf = ctx.func(th[0])
    tcfg = ctx.cfg(th[0])
    timers = []
    for n in cfg.nodes:
        for c, recv, meth in _mcalls(ctx, cfg, n):
            if meth in ("call_at", "call_later") and len(c.args) >= 2 and strip_sites(T.of(cfg, n, c.args[1])) == th[2]:
                timers.append((n, c, recv, meth))
    if not timers:
        ck.violated("C08.G2", f"{ctx.fkey(f)}:no-timer", "_send_lines arms no timer with _handle_timeout: a lost response leaves "
                    "the request waiting forever", f.loc())
    armed = []
    for n, c, recv, meth in timers:
        when = T.of(cfg, n, c.args[0])
        delay = None
        if meth == "call_later" and when[0] == "const":
            delay = when[1]
        elif meth == "call_at" and when[0] == "add" and len(when[1]) == 2:
            base, k = when[1]
            if k[0] != "const":
                base, k = k, base
            if k[0] == "const" and _is_method_call(base, recv, "time") and not base[2]:
                delay = k[1]
        args = [T.of(cfg, n, a) for a in c.args[2:]]
        if delay is None:
            ck.unknown("C08.G2", f"_send_lines: timer deadline has an unrecognised shape: {show(when, 100)}", ctx.loc(f, n))
            continue
        ck.check(
            "C08.G2",
            isinstance(delay, (int, float)) and not isinstance(delay, bool) and delay == TIMEOUT_S,
            f"_send_lines: the timer fires {TIMEOUT_S} s after the request (loop time + constant)",
            f"{ctx.fkey(f)}:timeout-constant",
            f"_send_lines: the timeout is {delay!r} s, the property demands a positive {TIMEOUT_S} s",
            ctx.loc(f, n),
        )
        ck.check(
            "C08.G2",
            args == [fut] and not c.keywords,
            "_send_lines: the timer callback receives the future of this request",
            f"{ctx.fkey(f)}:timer-argument",
            f"_send_lines: _handle_timeout is armed with {[show(a, 60) for a in args]}, not with the enqueued future",
            ctx.loc(f, n),
        )
        armed += ctx.normal_out(cfg, n)
    if timers:
        for a in awaits:
            ctx.must_pass("C08.G2", cfg, a, "loop.call_at(.., self._handle_timeout, <future>)", armed,
                          desc="_send_lines: the timeout timer is armed on every path before the await")
    # _handle_timeout: only fails a not-done future
    tparams = tf.pos_params
    timeout_classes = set()
    if len(tparams) < th[1] + 1:
        ck.unknown("C08.G2", "_handle_timeout no longer takes the future as its parameter", tf.loc())
    else:
        pf = ("param", tparams[th[1]])
        nd, done = _done_edges(ctx, tcfg, pf)
        fails = set()
        for n in tcfg.nodes:
            for c, recv, meth in _mcalls(ctx, tcfg, n):
                if meth not in COMPLETERS:
                    continue
                if recv != pf:
                    ck.unknown("C08.G2", f"_handle_timeout: `{norm_stmt(n.text())}` completes something other than its argument",
                               ctx.loc(tf, n))
                    continue
                if meth == "set_result":
                    ck.violated("C08.G2", f"{ctx.fkey(tf)}:timeout-sets-result", "_handle_timeout completes the request with a "
                                "result instead of failing it", ctx.loc(tf, n))
                    continue
                p = tcfg.find_path(tcfg.entry.id, n.id, avoid_edges=nd)
                ck.check(
                    "C08.G2",
                    p is None,
                    f"_handle_timeout: {meth}() only under `not fut.done()`",
                    f"{ctx.fkey(tf)}:unguarded:{meth}",
                    f"_handle_timeout: {meth}() is not guarded by `not done()`: a timer firing for an answered request raises "
                    "InvalidStateError in the event loop",
                    ctx.loc(tf, n),
                    tcfg.render_path(p) if p else None,
                )
                if meth == "set_exception":
                    fails.add(n.id)
                    cls = _exc_class(ctx, tcfg, n, c.args[0] if c.args else None)
                    if cls is None or not prog.known_class(cls):
                        ck.unknown("C08.G2", f"_handle_timeout: cannot resolve the exception class in `{norm_stmt(n.text())}`", ctx.loc(tf, n))
                    else:
                        timeout_classes.add(cls)
                else:
                    fails.add(n.id)
                    timeout_classes.add(CANCELLED)
        p = tcfg.find_path(tcfg.entry.id, tcfg.exit.id, avoid_nodes=fails, avoid_edges=done)
        ck.check(
            "C08.G2",
            p is None and bool(fails),
            "_handle_timeout: a future that is not done is failed on every path",
            f"{ctx.fkey(tf)}:timeout-does-not-fail",
            "_handle_timeout can return without failing a pending future: the request keeps waiting after the timeout",
            tf.loc(),
            tcfg.render_path(p) if p else None,
        )
    # (d) what the timeout class turns into on its way out of _send_lines
    for cls in sorted(timeout_classes):
        short = cls.rsplit(".", 1)[-1]
        for a in awaits:
            if not any(l == "x" and e == cls for (_d, l, e) in a.succ):
                ck.unknown("C08.G2", f"_send_lines: the await has no exception edge for {short} set by _handle_timeout "
                           "(exception model incomplete)", ctx.loc(f, a))
                continue
            leaves, normal, seen = _leaves_as(ctx, cfg, a, cls)
            ok = bool(leaves) and not normal and all(prog.is_subclass(x, ADE) for x in leaves)
            wit = None
            if not ok:
                tgt = [s for (s, l, e) in cfg.xexit.pred if s in seen and l == "x" and not prog.is_subclass(e, ADE)]
                p = cfg.find_path(a.id, set(tgt) | ({cfg.exit.id} if normal else set()))
                wit = cfg.render_path(p) if p else None
            ck.check(
                "C08.G2",
                ok,
                f"_send_lines: {short} set by the timer leaves only as AccessoryDisconnectedError",
                f"{ctx.fkey(f)}:timeout-not-translated",
                f"_send_lines: a timeout ({short}) leaves as {sorted(x.rsplit('.', 1)[-1] for x in leaves)}"
                f"{' or returns normally' if normal else ''}, not as AccessoryDisconnectedError",
                ctx.loc(f, a),
                wit,
            )
        ck.stats.setdefault("c08_send_lines_class_flow", {})[short] = sorted(
            x.rsplit(".", 1)[-1] for a in awaits for x in _leaves_as(ctx, cfg, a, cls)[0]
        )
    for a in awaits:
        for cls in sorted({e for (_d, l, e) in a.succ if l == "x"} - timeout_classes):
            ck.stats.setdefault("c08_send_lines_class_flow", {})[cls.rsplit(".", 1)[-1]] = sorted(
                x.rsplit(".", 1)[-1] for x in _leaves_as(ctx, cfg, a, cls)[0]
            )
    # (e) a closing transport is refused before anything is enqueued
    refuse_pass, refuse_fail = [], []
    for n, t, tl, fl in _tests(ctx, cfg):
        if _is_method_call(t, transport, "is_closing") and not t[2]:
            refuse_pass += ctx.edges(cfg, n, fl)
            refuse_fail += ctx.edges(cfg, n, tl)
    for n, _c in enq["apps"]:
        ctx.must_pass("C08.G2", cfg, n, "transport.is_closing() [false outcome]", refuse_pass,
                      desc="_send_lines: nothing is enqueued on a closing transport")
    for e in refuse_fail:
        ok, cl = _always_raises(cfg, e)
        ck.check(
            "C08.G2",
            ok and cl == {ADE},
            "_send_lines: a closing transport is refused with AccessoryDisconnectedError",
            f"{ctx.fkey(f)}:closing-transport-not-refused",
            f"_send_lines: on a closing transport the request is not refused with AccessoryDisconnectedError (raises "
            f"{sorted(x.rsplit('.', 1)[-1] for x in cl)}, continues: {not ok})",
            ctx.loc(f, cfg.nodes[e[0]]),
        )


# ---------------------------------------------------------------------- G3: nobody hangs
def _must_cancel(ctx: Context, q: str, memo: dict, depth: int = 0):
    """Does every path of ``q`` to any exit (normal or exceptional) call _cancel_pending_requests?
    -> (bool, witness path, cfg, nodes that certainly cancel)"""
    if q == CANCEL:
        return (True, None, None, set())
    if q in memo:
        return memo[q]
    memo[q] = (False, None, None, set())  # cycles do not help
    g = ctx.prog.functions.get(q)
    if g is None or g.is_async or g.is_generator or depth > 6:
        return memo[q]
    cfg = ctx.cfg(q)
    via = set()
    for n in cfg.nodes:
        if n.kind not in ("stmt", "return", "test"):
            continue
        for e in n.exprs:
            if e is None:
                continue
            for c in _unconditional_calls(e):
                names = ctx.callee_names(g, c)
                if names and all(nm in ctx.prog.functions and _must_cancel(ctx, nm, memo, depth + 1)[0] for nm in names):
                    via.add(n.id)
    p = cfg.find_path(cfg.entry.id, {cfg.exit.id, cfg.xexit.id}, avoid_nodes=via)
    memo[q] = (p is None, p, cfg, via)
    return memo[q]


def _connection_calls(ctx: Context, g, via: set) -> None:
    """Calls ``self.connection.<m>(..)`` made before the pending requests are cancelled.  The receiver is typed only by a
    parameter annotation, which the engine's resolver does not follow, so these calls carry no exception edges; here they
    are resolved by name in HomeKitConnection (and its subclasses) and must have an Exception-free escape set."""
    ck = ctx.ck
    prog = ctx.prog
    cfg = ctx.cfg(g.qualname)
    for n in cfg.nodes:
        for c, recv, meth in _mcalls(ctx, cfg, n):
            if recv != _self_attr("connection"):
                continue
            if n.id in via or cfg.find_path(cfg.entry.id, n.id, avoid_nodes=via) is None:
                continue  # only reached after the cancel
            targets = []
            base = prog.lookup_method(HC, meth)
            if base is not None:
                targets.append(base.qualname)
            for sc in sorted(prog.subclasses(HC)):
                m = prog.classes[sc].methods.get(meth)
                if m is not None:
                    targets.append(m.qualname)
            if not targets:
                ck.unknown("C08.G3", f"{_short(g.qualname)}: cannot resolve self.connection.{meth}() in HomeKitConnection", ctx.loc(g, n))
                continue
            esc = sorted({e for q in targets for e in ctx.flow.esc(q) if prog.is_subclass(e, "Exception") or not prog.known_class(e)})
            if esc:
                ck.unknown("C08.G3", f"{_short(g.qualname)}: self.connection.{meth}() can raise {esc} before the pending requests are "
                           "cancelled and that exception edge is not modelled", ctx.loc(g, n))
            else:
                ck.holds("C08.G3", f"{_short(g.qualname)}: self.connection.{meth}(), called before the cancel, has an Exception-free "
                         f"escape set ({', '.join(_short(q) for q in targets)})", ctx.loc(g, n))


def _g3(ctx: Context) -> None:
    ck = ctx.ck
    T = ctx.terms
    prog = ctx.prog
    ctx.func(f"{PROTO}.connection_lost")
    ctx.func(f"{PROTO}.eof_received")
    ctx.func(CANCEL)
    if not _queue_anchor(ctx, "C08.G3"):
        return
    memo: dict = {}
    n_entry = 0
    for cls in _proto_family(ctx):
        for name in ("connection_lost", "eof_received"):
            g = prog.classes[cls].methods.get(name)
            if g is None:
                continue
            n_entry += 1
            ok, p, pcfg, via = _must_cancel(ctx, g.qualname, memo)
            _connection_calls(ctx, g, via)
            ck.check(
                "C08.G3",
                ok,
                f"{_short(g.qualname)}: every path to every exit passes _cancel_pending_requests() (through calls)",
                f"{ctx.fkey(g)}:pending-not-cancelled",
                f"{_short(g.qualname)} can finish without _cancel_pending_requests(): requests waiting on this connection hang "
                "until their own timeout",
                g.loc(),
                pcfg.render_path(p) if (p and pcfg) else None,
            )
            if name == "eof_received":
                cfg = ctx.cfg(g.qualname)
                for r in [n for n in cfg.nodes if n.kind == "return"]:
                    t = T.of(cfg, r, r.exprs[0]) if r.exprs else ("const", None)
                    ck.check(
                        "C08.G3",
                        t[0] == "const" and not t[1],
                        f"{_short(g.qualname)} returns a false value: asyncio closes the transport after EOF",
                        f"{ctx.fkey(g)}:eof-keeps-transport-open",
                        f"{_short(g.qualname)} returns {show(t, 60)}: the half-closed transport stays open, later requests are "
                        "written to a peer that is gone",
                        ctx.loc(g, r),
                    )
    _require_min(ctx, "C08.G3", "connection_lost/eof_received implementations in the protocol family", n_entry, 2)
    # ---- _cancel_pending_requests itself
    overrides = [c for c in _proto_family(ctx)[1:] if "_cancel_pending_requests" in prog.classes[c].methods]
    for c in overrides:
        g = prog.classes[c].methods["_cancel_pending_requests"]
        ok, p, pcfg, _via = _must_cancel(ctx, g.qualname, memo)
        ck.check("C08.G3", ok, f"{_short(g.qualname)}: the override reaches the base implementation on every path",
                 f"{ctx.fkey(g)}:override-skips-base", f"{_short(g.qualname)} overrides _cancel_pending_requests without always "
                 "calling the base implementation", g.loc(), pcfg.render_path(p) if (p and pcfg) else None)
    f = ctx.func(CANCEL)
    cfg = ctx.cfg(CANCEL)
    queue = _self_attr(QUEUE)
    if _cancel_snapshot_form(ctx, f, cfg):
        return
    empty, nonempty = [], []
    for n, t, tl, fl in _tests(ctx, cfg):
        if t == queue or (t[0] == "call" and t[1] in (("glob", "len"), ("glob", "bool")) and t[2] == (queue,) and not t[3]):
            empty += ctx.edges(cfg, n, fl)
            nonempty += ctx.edges(cfg, n, tl)
        elif t[0] == "cmp" and len(t[1]) == 1 and t[2][1] == ("const", 0) and t[2][0][0] == "call" \
                and t[2][0][1] == ("glob", "len") and t[2][0][2] == (queue,):
            op = t[1][0]
            if op in ("Eq", "LtE"):
                empty += ctx.edges(cfg, n, tl)
                nonempty += ctx.edges(cfg, n, fl)
            elif op in ("NotEq", "Gt"):
                empty += ctx.edges(cfg, n, fl)
                nonempty += ctx.edges(cfg, n, tl)
    ctx.must_pass("C08.G3", cfg, cfg.exit, f"`{QUEUE}` is empty [outcome of the emptiness test]", empty,
                  desc="_cancel_pending_requests returns only through the outcome 'the FIFO is empty'")
    esc = sorted(ctx.flow.esc(CANCEL))
    ck.check("C08.G3", not esc, "_cancel_pending_requests: empty escape set (it cannot stop half-way with an exception)",
             f"{ctx.fkey(f)}:escapes", f"_cancel_pending_requests can raise {esc}: the remaining requests are never failed", f.loc())
    pops = []
    for n in cfg.nodes:
        for c, recv, meth in _mcalls(ctx, cfg, n):
            if meth == "pop" and _is_queue(recv):
                pops.append((n, T.of(cfg, n, c)))
    if not pops:
        ck.unknown("C08.G3", "_cancel_pending_requests: no pop from the FIFO found (shape not recognised)", f.loc())
    pop_ids = {n.id for n, _t in pops}
    n_fail = 0
    for n, popped in pops:
        ctx.must_pass("C08.G3", cfg, n, f"`{QUEUE}` is not empty", nonempty,
                      desc="_cancel_pending_requests: pop only under the outcome 'the FIFO is not empty' (no IndexError)")
        again = None
        for e in ctx.normal_out(cfg, n):
            p = cfg.find_path(e[1], pop_ids, avoid_edges=nonempty)
            if p is not None:
                again = p
        ck.check("C08.G3", again is None, "_cancel_pending_requests: the emptiness test is repeated before every further pop",
                 f"{ctx.fkey(f)}:pop-without-retest", "_cancel_pending_requests pops again without testing that the FIFO is not empty",
                 ctx.loc(f, n), cfg.render_path(again) if again else None)
        nd, done = _done_edges(ctx, cfg, popped)
        fails = set()
        for m in cfg.nodes:
            for c, recv, meth in _mcalls(ctx, cfg, m):
                if meth not in COMPLETERS or recv != popped:
                    continue
                cls = _exc_class(ctx, cfg, m, c.args[0] if c.args else None) if meth == "set_exception" else None
                good = meth == "set_exception" and cls is not None and prog.is_subclass(cls, ADE)
                ck.check(
                    "C08.G3",
                    good,
                    "_cancel_pending_requests fails the pending request with AccessoryDisconnectedError",
                    f"{ctx.fkey(f)}:wrong-completion:{meth}",
                    f"_cancel_pending_requests ends a pending request with `{norm_stmt(m.text())}`, not with a disconnection error",
                    ctx.loc(f, m),
                )
                if good:
                    fails.add(m.id)
                    n_fail += 1
                p = cfg.find_path(cfg.entry.id, m.id, avoid_edges=nd)
                ck.check(
                    "C08.G3",
                    p is None,
                    f"_cancel_pending_requests: {meth}() only under `not <popped future>.done()`",
                    f"{ctx.fkey(f)}:unguarded:{meth}",
                    f"_cancel_pending_requests: {meth}() is not guarded by `not done()`: a request that already timed out or was "
                    "cancelled raises InvalidStateError and the requests behind it are never failed",
                    ctx.loc(f, m),
                    cfg.render_path(p) if p else None,
                )
        stops = {cfg.exit.id} | _loop_heads(cfg, n) | (pop_ids - {n.id})
        bad = None
        for e in ctx.normal_out(cfg, n):
            if e[1] in fails:
                continue
            p = cfg.find_path(e[1], stops, avoid_nodes=fails, avoid_edges=done)
            if p is not None:
                bad = p
        ck.check(
            "C08.G3",
            bad is None,
            "_cancel_pending_requests: every popped future that is not done is failed before the loop goes on",
            f"{ctx.fkey(f)}:popped-not-failed",
            "_cancel_pending_requests removes a pending future from the FIFO without failing it: that request hangs",
            ctx.loc(f, n),
            cfg.render_path(bad) if bad else None,
        )
    ck.stats["c08_cancel_fail_sites"] = n_fail


# ---------------------------------------------------------------------- G4: request()
def _g4(ctx: Context) -> None:
    ck = ctx.ck
    T = ctx.terms
    prog = ctx.prog
    f = ctx.func(REQUEST)
    cfg = ctx.cfg(REQUEST)
    protocol = _self_attr("protocol")
    limit = _self_attr("_concurrency_limit")
    sends = []
    for n in cfg.nodes:
        for e in n.exprs:
            if e is None:
                continue
            for sub in walk_expr(e):
                if isinstance(sub, ast.Await) and isinstance(sub.value, ast.Call) and isinstance(sub.value.func, ast.Attribute) \
                        and sub.value.func.attr == "send_bytes" and T.of(cfg, n, sub.value.func.value) == protocol:
                    if n not in [s for s, _c in sends]:
                        sends.append((n, sub))
    if not sends:
        ck.unknown("C08.G4", "request(): `await self.protocol.send_bytes(..)` not found (anchor vanished)", f.loc())
        return
    # gate: protocol is set
    set_edges, unset_edges = [], []
    for n, t, tl, fl in _tests(ctx, cfg):
        if t == protocol:
            set_edges += ctx.edges(cfg, n, tl)
            unset_edges += ctx.edges(cfg, n, fl)
        elif t[0] == "cmp" and t[1] in (("Is",), ("IsNot",)) and t[2] == (protocol, ("const", None)):
            pos = t[1] == ("IsNot",)
            set_edges += ctx.edges(cfg, n, tl if pos else fl)
            unset_edges += ctx.edges(cfg, n, fl if pos else tl)
    n_gates = len({e[0] for e in set_edges})
    for e in unset_edges:
        ok, cl = _always_raises(cfg, e)
        ck.check(
            "C08.G4",
            ok and cl == {ADE},
            "request(): with no protocol the request can only raise AccessoryDisconnectedError",
            f"{ctx.fkey(f)}:unset-protocol-outcome",
            f"request(): the `protocol is unset` outcome raises {sorted(x.rsplit('.', 1)[-1] for x in cl)} / continues: {not ok}",
            ctx.loc(f, cfg.nodes[e[0]]),
        )
    # the semaphore
    withs = []
    for n in cfg.nodes:
        if n.kind == "with_enter" and isinstance(n.ast, ast.AsyncWith) and any(T.of(cfg, n, e) == limit for e in n.exprs):
            withs.append(n)
    writers = []
    for m in prog.modules.values():
        if m.name in EXCLUDED_MODULES or "_concurrency_limit" not in m.source:
            continue
        parents = _parents(m.tree)
        for n in ast.walk(m.tree):
            if isinstance(n, ast.Attribute) and n.attr == "_concurrency_limit" and isinstance(n.ctx, (ast.Store, ast.Del)):
                fn = _enclosing_func(n, parents)
                g = prog.func_of_node.get(id(fn))
                writers.append(g.qualname if g is not None else f"{m.name}:<module>")
    if not writers:
        ck.unknown("C08.G4", "state anchor vanished: HomeKitConnection._concurrency_limit is assigned nowhere", f.loc())
        return
    types = ctx.res.attr_type(HC, "_concurrency_limit")
    if not types:
        ck.unknown("C08.G4", "HomeKitConnection._concurrency_limit: type of the assigned value not resolved", f.loc())
    else:
        ck.check(
            "C08.G4",
            types <= SEMAPHORES,
            "HomeKitConnection._concurrency_limit is an asyncio.Semaphore",
            f"{HC}:_concurrency_limit-type",
            f"HomeKitConnection._concurrency_limit is {sorted(types)}, not an asyncio.Semaphore",
            f.loc(),
        )
    ck.check(
        "C08.G4",
        writers == [f"{HC}.__init__"],
        "_concurrency_limit is assigned once, in HomeKitConnection.__init__",
        f"{HC}:_concurrency_limit-writers",
        f"_concurrency_limit is assigned in {writers}: the semaphore can be replaced while requests hold it",
        f.loc(),
    )
    # the same critical section written out: `await limit.acquire()` ... `limit.release()` on every way out
    acquires, releases = [], []
    for n in cfg.nodes:
        for c in ctx.calls(n):
            if isinstance(c.func, ast.Attribute) and c.func.attr in ("acquire", "release") and not c.args and T.of(cfg, n, c.func.value) == limit:
                (acquires if c.func.attr == "acquire" else releases).append(n)
    rel_ids = {n.id for n in releases}
    for s, aw in sends:
        inside = [w for w in withs if cfg.in_region(s, "with", w.ast, "body")]
        if not inside and acquires:
            acq_edges = [e for a in acquires for e in ctx.normal_out(cfg, a)]
            # taken on every path to the send, and not given back in between
            held = cfg.find_path(cfg.entry.id, s.id, avoid_edges=acq_edges) is None and not any(
                r in cfg.reachable_from(a.id) and s.id in cfg.reachable_from(r) for a in acquires for r in rel_ids)
            # once taken it is given back on EVERY way out - from the moment acquire() returned, not only from the send on
            # (a `not connected` test between acquire() and the try block leaks the slot on that path)
            leak = None
            for a_ in acquires:
                for e_ in ctx.normal_out(cfg, a_):
                    if e_[1] in rel_ids:
                        continue
                    leak = leak or cfg.find_path(e_[1], {cfg.exit.id, cfg.xexit.id}, avoid_nodes=rel_ids)
            ck.check(
                "C08.G4",
                held and leak is None,
                "request(): the send lies between `await self._concurrency_limit.acquire()` and a `release()` that every way out passes",
                f"{ctx.fkey(f)}:send-outside-semaphore",
                "request(): the semaphore is " + ("not held at the send" if not held else "not released on every way out once it was taken: later requests hang"),
                ctx.loc(f, s),
                cfg.render_path(leak) if leak else None,
            )
            inside = list(acquires) if held and leak is None else []
            if not inside:
                continue
        ck.check(
            "C08.G4",
            bool(inside),
            "request(): the send lies inside `async with self._concurrency_limit`",
            f"{ctx.fkey(f)}:send-outside-semaphore",
            "request(): `await self.protocol.send_bytes(..)` is not inside `async with self._concurrency_limit`",
            ctx.loc(f, s),
        )
        # after every suspension point (taking the semaphore is one) the protocol is tested again before the send
        susp = [n for n in cfg.nodes if _suspends(n) and n is not s and s.id in cfg.reachable_from(n.id)]
        for w in inside:
            if w not in susp:
                susp.append(w)
        for sp in susp:
            ctx.must_pass(
                "C08.G4", cfg, s, "`self.protocol` is set", set_edges, start=sp.id,
                desc=f"request(): between `{sp.text()[:60]}` (suspension point) and the send the protocol is tested again",
            )
        ctx.must_pass("C08.G4", cfg, s, "`self.protocol` is set", set_edges,
                      desc="request(): the send is reached only with a protocol")
    for w in withs + acquires:
        ctx.must_pass("C08.G4", cfg, w, "`self.protocol` is set", set_edges,
                      desc="request(): without a protocol the request is refused before waiting for the semaphore")
    if not withs and not acquires:
        ck.violated("C08.G4", f"{ctx.fkey(f)}:no-semaphore", "request() does not enter `async with self._concurrency_limit`", f.loc())
    # request() returns the reply of its own send
    replies = {("await", T.of(cfg, s, aw.value)) for s, aw in sends}
    for r in [n for n in cfg.nodes if n.kind == "return"]:
        t = T.of(cfg, r, r.exprs[0]) if r.exprs else ("const", None)
        ck.check(
            "C08.G4",
            t in replies,
            "request() returns the reply awaited from its own send",
            f"{ctx.fkey(f)}:returns-other-value",
            f"request() returns {show(t, 100)}, not the reply of its own send",
            ctx.loc(f, r),
        )
    _require_min(ctx, "C08.G4", "`protocol is set` tests in request() (before and inside the semaphore)", n_gates, 2)


# ---------------------------------------------------------------------- thorough: package-wide sweeps
def run_thorough(ctx: Context) -> None:
    ck = ctx.ck
    prog = ctx.prog
    T = ctx.terms
    if not ck.rule("C08.S1", "sweep: every completion of a future in the IP transport and every sender in the package"):
        return
    family = set(_proto_family(ctx))
    th_ = _timeout_handler(ctx)
    known = {(RECV, "set_result"), (th_[0] if th_ else ON_TIMEOUT, "set_exception"), (CANCEL, "set_exception")}
    n_sites = 0
    for g in prog.package_functions():
        if isinstance(g.node, ast.Lambda) or not g.module.name.startswith("aiohomekit.controller.ip"):
            continue
        owner = g
        while owner.parent is not None:
            owner = owner.parent
        in_family = owner.cls is not None and owner.cls.qualname in family
        cfg = ctx.cfg(g.qualname)
        done_calls = set()
        for n in cfg.nodes:
            for c, recv, meth in _mcalls(ctx, cfg, n):
                if meth not in COMPLETERS or id(c) in done_calls:
                    continue
                done_calls.add(id(c))
                n_sites += 1
                timer = recv[0] == "call" and recv[1][0] == "attr" and recv[1][2] in ("call_at", "call_later")
                if in_family:
                    ok = (g.qualname, meth) in known or (meth == "cancel" and timer)
                else:
                    ok = not _mentions_queue(recv)
                ck.check(
                    "C08.S1",
                    ok,
                    f"{_short(g.qualname)}: `{norm_stmt(n.text())[:70]}` is a known completion site or not a request future",
                    f"{ctx.fkey(g)}:foreign-completion:{meth}",
                    f"{_short(g.qualname)}: `{norm_stmt(n.text())}` may complete a request future outside "
                    "data_received/_handle_timeout/_cancel_pending_requests",
                    ctx.loc(g, n),
                )
    ck.require_min("C08.S1", "set_result/set_exception/cancel sites in aiohomekit.controller.ip", n_sites, 2)
    # senders
    n_send = 0
    for m in prog.modules.values():
        if m.name in EXCLUDED_MODULES:
            continue
        if "send_bytes" not in m.source and "_send_lines" not in m.source and "_handle_timeout" not in m.source:
            continue
        parents = _parents(m.tree)
        for n in ast.walk(m.tree):
            if not isinstance(n, ast.Attribute) or n.attr not in ("send_bytes", "_send_lines", "_handle_timeout"):
                continue
            fn = _enclosing_func(n, parents)
            g = prog.func_of_node.get(id(fn))
            where = g.qualname if g is not None else f"{m.name}:<module>"
            loc = f"{m.relpath}:{n.lineno}"
            if not m.name.startswith("aiohomekit.controller.ip"):
                # another transport with a method of the same name: cannot be told apart from a foreign sender by name alone
                ck.unknown("C08.S1", f"{where}: `.{n.attr}` referenced outside aiohomekit.controller.ip - receiver type not resolved", loc)
                continue
            n_send += 1
            if n.attr == "_send_lines":
                ok = g is not None and g.name == "send_bytes" and g.cls is not None and g.cls.qualname in family
                ck.check("C08.S1", ok, f"{_short(where)}: _send_lines is used only by the protocols' send_bytes",
                         f"{where}:foreign-_send_lines", f"{where} uses _send_lines directly", loc)
            elif n.attr == "_handle_timeout":
                ck.check("C08.S1", where == SEND, "_handle_timeout is referenced only as the timer callback in _send_lines",
                         f"{where}:foreign-_handle_timeout", f"{where} references _handle_timeout", loc)
            else:
                is_super = isinstance(n.value, ast.Call) and isinstance(n.value.func, ast.Name) and n.value.func.id == "super"
                ok = where == REQUEST or (is_super and g is not None and g.name == "send_bytes")
                if ok and where == REQUEST:
                    cfg = ctx.cfg(REQUEST)
                    limit = _self_attr("_concurrency_limit")
                    ok = False
                    for x in cfg.nodes:
                        if any(sub is n for e in x.exprs if e is not None for sub in walk_expr(e)):
                            ok = any(fr[0] == "with" and fr[2] == "body" and isinstance(fr[1], ast.AsyncWith)
                                     and any(T.of(cfg, x, it.context_expr) == limit for it in fr[1].items) for fr in x.frames)
                ck.check("C08.S1", ok, f"{_short(where)}: send_bytes is called only from request(), inside the semaphore",
                         f"{where}:foreign-send_bytes", f"{where} sends on the protocol outside HomeKitConnection.request's semaphore", loc)
    ck.require_min("C08.S1", "references to send_bytes/_send_lines/_handle_timeout", n_send, 2)


MANIFEST = {
    "technique": "package-wide who-may-mutate sweep with def-use terms (aliases followed, pop argument constant checked) + CFG "
    "must-pass-through with exception edges (gates as edges, release on every exceptional exit per escaping class, isinstance "
    "outcomes pruned per class) + inter-procedural must-call through class-hierarchy-resolved calls",
    "level_text": "Static, all paths / all exits / all occurrences: decides the structural premises of the property - the FIFO is "
    "touched only by one append of a fresh future in _send_lines (before the write and the await, no suspension between) and by "
    "pop(0) in data_received/_cancel_pending_requests; a future is popped and completed only for an 'http' message, under a "
    "not-done() guard and with the message just read, events go only to event_received, other kinds only raise; every "
    "exceptional exit of _send_lines after the enqueue (timeout, cancellation, disconnection) closes the transport, the 30 s "
    "timer is armed before the await and its TimeoutError leaves only as AccessoryDisconnectedError; connection_lost and "
    "eof_received always reach _cancel_pending_requests, which empties the FIFO failing every not-done future with "
    "AccessoryDisconnectedError; request() refuses without a protocol before and inside the semaphore and sends only inside it. "
    "The history-level statement (each request gets its own response whatever the interleaving; failures are prompt in virtual "
    "time) follows from these premises by a standard argument on a single-threaded event loop and is NOT itself explored.",
    "level_note": "Not decided: event-loop interleavings, virtual time (that the timer fires after exactly 30 s, that "
    "connection_lost follows close() promptly), segmentation of responses (C07), what the accessory actually sends. Trusted: "
    "asyncio transport semantics (no data_received after close(); connection_lost once; an exception escaping data_received - "
    "IndexError of pop(0) on an unsolicited response with an empty FIFO, RuntimeError on an unknown kind - closes the transport); "
    "future/timer semantics; transport.write*/close/is_closing and logging neither raise nor suspend; a bare `raise` re-raises "
    "the caught class; reflective access (getattr/__dict__) to result_cbs is reported as ANALYSIS-ERROR, not followed. "
    "Unrecognised restructurings end in ANALYSIS-ERROR (exit 2), not a pass.",
}

TWIN_FILES = ["aiohomekit/controller/ip/connection.py"]
_CF = "aiohomekit/controller/ip/connection.py"
VARIANTS = [
    {
        "name": "semaphore taken and given back by hand, not given back when the send raises",
        "file": _CF,
        "old": "        async with self._concurrency_limit:\n            if not self.protocol:\n                raise AccessoryDisconnectedError(\"Tried to send while not connected\")\n            logger.debug(\"%s: raw request: %r\", self.connected_host, request_bytes)\n            resp = await self.protocol.send_bytes(request_bytes)\n",
        "new": "        await self._concurrency_limit.acquire()\n        if not self.protocol:\n            self._concurrency_limit.release()\n            raise AccessoryDisconnectedError(\"Tried to send while not connected\")\n        logger.debug(\"%s: raw request: %r\", self.connected_host, request_bytes)\n        resp = await self.protocol.send_bytes(request_bytes)\n        self._concurrency_limit.release()\n",
        "expect": "C08.G4",
    },
    {
        "name": "unsolicited response ignored with `continue` (the response object is not renewed)",
        "file": _CF,
        "old": "                    next_callback = self.result_cbs.pop(0)\n",
        "new": "                    if not self.result_cbs:\n                        continue\n                    next_callback = self.result_cbs.pop(0)\n",
        "expect": "C08.G1",
    },
    {
        "name": "pop() instead of pop(0) in data_received (LIFO)",
        "file": _CF,
        "old": "                    next_callback = self.result_cbs.pop(0)\n",
        "new": "                    next_callback = self.result_cbs.pop()\n",
        "expect": "C08.W1",
    },
    {
        "name": "pop(-1) in _cancel_pending_requests",
        "file": _CF,
        "old": "            result = self.result_cbs.pop(0)\n",
        "new": "            result = self.result_cbs.pop(-1)\n",
        "expect": "C08.W1",
    },
    {
        "name": "EVENT dispatched to result_cbs",
        "file": _CF,
        "old": "                    self.connection.event_received(self.current_response)\n",
        "new": "                    next_callback = self.result_cbs.pop(0)\n"
        "                    if not next_callback.done():\n"
        "                        next_callback.set_result(self.current_response)\n",
        "expect": "C08.G1",
    },
    {
        "name": "http branch also taken for events (membership test)",
        "file": _CF,
        "old": '                if http_name == "http":\n',
        "new": '                if http_name in ("http", "event"):\n',
        "expect": "C08.G1",
    },
    {
        "name": "set_result without the done() guard in data_received",
        "file": _CF,
        "old": "                    if not next_callback.done():\n                        next_callback.set_result(self.current_response)\n",
        "new": "                    next_callback.set_result(self.current_response)\n",
        "expect": "C08.G1",
    },
    {
        "name": "unknown message kind only logged",
        "file": _CF,
        "old": '                    raise RuntimeError("Unknown http type")\n',
        "new": '                    logger.debug("Unknown http type")\n',
        "expect": "C08.G1",
    },
    {
        "name": "oldest future popped before the kind test (for every message)",
        "file": _CF,
        "old": '                if http_name == "http":\n                    next_callback = self.result_cbs.pop(0)\n',
        "new": '                next_callback = self.result_cbs.pop(0)\n                if http_name == "http":\n',
        "expect": "C08.G1",
    },
    {
        "name": "_send_lines catches only asyncio.TimeoutError",
        "file": _CF,
        "old": "        except (asyncio.TimeoutError, BaseException) as ex:\n",
        "new": "        except asyncio.TimeoutError as ex:\n",
        "expect": "C08.G2",
    },
    {
        "name": "transport.close() removed from the _send_lines handler",
        "file": _CF,
        "old": "            self.transport.write_eof()\n            self.transport.close()\n",
        "new": "            self.transport.write_eof()\n",
        "expect": "C08.G2",
    },
    {
        "name": "timeout constant 0",
        "file": _CF,
        "old": "loop.call_at(loop.time() + 30, self._handle_timeout, result)",
        "new": "loop.call_at(loop.time() + 0, self._handle_timeout, result)",
        "expect": "C08.G2",
    },
    {
        "name": "timeout re-raised untranslated",
        "file": _CF,
        "old": '                raise AccessoryDisconnectedError("Timeout while waiting for response") from ex\n',
        "new": "                raise\n",
        "expect": "C08.G2",
    },
    {
        "name": "_handle_timeout without the done() guard",
        "file": _CF,
        "old": "        if not fut.done():\n            fut.set_exception(asyncio.TimeoutError)\n",
        "new": "        fut.set_exception(asyncio.TimeoutError)\n",
        "expect": "C08.G2",
    },
    {
        "name": "closing transport only logged, request enqueued anyway",
        "file": _CF,
        "old": '            raise AccessoryDisconnectedError("Transport is closed")\n',
        "new": '            logger.debug("Transport is closed")\n',
        "expect": "C08.G2",
    },
    {
        "name": "timer armed for another future",
        "file": _CF,
        "old": "loop.call_at(loop.time() + 30, self._handle_timeout, result)",
        "new": "loop.call_at(loop.time() + 30, self._handle_timeout, loop.create_future())",
        "expect": "C08.G2",
    },
    {
        "name": "_cancel_pending_requests() deleted from connection_lost",
        "file": _CF,
        "old": "            self.connection._connection_lost(exception)\n        self._cancel_pending_requests()\n",
        "new": "            self.connection._connection_lost(exception)\n",
        "expect": "C08.G3",
    },
    {
        "name": "connection_lost cancels only when it is the current protocol",
        "file": _CF,
        "old": "            self.connection._connection_lost(exception)\n        self._cancel_pending_requests()\n",
        "new": "            self.connection._connection_lost(exception)\n            self._cancel_pending_requests()\n",
        "expect": "C08.G3",
    },
    {
        "name": "eof_received does not close",
        "file": _CF,
        "old": "    def eof_received(self):\n        self.close()\n",
        "new": "    def eof_received(self):\n",
        "expect": "C08.G3",
    },
    {
        "name": "eof_received keeps the transport open",
        "file": _CF,
        "old": "        self.close()\n        return False\n",
        "new": "        self.close()\n        return True\n",
        "expect": "C08.G3",
    },
    {
        "name": "_cancel_pending_requests fails only the first future",
        "file": _CF,
        "old": "        while self.result_cbs:\n",
        "new": "        if self.result_cbs:\n",
        "expect": "C08.G3",
    },
    {
        "name": "_cancel_pending_requests without the done() guard",
        "file": _CF,
        "old": '            if not result.done():\n                result.set_exception(AccessoryDisconnectedError("Connection closed"))\n',
        "new": '            result.set_exception(AccessoryDisconnectedError("Connection closed"))\n',
        "expect": "C08.G3",
    },
    {
        "name": "_cancel_pending_requests cancels instead of failing with a disconnection error",
        "file": _CF,
        "old": '                result.set_exception(AccessoryDisconnectedError("Connection closed"))\n',
        "new": "                result.cancel()\n",
        "expect": "C08.G3",
    },
    {
        "name": "inner `if not self.protocol` dropped in request()",
        "file": _CF,
        "old": '            if not self.protocol:\n                raise AccessoryDisconnectedError("Tried to send while not connected")\n',
        "new": "",
        "expect": "C08.G4",
    },
    {
        "name": "outer `if not self.protocol` dropped in request()",
        "file": _CF,
        "old": '        if not self.protocol:\n            raise AccessoryDisconnectedError("Connection lost before request could be sent")\n',
        "new": "",
        "expect": "C08.G4",
    },
    {
        "name": "send moved out of the semaphore",
        "file": _CF,
        "old": '            logger.debug("%s: raw request: %r", self.connected_host, request_bytes)\n'
        "            resp = await self.protocol.send_bytes(request_bytes)\n",
        "new": '            logger.debug("%s: raw request: %r", self.connected_host, request_bytes)\n'
        "        resp = await self.protocol.send_bytes(request_bytes)\n",
        "expect": "C08.G4",
    },
    {
        "name": "unset protocol inside the semaphore raises a non-library error",
        "file": _CF,
        "old": '                raise AccessoryDisconnectedError("Tried to send while not connected")\n',
        "new": '                raise RuntimeError("Tried to send while not connected")\n',
        "expect": "C08.G4",
    },
    {
        "name": "future enqueued after the write",
        "file": _CF,
        "old": "        self.result_cbs.append(result)\n"
        "        timeout_handle = loop.call_at(loop.time() + 30, self._handle_timeout, result)\n"
        "        timeout_expired = False\n"
        "        try:\n"
        "            self.transport.writelines(payload)\n",
        "new": "        timeout_handle = loop.call_at(loop.time() + 30, self._handle_timeout, result)\n"
        "        timeout_expired = False\n"
        "        try:\n"
        "            self.transport.writelines(payload)\n"
        "            self.result_cbs.append(result)\n",
        "expect": "C08.W1",
    },
    {
        "name": "suspension point between enqueue and write",
        "file": _CF,
        "old": "            self.transport.writelines(payload)\n            return await result\n",
        "new": "            await asyncio.sleep(0)\n            self.transport.writelines(payload)\n            return await result\n",
        "expect": "C08.W1",
    },
    {
        "name": "second writer: connection_made clears the FIFO",
        "file": _CF,
        "old": "        self.transport = transport\n\n    def connection_lost",
        "new": "        self.transport = transport\n        self.result_cbs.clear()\n\n    def connection_lost",
        "expect": "C08.W1",
    },
    {
        "name": "second writer outside the protocol: the connection drops the oldest future",
        "file": _CF,
        "old": "        if self.transport:\n            self.transport.close()\n        self.transport = None\n",
        "new": "        if self.transport:\n            self.transport.close()\n        if self.protocol:\n"
        "            self.protocol.result_cbs.pop(0)\n        self.transport = None\n",
        "expect": "C08.W1",
    },
]
