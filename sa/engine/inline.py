"""Semantics-preserving inlining of private helper functions, applied to the parsed package before anything is indexed.

Why: the rules speak about the *mechanism* of an anchor function (the gates on the way to a return, the release on every
exit, the bytes a loop emits).  "Extract helper" is the most common refactoring there is; it moves a part of that
mechanism into a function the rule tables do not know.  Instead of teaching every rule to look into unknown callees, the
program is normalised: a call of a helper that no rule names is replaced by the helper's body (parameters bound to the
arguments, locals renamed, ``return v`` turned into an assignment of the result variable plus a jump to the end of the
inlined block).  The rules then see the same control flow and data flow they would see had the helper never been extracted.

What is inlined (everything else stays a call):
  * callee: a module-level function, or a method whose name is unique among all methods of the package (no dynamic
    dispatch ambiguity), defined in the same module as the caller; plain or ``@staticmethod``; no ``*args`` / ``**kwargs``,
    no nested ``def`` / ``class``, no ``global`` / ``nonlocal``; not recursive; at most MAX_STMTS statements; and its name
    is not mentioned anywhere in the rule modules (those functions are anchors the rules analyse by name);
  * call site: ``helper(..)`` / ``self.helper(..)`` / ``Class.helper(..)`` (with ``await`` for an async helper, as
    ``yield from`` for a generator helper) standing where it is evaluated before anything else with an effect in a simple
    statement (whole right-hand side, returned / awaited value, statement expression, first argument chain, receiver of a
    method chain, left operand) or in the test of an ``if``;
  * the helper's own ``def`` is removed when every reference to it was inlined (it is dead then) - so package-wide sweeps
    do not see its body twice.

Two AST node classes carry the control flow: ``InlineBlock`` (an ``ast.If`` on the constant True, so every AST consumer
simply walks into its body) and ``InlineReturn`` (an ``ast.Assign`` of the result variable, so data flow sees the
assignment); the CFG builder gives ``InlineReturn`` an edge to the end of its block (through enclosing ``finally`` bodies).
"""

from __future__ import annotations

import ast
import copy
import re

MAX_STMTS = 80
MAX_ROUNDS = 3


class InlineBlock(ast.If):
    """`if True: <binding of parameters; renamed body of the helper>`"""

    _fields = ("test", "body", "orelse")


class InlineReturn(ast.Assign):
    """`<result variable> = <returned value>` followed by a jump to the end of ``self.block``"""

    _fields = ("targets", "value", "type_comment")


# ast.unparse / NodeVisitor dispatch on the class NAME: the two classes must be visited as the statements they extend
InlineBlock.__name__ = "If"
InlineReturn.__name__ = "Assign"


def _stmts(node) -> int:
    return sum(1 for x in ast.walk(node) if isinstance(x, ast.stmt))


def _has(node, kinds) -> bool:
    return any(isinstance(x, kinds) for x in ast.walk(node))


class _Helper:
    def __init__(self, node, cls, static):
        self.node = node
        self.cls = cls  # enclosing ClassDef name or None
        self.static = static
        self.is_async = isinstance(node, ast.AsyncFunctionDef)
        self.is_gen = any(isinstance(x, (ast.Yield, ast.YieldFrom)) for x in _own_nodes(node))
        self.uses = 0
        self.inlined = 0


def _own_nodes(fn):
    stack = list(ast.iter_child_nodes(fn))
    while stack:
        x = stack.pop()
        yield x
        if isinstance(x, (ast.FunctionDef, ast.AsyncFunctionDef, ast.ClassDef, ast.Lambda)):
            continue
        stack.extend(ast.iter_child_nodes(x))


def _closure_factory(fn):
    """A helper whose whole body is one nested function and `return <that function>` (a closure factory): -> the nested def.
    It is inlined by defining the closure at the call site, over the bound arguments."""
    body = list(fn.body)
    if body and isinstance(body[0], ast.Expr) and isinstance(body[0].value, ast.Constant) and isinstance(body[0].value.value, str):
        body = body[1:]
    if len(body) != 2 or not isinstance(body[0], (ast.FunctionDef, ast.AsyncFunctionDef)) or body[0].decorator_list:
        return None
    g, r = body
    if not (isinstance(r, ast.Return) and isinstance(r.value, ast.Name) and r.value.id == g.name):
        return None
    a = g.args
    inner = {x.arg for x in a.args + a.kwonlyargs + a.posonlyargs} | ({a.vararg.arg} if a.vararg else set()) | ({a.kwarg.arg} if a.kwarg else set())
    for x in ast.walk(g):
        if x is g:
            continue
        if isinstance(x, (ast.FunctionDef, ast.AsyncFunctionDef, ast.ClassDef, ast.Global, ast.Nonlocal, ast.Lambda)):
            return None
        if isinstance(x, ast.Name) and isinstance(x.ctx, (ast.Store, ast.Del)):
            inner.add(x.id)
    outer = {x.arg for x in fn.args.args + fn.args.kwonlyargs + fn.args.posonlyargs} | {g.name}
    if inner & outer:
        return None  # the closure shadows a name of the factory: left alone
    return g


def _eligible(fn, keep: set[str]) -> bool:
    if fn.name in keep or (fn.name.startswith("__") and fn.name.endswith("__")):
        return False
    a = fn.args
    if a.vararg or a.kwarg:
        return False
    for d in fn.decorator_list:
        if not (isinstance(d, ast.Name) and d.id == "staticmethod"):
            return False
    factory = _closure_factory(fn)
    for x in _own_nodes(fn):
        if x is factory:
            continue
        if isinstance(x, (ast.FunctionDef, ast.AsyncFunctionDef, ast.ClassDef, ast.Global, ast.Nonlocal)):
            return False
        if isinstance(x, ast.Name) and x.id in ("super", "locals", "vars"):
            return False
    return _stmts(fn) <= MAX_STMTS


def known_names(paths) -> set[str]:
    out: set[str] = set()
    for p in paths:
        try:
            out.update(re.findall(r"[A-Za-z_][A-Za-z0-9_]*", open(p, encoding="utf-8").read()))
        except OSError:
            pass
    return out


# ---------------------------------------------------------------------- call sites
def _first_evaluated(e: ast.AST, pred):
    """The sub-expression of ``e`` satisfying pred that is evaluated before anything else with an effect -> (parent, field, index)
    chain element, or None.  Returns (setter, node): setter(new) replaces the node in place."""

    def go(node, setter):
        if pred(node):
            return setter, node
        if isinstance(node, ast.Await):
            return go(node.value, lambda v, n=node: setattr(n, "value", v))
        if isinstance(node, ast.YieldFrom):
            return go(node.value, lambda v, n=node: setattr(n, "value", v))
        if isinstance(node, ast.NamedExpr):
            return go(node.value, lambda v, n=node: setattr(n, "value", v))
        if isinstance(node, ast.Call):
            f = node.func
            # receiver of a method chain: x.m(...)  -> x evaluated first
            if isinstance(f, ast.Attribute):
                r = go(f.value, lambda v, n=f: setattr(n, "value", v))
                if r is not None:
                    return r
                if not _pure(f.value):
                    return None
            elif not isinstance(f, ast.Name):
                return None
            for i, a in enumerate(node.args):
                if isinstance(a, ast.Starred):
                    return None
                r = go(a, lambda v, n=node, i=i: n.args.__setitem__(i, v))
                if r is not None:
                    return r
                if not _pure(a):
                    return None
            for k in node.keywords:
                r = go(k.value, lambda v, k=k: setattr(k, "value", v))
                if r is not None:
                    return r
                if not _pure(k.value):
                    return None
            return None
        if isinstance(node, ast.Attribute):
            return go(node.value, lambda v, n=node: setattr(n, "value", v))
        if isinstance(node, ast.Subscript):
            r = go(node.value, lambda v, n=node: setattr(n, "value", v))
            if r is not None or not _pure(node.value):
                return r
            return go(node.slice, lambda v, n=node: setattr(n, "slice", v))
        if isinstance(node, ast.BinOp):
            r = go(node.left, lambda v, n=node: setattr(n, "left", v))
            if r is not None or not _pure(node.left):
                return r
            return go(node.right, lambda v, n=node: setattr(n, "right", v))
        if isinstance(node, ast.Compare):
            r = go(node.left, lambda v, n=node: setattr(n, "left", v))
            if r is not None or not _pure(node.left) or len(node.comparators) != 1:
                return r
            return go(node.comparators[0], lambda v, n=node: n.comparators.__setitem__(0, v))
        if isinstance(node, ast.UnaryOp):
            return go(node.operand, lambda v, n=node: setattr(n, "operand", v))
        if isinstance(node, (ast.Tuple, ast.List, ast.Set)):
            for i, a in enumerate(node.elts):
                r = go(a, lambda v, n=node, i=i: n.elts.__setitem__(i, v))
                if r is not None:
                    return r
                if not _pure(a):
                    return None
            return None
        if isinstance(node, ast.Starred):
            return go(node.value, lambda v, n=node: setattr(n, "value", v))
        return None

    return go


def _pure(e) -> bool:
    """No effect and no dependence on anything a helper could change that matters for ordering: names, constants,
    attribute chains, and displays / arithmetic of those."""
    if isinstance(e, (ast.Constant, ast.Name)):
        return True
    if isinstance(e, ast.Call) and isinstance(e.func, ast.Name) and e.func.id == "super" and not e.args and not e.keywords:
        return True  # binding the super proxy: no effect, no dependence on mutable state
    if isinstance(e, ast.Attribute):
        return _pure(e.value)
    if isinstance(e, (ast.Tuple, ast.List)):
        return all(_pure(x) for x in e.elts)
    if isinstance(e, ast.BinOp):
        return _pure(e.left) and _pure(e.right)
    if isinstance(e, ast.UnaryOp):
        return _pure(e.operand)
    if isinstance(e, ast.Subscript):
        return _pure(e.value) and _pure(e.slice)
    if isinstance(e, ast.Slice):
        return all(x is None or _pure(x) for x in (e.lower, e.upper, e.step))
    if isinstance(e, ast.JoinedStr):
        return all(_pure(v.value) if isinstance(v, ast.FormattedValue) else True for v in e.values)
    return False


class _Renamer(ast.NodeTransformer):
    def __init__(self, mapping: dict[str, str]):
        self.m = mapping

    def visit_Name(self, n):
        if n.id in self.m:
            return ast.copy_location(ast.Name(id=self.m[n.id], ctx=n.ctx), n)
        return n

    def visit_ExceptHandler(self, n):
        self.generic_visit(n)
        if n.name and n.name in self.m:
            n.name = self.m[n.name]
        return n

    def visit_arg(self, n):  # lambda parameters inside the helper: shadowing is left alone
        return n

    def visit_Lambda(self, n):
        inner = {a.arg for a in n.args.args + n.args.kwonlyargs + n.args.posonlyargs}
        saved = self.m
        self.m = {k: v for k, v in self.m.items() if k not in inner}
        n.body = self.visit(n.body)
        self.m = saved
        return n

    def _comp(self, n):
        # comprehension targets are their own scope; rename consistently (safe: they are fresh names too)
        self.generic_visit(n)
        return n

    visit_ListComp = visit_SetComp = visit_DictComp = visit_GeneratorExp = _comp


def _expr_body(fn):
    """The expression of a helper that is just `return <expr>` (after an optional docstring), if it is safe to substitute
    it textually: no scopes of its own, no walrus / await / yield."""
    body = list(fn.body)
    if body and isinstance(body[0], ast.Expr) and isinstance(body[0].value, ast.Constant) and isinstance(body[0].value.value, str):
        body = body[1:]
    if len(body) != 1 or not isinstance(body[0], ast.Return) or body[0].value is None:
        return None
    e = body[0].value
    if _has(e, (ast.Lambda, ast.ListComp, ast.SetComp, ast.DictComp, ast.GeneratorExp, ast.NamedExpr, ast.Await, ast.Yield, ast.YieldFrom)):
        return None
    return e


class _ExprSubst(ast.NodeTransformer):
    """Replace `helper(a, b)` by the helper's return expression with the parameters replaced by the (pure) arguments."""

    def __init__(self, inl: "_Inliner", owner_cls):
        self.inl = inl
        self.owner_cls = owner_cls
        self.n = 0

    def visit_Call(self, node):
        self.generic_visit(node)
        r = self.inl._helper_of(node, self.owner_cls, False, False)
        if r is None:
            return node
        h, bound_self = r
        e = _expr_body(h.node)
        if e is None:
            return node
        if not all(_pure(a) for a in node.args) or not all(_pure(k.value) for k in node.keywords):
            return node
        a = h.node.args
        params = [x.arg for x in a.posonlyargs + a.args]
        defaults = [None] * (len(params) - len(a.defaults)) + list(a.defaults)
        mapping = {}
        args = list(node.args)
        kw = {k.arg: k.value for k in node.keywords}
        pos = 0
        for i, p in enumerate(params):
            if i == 0 and bound_self is not None:
                mapping[p] = ast.Name(id=bound_self, ctx=ast.Load())
            elif pos < len(args):
                mapping[p] = args[pos]
                pos += 1
            elif p in kw:
                mapping[p] = kw.pop(p)
            elif defaults[i] is not None and _pure(defaults[i]):
                mapping[p] = defaults[i]
            else:
                return node
        if pos < len(args) or kw or a.kwonlyargs:
            return node

        class _P(ast.NodeTransformer):
            def visit_Name(self, n):
                if n.id in mapping and isinstance(n.ctx, ast.Load):
                    return ast.copy_location(copy.deepcopy(mapping[n.id]), n)
                return n

        out = _P().visit(copy.deepcopy(e))
        ast.copy_location(out, node)
        ast.fix_missing_locations(out)
        h.inlined += 1
        self.n += 1
        return out


class _Inliner:
    def __init__(self, tree: ast.Module, helpers: dict, counter):
        self.tree = tree
        self.helpers = helpers  # key -> _Helper ; key = ("f", name) or ("m", name)
        self.counter = counter
        self.done = 0

    # ---- resolution of a call to a helper
    def _helper_of(self, call: ast.AST, owner_cls: str | None, awaited: bool, yielded_from: bool):
        if not isinstance(call, ast.Call):
            return None
        f = call.func
        h = None
        bound_self = None
        if isinstance(f, ast.Name):
            h = self.helpers.get(("f", f.id))
        elif isinstance(f, ast.Attribute) and isinstance(f.value, ast.Name):
            m = self.helpers.get(("m", f.attr))
            if m is not None:
                if f.value.id in ("self", "cls") and owner_cls is not None:
                    h, bound_self = m, (None if m.static else f.value.id)
                elif f.value.id == m.cls and m.static:
                    h = m
        if h is None:
            return None
        if h.is_async != awaited or h.is_gen != yielded_from:
            return None
        if any(isinstance(a, ast.Starred) for a in call.args) or any(k.arg is None for k in call.keywords):
            return None
        return h, bound_self

    def _bind(self, h: _Helper, call: ast.Call, bound_self, prefix: str):
        a = h.node.args
        params = [x.arg for x in a.posonlyargs + a.args]
        defaults = [None] * (len(params) - len(a.defaults)) + list(a.defaults)
        kwonly = [x.arg for x in a.kwonlyargs]
        kwdefaults = list(a.kw_defaults)
        binds: list[ast.stmt] = []
        mapping: dict[str, str] = {}
        args = list(call.args)
        kw = {k.arg: k.value for k in call.keywords}
        pos = 0
        for i, p in enumerate(params):
            if i == 0 and bound_self is not None:
                mapping[p] = bound_self  # the receiver itself: `self` stays `self`
                continue
            if pos < len(args):
                val = args[pos]
                pos += 1
            elif p in kw:
                val = kw.pop(p)
            elif defaults[i] is not None:
                val = copy.deepcopy(defaults[i])
            else:
                return None
            mapping[p] = prefix + p
            binds.append(ast.Assign(targets=[ast.Name(id=prefix + p, ctx=ast.Store())], value=val, lineno=call.lineno, col_offset=0))
        if pos < len(args):
            return None
        for p, d in zip(kwonly, kwdefaults):
            if p in kw:
                val = kw.pop(p)
            elif d is not None:
                val = copy.deepcopy(d)
            else:
                return None
            mapping[p] = prefix + p
            binds.append(ast.Assign(targets=[ast.Name(id=prefix + p, ctx=ast.Store())], value=val, lineno=call.lineno, col_offset=0))
        if kw:
            return None
        return binds, mapping

    def _instantiate(self, h: _Helper, call: ast.Call, bound_self):
        self.counter[0] += 1
        k = self.counter[0]
        prefix = f"_inl{k}_"
        b = self._bind(h, call, bound_self, prefix)
        if b is None:
            return None
        binds, mapping = b
        # locals of the helper (every stored name) get the prefix as well
        for x in _own_nodes(h.node):
            if isinstance(x, ast.Name) and isinstance(x.ctx, (ast.Store, ast.Del)) and x.id not in mapping:
                mapping[x.id] = prefix + x.id
            elif isinstance(x, ast.ExceptHandler) and x.name and x.name not in mapping:
                mapping[x.name] = prefix + x.name
        factory = _closure_factory(h.node)
        if factory is not None:
            mapping[factory.name] = prefix + factory.name
        body = copy.deepcopy(h.node.body)
        if body and isinstance(body[0], ast.Expr) and isinstance(body[0].value, ast.Constant) and isinstance(body[0].value.value, str):
            body = body[1:]
        if factory is not None:
            body[0].name = prefix + factory.name  # the closure, defined here under a name of its own
        retvar = f"_inlret{k}"
        block = InlineBlock(test=ast.Constant(value=True), body=[], orelse=[])
        ast.copy_location(block, call)
        ren = _Renamer(mapping)

        class _Ret(ast.NodeTransformer):
            def visit_Return(self, n):
                v = n.value if n.value is not None else ast.Constant(value=None)
                r = InlineReturn(targets=[ast.Name(id=retvar, ctx=ast.Store())], value=v, type_comment=None)
                r.block = block
                return ast.copy_location(r, n)

            def visit_Lambda(self, n):
                return n

            def visit_FunctionDef(self, n):  # the closure of a closure factory keeps its own returns
                return n

            visit_AsyncFunctionDef = visit_FunctionDef

        new_body = []
        for st in body:
            st = ren.visit(st)
            st = _Ret().visit(st)
            new_body.append(st)
        init = ast.Assign(targets=[ast.Name(id=retvar, ctx=ast.Store())], value=ast.Constant(value=None), lineno=call.lineno, col_offset=0)
        block.body = binds + [init] + (new_body or [ast.Pass(lineno=call.lineno, col_offset=0)])
        ast.fix_missing_locations(block)
        # every instantiation is its own set of call sites: the copies keep the helper's line numbers (reports point there)
        # but get a column offset of their own, so that two inlined copies of one helper are told apart
        for x in ast.walk(block):
            if hasattr(x, "col_offset") and isinstance(getattr(x, "col_offset"), int):
                x.col_offset = x.col_offset + 1000 * k
        return block, retvar

    # ---- statements
    def _try_stmt(self, st: ast.stmt, owner_cls):
        """-> list of statements replacing st (inlined) or None"""
        if isinstance(st, (ast.Expr, ast.Assign, ast.AugAssign, ast.AnnAssign, ast.Return)):
            root_field = "value"
            if getattr(st, "value", None) is None:
                return None
            holder, field = st, root_field
        elif isinstance(st, ast.Raise) and st.exc is not None and st.cause is None:
            holder, field = st, "exc"  # `raise make_error(..)`: the factory's body, then `raise <its result>`
        elif isinstance(st, ast.If) and not isinstance(st, InlineBlock) and isinstance(st.test, ast.BoolOp) and isinstance(st.test.op, ast.And) and not st.orelse:
            # `if a and helper(..) [and c]: body`  ->  `if a: <inlined>; if <result> [and c]: body`
            for i in range(1, len(st.test.values)):
                rest = st.test.values[i:]
                inner_test = rest[0] if len(rest) == 1 else ast.BoolOp(op=ast.And(), values=rest)
                inner = ast.If(test=inner_test, body=st.body, orelse=[], lineno=st.lineno, col_offset=st.col_offset)
                rep = self._try_stmt(inner, owner_cls)
                if rep is not None:
                    outer_vals = st.test.values[:i]
                    st.test = outer_vals[0] if len(outer_vals) == 1 else ast.BoolOp(op=ast.And(), values=outer_vals)
                    st.body = rep
                    ast.fix_missing_locations(st)
                    return [st]
            holder, field = st, "test"
        elif isinstance(st, ast.If):
            holder, field = st, "test"
            if isinstance(st, InlineBlock):
                return None
        elif isinstance(st, ast.While) and not st.orelse:
            # `while <test with helper call>: body`  ->  `while True: <inlined>; if not <test'>: break; body`
            if isinstance(st.test, ast.BoolOp) and isinstance(st.test.op, ast.And):
                # `while a and helper(..) and c: body`  ->  `while True: if not a: break; <inlined>; if not <result>: break; ..`
                # (the conjuncts are evaluated in order and the first false one ends the loop - which is what the breaks do)
                head, any_inlined = [], False
                for v in st.test.values:
                    brk = ast.If(test=ast.UnaryOp(op=ast.Not(), operand=v), body=[ast.Break(lineno=st.lineno, col_offset=0)], orelse=[], lineno=st.lineno, col_offset=0)
                    rep = self._try_stmt(brk, owner_cls)
                    if rep is None:
                        head.append(brk)
                    else:
                        head.extend(rep)
                        any_inlined = True
                if not any_inlined:
                    return None
                st.test = ast.Constant(value=True)
                st.body = head + st.body
                ast.fix_missing_locations(st)
                return [st]
            probe = copy.copy(st)
            rep = self._try_stmt(ast.If(test=st.test, body=[ast.Pass()], orelse=[], lineno=st.lineno, col_offset=st.col_offset), owner_cls)
            if rep is None or len(rep) != 2:
                return None
            block, iff = rep
            brk = ast.If(test=ast.UnaryOp(op=ast.Not(), operand=iff.test), body=[ast.Break(lineno=st.lineno, col_offset=0)], orelse=[], lineno=st.lineno, col_offset=0)
            st.test = ast.Constant(value=True)
            st.body = [block, brk] + st.body
            ast.fix_missing_locations(st)
            del probe
            return [st]
        elif isinstance(st, (ast.For, ast.AsyncFor)):
            holder, field = st, "iter"  # evaluated once, before the loop
        elif isinstance(st, (ast.With, ast.AsyncWith)) and st.items:
            holder, field = st.items[0], "context_expr"
        else:
            return None
        root = getattr(holder, field)
        if _has(root, (ast.Lambda, ast.NamedExpr)) and not isinstance(root, ast.Call):
            pass

        found = {}

        def pred(node):
            awaited = False
            yf = False
            target = node
            if isinstance(node, ast.Await):
                target, awaited = node.value, True
            elif isinstance(node, ast.YieldFrom):
                target, yf = node.value, True
            r = self._helper_of(target, owner_cls, awaited, yf)
            if r is None:
                return False
            # a bare call of an async helper (not awaited) / generator (not `yield from`) was rejected above
            found["h"], found["self"], found["call"] = r[0], r[1], target
            return True

        # an un-awaited match inside an Await must not be taken: test Await/YieldFrom nodes before their operands
        go = _first_evaluated(root, pred)
        r = go(root, lambda v: setattr(holder, field, v))
        if r is None:
            return None
        setter, node = r
        h, bound_self, call = found["h"], found["self"], found["call"]
        inst = self._instantiate(h, call, bound_self)
        if inst is None:
            return None
        block, retvar = inst
        h.inlined += 1
        self.done += 1
        if isinstance(st, ast.Expr) and node is root:
            return [block]  # the value is discarded
        if type(st) is ast.Assign and node is root and len(st.targets) == 1 and isinstance(st.targets[0], ast.Name):
            # `x = helper(..)`: the helper's returns assign x themselves - no `x = <result>` copy, so that a test of x right
            # after the call is still a test of what the helper returned on that path
            x = st.targets[0].id
            for y in ast.walk(block):
                if isinstance(y, ast.Name) and y.id == retvar:
                    y.id = x
            return [block]
        # `(x := helper(..))` with no other mention of x in the expression: the helper's returns assign x themselves and the
        # expression reads x (same reason as above; x is not read before the call, so the earlier assignment is not seen)
        walrus = next((w for w in ast.walk(root) if isinstance(w, ast.NamedExpr) and w.value is node and isinstance(w.target, ast.Name)), None)
        if walrus is not None and sum(1 for y in ast.walk(root) if isinstance(y, ast.Name) and y.id == walrus.target.id) == 1:
            x = walrus.target.id
            for y in ast.walk(block):
                if isinstance(y, ast.Name) and y.id == retvar:
                    y.id = x

            class _Swap(ast.NodeTransformer):
                def visit_NamedExpr(self, n):
                    if n is walrus:
                        return ast.copy_location(ast.Name(id=x, ctx=ast.Load()), n)
                    return self.generic_visit(n)

            setattr(holder, field, _Swap().visit(root))
            return [block, st]
        setter(ast.copy_location(ast.Name(id=retvar, ctx=ast.Load()), node))
        return [block, st]

    def _body(self, body: list, owner_cls, self_name) -> list:
        out = []
        for st in body:
            if isinstance(st, (ast.FunctionDef, ast.AsyncFunctionDef)):
                self._function(st, owner_cls)
                out.append(st)
                continue
            if isinstance(st, ast.ClassDef):
                self._class(st)
                out.append(st)
                continue
            # compound statements: recurse first
            for f in ("body", "orelse", "finalbody"):
                b = getattr(st, f, None)
                if isinstance(b, list) and b and isinstance(b[0], ast.stmt):
                    setattr(st, f, self._body(b, owner_cls, self_name))
            if isinstance(st, ast.Try) or (hasattr(ast, "TryStar") and isinstance(st, getattr(ast, "TryStar"))):
                for hd in st.handlers:
                    hd.body = self._body(hd.body, owner_cls, self_name)
            # helpers that are a single returned expression are substituted in place (so a boolean helper used in a test is
            # decomposed into its own tests by the CFG); only into the statement's own expressions, not into nested blocks
            sub = _ExprSubst(self, owner_cls)
            for fld, val in list(ast.iter_fields(st)):
                if fld in ("body", "orelse", "finalbody", "handlers", "cases"):
                    continue
                if isinstance(val, ast.AST):
                    setattr(st, fld, sub.visit(val))
                elif isinstance(val, list):
                    setattr(st, fld, [sub.visit(v) if isinstance(v, ast.AST) else v for v in val])
            self.done += sub.n
            rep = self._try_stmt(st, owner_cls)
            if rep is None:
                out.append(st)
            else:
                # the inlined body may itself contain inlinable calls (handled in the next round)
                out.extend(rep)
        return out

    def _function(self, fn, owner_cls) -> None:
        key_f, key_m = ("f", fn.name), ("m", fn.name)
        me = self.helpers.get(key_m if owner_cls else key_f)
        self.current = fn.name
        saved = None
        # never inline a helper into itself
        if me is not None and me.node is fn:
            saved = self.helpers.pop(key_m if owner_cls else key_f)
        fn.body = self._body(fn.body, owner_cls, None)
        if saved is not None:
            self.helpers[key_m if owner_cls else key_f] = saved

    def _class(self, c: ast.ClassDef) -> None:
        c.body = self._body(c.body, c.name, None)

    def run(self) -> int:
        self.tree.body = self._body(self.tree.body, None, None)
        return self.done


def _references(tree: ast.Module, name: str, skip) -> int:
    n = 0
    for x in ast.walk(tree):
        if x is skip:
            continue
        if isinstance(x, ast.Name) and x.id == name:
            n += 1
        elif isinstance(x, ast.Attribute) and x.attr == name:
            n += 1
        elif isinstance(x, ast.Constant) and isinstance(x.value, str) and x.value == name:
            n += 1
    return n


def inline_package(trees: dict[str, ast.Module], keep: set[str]) -> dict:
    """Inline eligible helpers in every module tree (in place).  Returns statistics."""
    # method names must be unique in the whole package, function names unique in their module
    method_count: dict[str, int] = {}
    attr_mentions: dict[str, int] = {}
    for t in trees.values():
        for c in ast.walk(t):
            if isinstance(c, ast.ClassDef):
                for m in c.body:
                    if isinstance(m, (ast.FunctionDef, ast.AsyncFunctionDef)):
                        method_count[m.name] = method_count.get(m.name, 0) + 1
    stats = {"inlined_calls": 0, "helpers_removed": [], "helpers_inlined": []}
    counter = [0]
    for modname, tree in trees.items():
        for _round in range(MAX_ROUNDS):
            helpers: dict = {}
            top_funcs: dict[str, int] = {}
            for st in tree.body:
                if isinstance(st, (ast.FunctionDef, ast.AsyncFunctionDef)):
                    top_funcs[st.name] = top_funcs.get(st.name, 0) + 1
            for st in tree.body:
                if isinstance(st, (ast.FunctionDef, ast.AsyncFunctionDef)) and top_funcs[st.name] == 1 and _eligible(st, keep) and not _calls_itself(st):
                    helpers[("f", st.name)] = _Helper(st, None, True)
                elif isinstance(st, ast.ClassDef):
                    for m in st.body:
                        if isinstance(m, (ast.FunctionDef, ast.AsyncFunctionDef)) and method_count.get(m.name) == 1 and m.name not in top_funcs \
                                and _eligible(m, keep) and not _calls_itself(m):
                            static = any(isinstance(d, ast.Name) and d.id == "staticmethod" for d in m.decorator_list)
                            if not static and not (m.args.posonlyargs + m.args.args):
                                continue
                            helpers[("m", m.name)] = _Helper(m, st.name, static)
            if not helpers:
                break
            inl = _Inliner(tree, helpers, counter)
            n = inl.run()
            stats["inlined_calls"] += n
            if n == 0:
                break
            # remove helpers that are dead now
            counts: dict[str, int] = {}
            for x in ast.walk(tree):
                nm = x.id if isinstance(x, ast.Name) else x.attr if isinstance(x, ast.Attribute) else x.value if isinstance(x, ast.Constant) and isinstance(x.value, str) else None
                if nm is not None:
                    counts[nm] = counts.get(nm, 0) + 1
            for key, h in helpers.items():
                if h.inlined and counts.get(h.node.name, 0) - _self_refs(h.node) == 0 and not _referenced_elsewhere(trees, modname, h.node.name):
                    _remove_def(tree, h.node)
                    stats["helpers_removed"].append(f"{modname}.{(h.cls + '.') if h.cls else ''}{h.node.name}")
                elif h.inlined:
                    stats["helpers_inlined"].append(f"{modname}.{(h.cls + '.') if h.cls else ''}{h.node.name}")
    return stats


def _calls_itself(fn) -> bool:
    for x in _own_nodes(fn):
        if isinstance(x, ast.Call):
            f = x.func
            if isinstance(f, ast.Name) and f.id == fn.name:
                return True
            if isinstance(f, ast.Attribute) and f.attr == fn.name:
                return True
    return False


def _self_refs(fn) -> int:
    n = 0
    for x in ast.walk(fn):
        if isinstance(x, ast.Name) and x.id == fn.name:
            n += 1
        elif isinstance(x, ast.Attribute) and x.attr == fn.name:
            n += 1
    return n


_MENTIONS: dict[int, dict[str, set[str]]] = {}


def _referenced_elsewhere(trees, modname: str, name: str) -> bool:
    """Is the name used as an attribute or imported in another module?  (index built once per package)"""
    idx = _MENTIONS.get(id(trees))
    if idx is None:
        idx = {}
        for mn, t in trees.items():
            names: set[str] = set()
            for x in ast.walk(t):
                if isinstance(x, ast.Attribute):
                    names.add(x.attr)
                elif isinstance(x, ast.alias):
                    names.add(x.name)
            idx[mn] = names
        _MENTIONS.clear()
        _MENTIONS[id(trees)] = idx
    return any(name in names for mn, names in idx.items() if mn != modname)


def _remove_def(tree: ast.Module, fn) -> None:
    for parent in ast.walk(tree):
        b = getattr(parent, "body", None)
        if isinstance(b, list) and fn in b:
            b.remove(fn)
            if not b:
                b.append(ast.Pass(lineno=getattr(fn, "lineno", 1), col_offset=0))
            return
