"""Obligations, verdicts, evidence and known-findings plumbing."""

from __future__ import annotations

import json
import os
import re
import time
from dataclasses import dataclass, field

from .loader import AnalysisError

VERIF_DIR = os.path.dirname(os.path.dirname(os.path.dirname(os.path.abspath(__file__))))

HOLDS, VIOLATED, KNOWN, UNKNOWN = "HOLDS", "VIOLATED", "KNOWN-FINDING", "UNKNOWN"


def norm_stmt(s: str) -> str:
    """Normalised statement text used in construct keys (no line numbers, no layout)."""
    s = " ".join(s.split())
    return s[:160]


@dataclass
class Instance:
    rule: str
    desc: str
    status: str
    loc: str = ""
    key: str = ""
    message: str = ""
    witness: list = field(default_factory=list)
    nontrivial: bool = True


class Checker:
    def __init__(
        self,
        prop: str,
        tier: str = "quick",
        seed: int = 0,
        only: str | None = None,
        explain: bool = False,
        scratch: bool = False,
    ):
        self.scratch = scratch  # analysing a scratch copy: never touch /verif/evidence or /verif/replays
        self.prop = prop
        self.tier = tier
        self.seed = seed
        self.only = only
        self.explain = explain
        self.instances: list[Instance] = []
        self.t0 = time.time()
        self.notes: list[str] = []
        self.stats: dict = {}
        self.assumptions: list[str] = []
        self.known = _load_known()
        self.rules_seen: dict[str, str] = {}
        self.extra_coverage: dict = {}

    # ------------------------------------------------------------------ recording
    def rule(self, rule: str, title: str) -> bool:
        """Declare a rule; returns False when ``--only`` excludes it."""
        self.rules_seen[rule] = title
        return self.only is None or self.only == rule or rule.startswith(self.only)

    def holds(self, rule: str, desc: str, loc: str = "", nontrivial: bool = True) -> None:
        self.instances.append(Instance(rule, desc, HOLDS, loc, nontrivial=nontrivial))

    def violated(self, rule: str, key: str, message: str, loc: str = "", witness: list | None = None, desc: str = "") -> None:
        full_key = f"{rule}:{key}"
        status = VIOLATED
        for k in self.known.get("findings", []):
            if k.get("property") == self.prop and k.get("key") == full_key:
                status = KNOWN
                break
        self.instances.append(
            Instance(rule, desc or message, status, loc, full_key, message, list(witness or []))
        )

    def unknown(self, rule: str, message: str, loc: str = "") -> None:
        self.instances.append(Instance(rule, message, UNKNOWN, loc, message=message))

    def check(self, rule: str, ok: bool, desc: str, key: str, message: str, loc: str = "", witness=None) -> bool:
        if ok:
            self.holds(rule, desc, loc)
        else:
            self.violated(rule, key, message, loc, witness, desc)
        return ok

    def require_min(self, rule: str, what: str, count: int, minimum: int) -> None:
        """A rule that matches fewer sites than were confirmed by hand is broken, not passing."""
        if count < minimum:
            self.unknown(rule, f"{what}: matched {count} sites, frozen minimum is {minimum}")

    def note(self, s: str) -> None:
        self.notes.append(s)

    # ------------------------------------------------------------------ finishing
    def finish(self, explanation: str, trusted_base: list[str]) -> int:
        wall = time.time() - self.t0
        viol = [i for i in self.instances if i.status == VIOLATED]
        known = [i for i in self.instances if i.status == KNOWN]
        unk = [i for i in self.instances if i.status == UNKNOWN]
        held = [i for i in self.instances if i.status == HOLDS]
        # de-duplicate reports by key
        seen = set()
        uniq_viol = []
        for i in viol:
            if i.key in seen:
                continue
            seen.add(i.key)
            uniq_viol.append(i)
        seen = set()
        uniq_known = []
        for i in known:
            if i.key in seen:
                continue
            seen.add(i.key)
            uniq_known.append(i)

        os.makedirs(os.path.join(VERIF_DIR, "evidence"), exist_ok=True)
        replay_dir = os.path.join(VERIF_DIR, "replays", self.prop)
        if self.scratch:
            import tempfile

            replay_dir = os.path.join(tempfile.gettempdir(), "verif-scratch-replays", self.prop)
        lines = []
        for i in uniq_known:
            lines.append(f"KNOWN-FINDING: property={self.prop} {i.key} {i.message} [{i.loc}]")
        for i in uniq_viol:
            os.makedirs(replay_dir, exist_ok=True)
            fn = re.sub(r"[^A-Za-z0-9_.-]+", "_", i.key)[:120] + ".json"
            path = os.path.join(replay_dir, fn)
            with open(path, "w") as fh:
                json.dump(
                    {
                        "property": self.prop,
                        "rule": i.rule,
                        "key": i.key,
                        "message": i.message,
                        "location": i.loc,
                        "witness": i.witness,
                        "replay_cmd": f"./check {self.prop} --only {i.rule} --explain",
                    },
                    fh,
                    indent=1,
                )
            lines.append(f"VIOLATION property={self.prop} replay={path}")
            lines.append(f"  rule {i.rule}: {i.message}")
            lines.append(f"  at {i.loc}  key={i.key}")
            for w in i.witness[:40]:
                lines.append(f"    {w}")
        for i in unk:
            lines.append(f"ANALYSIS-ERROR property={self.prop} rule={i.rule}: {i.message} [{i.loc}]")

        obligations = sorted({i.rule for i in self.instances} | set(self.rules_seen))
        discharged = [r for r in obligations if not any(i.rule == r and i.status != HOLDS for i in self.instances)
                      and any(i.rule == r for i in self.instances)]
        distinct_nt = len({(i.rule, i.desc, i.loc) for i in self.instances if i.nontrivial})
        samples = []
        for r in obligations:
            for i in [x for x in self.instances if x.rule == r][:3]:
                samples.append({"rule": i.rule, "instance": i.desc[:300], "loc": i.loc, "status": i.status})
        coverage = {
            "explanation": explanation,
            "evaluations": len(self.instances),
            "distinct_nontrivial": distinct_nt,
            "rule": "one evaluation = one rule instance (a path query on a CFG, a term comparison against the "
            "frozen specification pattern, a table/constant agreement or a who-may-write sweep hit); "
            "non-trivial = it involved at least one path query, term comparison or table comparison; "
            "distinct = different (rule, instance, location)",
            "samples": samples[:60],
            "obligations": len(obligations),
            "discharged": len(discharged),
            "obligation_ids": obligations,
            "obligation_titles": self.rules_seen,
            "held_instances": len(held),
            "violations": [
                {"rule": i.rule, "key": i.key, "message": i.message, "loc": i.loc, "witness": i.witness[:40]}
                for i in uniq_viol
            ],
            "known_findings": [{"rule": i.rule, "key": i.key, "message": i.message, "loc": i.loc} for i in uniq_known],
            "unknown": [{"rule": i.rule, "message": i.message} for i in unk],
            "trusted_base": trusted_base,
            "checker_cmd": f"./check {self.prop} --tier {self.tier}",
            "exhaustive": True,
            "notes": self.notes,
        }
        coverage.update(self.stats)
        coverage.update(self.extra_coverage)
        ev = {
            "property_id": self.prop,
            "tier": self.tier,
            "seed": self.seed,
            "level": "other",
            "coverage": coverage,
            "assumptions": self.assumptions + trusted_base,
            "wall_s": round(wall, 3),
            "violations": len(uniq_viol),
        }
        self.evidence = ev
        if self.only is None and not self.scratch:
            with open(os.path.join(VERIF_DIR, "evidence", f"{self.prop}.json"), "w") as fh:
                json.dump(ev, fh, indent=1, default=str)
        for l in lines:
            print(l)
        if self.explain:
            for i in self.instances:
                print(f"  [{i.status}] {i.rule} {i.desc} {i.loc}")
                for w in i.witness:
                    print(f"      {w}")
        print(
            f"{self.prop}: {len(obligations)} obligations, {len(self.instances)} instances "
            f"({len(held)} hold, {len(uniq_viol)} violated, {len(uniq_known)} known, {len(unk)} unknown) "
            f"in {wall:.2f}s [{self.tier}]"
        )
        if uniq_viol:
            return 1
        if unk:
            return 2
        return 0


def _load_known() -> dict:
    path = os.path.join(VERIF_DIR, "known_findings.json")
    if not os.path.exists(path):
        return {"findings": [], "fixed": []}
    with open(path) as fh:
        return json.load(fh)
