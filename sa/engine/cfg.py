"""Statement-level control-flow graphs with exception edges.

One CFG per function.  Conditions are decomposed (and/or/not) so that every
``test`` node is an atomic expression with a T and an F out-edge.  ``finally``
bodies and ``with`` exits are copied per kind of exit (normal / return / break /
continue / one per exception class) so that paths stay precise.

Edges: (dst, label, exc) with label in
    'n'  normal fall-through
    'T'/'F' outcome of a test (for a ``for`` node: T = another item, F = exhausted)
    'x'  exceptional (exc = canonical class name)
"""

from __future__ import annotations

import ast
from collections import deque
from dataclasses import dataclass, field
from typing import Callable, Iterable

from .inline import InlineBlock, InlineReturn
from .loader import Func, Program, walk_expr


@dataclass
class Node:
    id: int
    kind: str  # entry exit xexit stmt test for_iter for with_enter with_exit handler return raise funcdef
    ast: ast.AST | None
    exprs: list
    lineno: int
    frames: tuple = ()
    succ: list = field(default_factory=list)  # (dst, label, exc)
    pred: list = field(default_factory=list)  # (src, label, exc)
    incoming_exc: set = field(default_factory=set)  # handler nodes: classes that may arrive
    handler_classes: list | None = None
    copy_of: str = ""  # for finally copies: kind of exit

    def __hash__(self):
        return self.id

    def text(self) -> str:
        if self.kind in ("entry", "exit", "xexit", "reraise"):
            return f"<{self.kind}>"
        if self.kind == "test":
            return "[" + _short(self.exprs[0]) + "]"
        if self.kind == "handler":
            t = self.ast.type
            return "except " + (_short(t) if t is not None else "") + ":"
        if self.kind in ("with_enter", "with_exit"):
            return f"<{self.kind}> " + ", ".join(_short(e) for e in self.exprs)
        if self.kind == "for":
            return "for " + _short(self.ast.target) + " in …"
        if self.kind == "for_iter":
            return "iter(" + _short(self.ast.iter) + ")"
        if self.ast is not None:
            return _short(self.ast)
        return f"<{self.kind}>"


def _short(a: ast.AST, n: int = 110) -> str:
    try:
        s = ast.unparse(a)
    except Exception:  # pragma: no cover
        s = type(a).__name__
    s = " ".join(s.split())
    return s if len(s) <= n else s[: n - 1] + "…"


@dataclass
class _Loop:
    node: ast.AST
    breaks: list
    cont_target: int


@dataclass
class _Try:
    node: ast.Try
    handlers: list  # handler Node ids


@dataclass
class _Fin:
    node: ast.AST  # Try (finalbody) or With/AsyncWith
    copies: dict


@dataclass
class _Inl:
    node: ast.AST  # inline.InlineBlock: the body of an inlined helper
    outs: list  # dangling edges of its InlineReturn statements


class CFG:
    def __init__(
        self,
        prog: Program,
        func: Func,
        raises_fn: Callable | None = None,
        noreturn_fn: Callable | None = None,
    ):
        self.prog = prog
        self.func = func
        self.nodes: list[Node] = []
        self.raises_fn = raises_fn
        self.noreturn_fn = noreturn_fn
        self._frames: list = []
        self._ctx: list = []  # region descriptors (for queries)
        self._handler_stack: list[int] = []
        self.entry = self._new("entry", None, [], getattr(func.node, "lineno", 0))
        end = getattr(func.node, "end_lineno", 0) or 0
        self.exit = self._new("exit", None, [], end)
        self.xexit = self._new("xexit", None, [], end)
        body = func.node.body if not isinstance(func.node, ast.Lambda) else [ast.Return(value=func.node.body)]
        out = self._block(body, [(self.entry.id, "n", None)])
        self._connect(out, self.exit.id)
        self._prune_flag_tests()
        self._by_ast: dict[int, list[Node]] = {}
        for n in self.nodes:
            if n.ast is not None:
                self._by_ast.setdefault(id(n.ast), []).append(n)

    # ------------------------------------------------------------------ boolean flags
    def _prune_flag_tests(self) -> None:
        """Path sensitivity for *flag* locals.  A local that is bound only by plain assignments (`v = <expr>`) carries, on
        every edge, a small set of abstract values: the constants assigned to it, "some object that is not None" (an
        f-string, a display, ...), or "anything" (any other right-hand side).  Which values reach a test of the local
        (`v`, `v is None`, `v is not None`, `v == K`, `v != K`) is a tiny forward data-flow problem:

        * an outcome that no reaching value selects is removed from the graph (in the exception copy of
          `finally: if not connected: release()` only `connected = False` arrives, so the release is on the path);
        * an edge *into* the test on which every value selects the same outcome is threaded to that outcome (after
          `failure = "..."` the test `if failure is not None` is decided; after the last `elif` of the chain that may set it,
          only the initial `None` arrives).  The test has no effect of its own, so the paths are the same paths.

        Path queries then respect such flags instead of treating every test of them as undecided."""
        fn = self.func.node
        if isinstance(fn, ast.Lambda):
            return
        TOP, NN, NNT, UNSET = ("top",), ("notnone",), ("notnone-truthy",), ("unset",)
        # module-level sentinels: `_MISSING = object()` bound once at top level.  A local holds the sentinel only where it was
        # assigned that very name; the result of a call, a display or a constant is never that object
        sentinels: set[str] = set()
        mod = getattr(self.func, "module", None)
        if mod is not None:
            for nm, vals in getattr(mod, "assigns", {}).items():
                if len(vals) == 1 and isinstance(vals[0], ast.Call) and isinstance(vals[0].func, ast.Name) and vals[0].func.id == "object" and not vals[0].args and not vals[0].keywords:
                    sentinels.add(nm)
        local_stores = {x.id for x in ast.walk(fn) if isinstance(x, ast.Name) and isinstance(x.ctx, (ast.Store, ast.Del))} if not isinstance(fn, ast.Lambda) else set()
        sentinels -= local_stores

        imported = set(getattr(mod, "imports", {}) or {}) if mod is not None else set()

        def abstract(v: ast.expr):
            if isinstance(v, ast.Name) and v.id in sentinels:
                return ("s", v.id)
            if sentinels and isinstance(v, ast.Call):
                # the result of a function of ANOTHER module (hkjson.loads(..), int(..)) cannot be a sentinel object private to
                # this module; it can be anything else (also None / falsy): "fresh"
                f_ = v.func
                base_ = f_.value if isinstance(f_, ast.Attribute) else f_
                while isinstance(base_, ast.Attribute):
                    base_ = base_.value
                if isinstance(base_, ast.Name) and base_.id in imported and base_.id not in local_stores and all(s_.startswith("_") for s_ in sentinels) \
                        and not any(isinstance(y_, ast.Name) and y_.id in sentinels for a_ in list(v.args) + [k_.value for k_ in v.keywords] for y_ in ast.walk(a_)):
                    return ("fresh",)
            if isinstance(v, ast.Constant):
                return ("c", type(v.value).__name__, v.value)
            if isinstance(v, ast.JoinedStr):
                return NNT if any(isinstance(x, ast.Constant) and x.value for x in v.values) else NN
            if isinstance(v, ast.Tuple) and not any(isinstance(x, ast.Starred) for x in v.elts):
                return NNT if v.elts else ("c", "empty", ())
            # a list / set / dict display is a fresh MUTABLE object: its truth value holds until the object is changed in
            # place or handed to someone who may change it (see `touch` below)
            if isinstance(v, (ast.List, ast.Set)) and not any(isinstance(x, ast.Starred) for x in v.elts):
                return ("m", bool(v.elts))
            if isinstance(v, ast.Dict):
                if not v.keys:
                    return ("m", False)
                return ("m", True) if any(k is not None for k in v.keys) else NN
            if isinstance(v, (ast.ListComp, ast.SetComp, ast.DictComp, ast.GeneratorExp, ast.Lambda)):
                return NN
            # the result of instantiating a class (a call of a CapWords name: Decimal(x), HttpResponse(), bytes()...) is an
            # object, never None; its truth value is not known
            if isinstance(v, ast.Call):
                fn_ = v.func.attr if isinstance(v.func, ast.Attribute) else v.func.id if isinstance(v.func, ast.Name) else ""
                if fn_[:1].isupper() and not fn_.isupper() or fn_ in ("bytes", "bytearray", "str", "int", "float", "list", "dict", "set", "tuple", "frozenset", "len", "bool"):
                    return NN
            # a slice x[a:b] is a sequence of the kind of x (possibly empty), never None
            if isinstance(v, ast.Subscript) and isinstance(v.slice, ast.Slice):
                return NN
            return TOP

        def decide(val, test: ast.expr):
            """outcome of ``test`` for abstract value ``val``: True / False / None (not decided)"""
            if val in (TOP, UNSET):
                return None
            if val == ("fresh",) and not (isinstance(test, ast.Compare) and isinstance(test.comparators[0], ast.Name)):
                return None
            if isinstance(test, ast.Compare) and isinstance(test.comparators[0], ast.Name):
                # `x is SENTINEL` / `x is not SENTINEL`
                same = val == ("s", test.comparators[0].id)
                return same if isinstance(test.ops[0], ast.Is) else not same
            if val[0] == "s":
                # the sentinel object tested otherwise: not None, truthy (a plain object())
                if isinstance(test, ast.Name):
                    return True
                if isinstance(test.ops[0], (ast.Is, ast.IsNot)) and isinstance(test.comparators[0], ast.Constant) and test.comparators[0].value is None:
                    return isinstance(test.ops[0], ast.IsNot)
                return None
            if val[0] == "m":
                if isinstance(test, ast.Name):
                    return val[1]
                if isinstance(test.ops[0], (ast.Is, ast.IsNot)) and test.comparators[0].value is None:
                    return isinstance(test.ops[0], ast.IsNot)
                return None
            if isinstance(test, ast.Name):
                if val == NNT:
                    return True
                if val == NN:
                    return None
                return bool(val[2])
            op, k = test.ops[0], test.comparators[0].value
            if isinstance(op, (ast.Is, ast.IsNot)):
                if k is not None:
                    return None
                isn = val[0] == "c" and val[1] == "NoneType"
                return isn if isinstance(op, ast.Is) else not isn
            # == / != against a constant
            if val[0] != "c" or val[1] == "empty":
                if k is None:
                    return isinstance(op, ast.NotEq)
                return None
            eq = val[2] == k and (type(val[2]) is type(k) or (isinstance(val[2], (int, float)) and isinstance(k, (int, float))))
            return eq if isinstance(op, ast.Eq) else not eq

        def flag_test(e: ast.expr):
            if isinstance(e, ast.Name):
                return e.id
            if isinstance(e, ast.Compare) and len(e.ops) == 1 and isinstance(e.left, ast.Name) and isinstance(e.comparators[0], ast.Constant) \
                    and isinstance(e.ops[0], (ast.Is, ast.IsNot, ast.Eq, ast.NotEq)):
                return e.left.id
            if isinstance(e, ast.Compare) and len(e.ops) == 1 and isinstance(e.left, ast.Name) and isinstance(e.ops[0], (ast.Is, ast.IsNot)) \
                    and isinstance(e.comparators[0], ast.Name) and e.comparators[0].id in sentinels and e.left.id not in sentinels:
                return e.left.id
            return None

        tests_of: dict[str, list[Node]] = {}
        for n in self.nodes:
            if n.kind == "test":
                v = flag_test(n.exprs[0])
                if v is not None:
                    tests_of.setdefault(v, []).append(n)
        if not tests_of:
            return
        stores: dict[str, dict[int, tuple]] = {}
        bad: set[str] = set()
        for n in self.nodes:
            a = n.ast
            if a is None:
                continue
            if n.kind == "stmt" and type(a) in (ast.Assign, InlineReturn) and len(a.targets) == 1 and isinstance(a.targets[0], ast.Name):
                stores.setdefault(a.targets[0].id, {})[n.id] = abstract(a.value)
                roots = [a.value]
            elif n.kind == "stmt" and type(a) is ast.AnnAssign and isinstance(a.target, ast.Name) and a.value is not None:
                stores.setdefault(a.target.id, {})[n.id] = abstract(a.value)
                roots = [a.value]
            elif n.kind == "stmt":
                roots = [a]
            elif n.kind == "for":
                roots = [a.target]
            elif n.kind == "with_enter":
                roots = [it.optional_vars for it in a.items if it.optional_vars is not None]
            elif n.kind == "handler":
                roots = []
                if a.name:
                    bad.add(a.name)
            elif n.kind == "funcdef":
                roots = []
                bad.add(a.name)
                for x in ast.walk(a):
                    if isinstance(x, ast.Nonlocal):
                        bad.update(x.names)
            else:
                roots = []
            # any other binding of a name disqualifies it
            for r in roots:
                for x in ast.walk(r):
                    if isinstance(x, ast.Name) and isinstance(x.ctx, (ast.Store, ast.Del)):
                        bad.add(x.id)
                    elif isinstance(x, (ast.Global, ast.Nonlocal)):
                        bad.update(x.names)
            for e in n.exprs:
                if e is None:
                    continue
                for x in walk_expr(e):
                    if isinstance(x, ast.NamedExpr) and isinstance(x.target, ast.Name):
                        bad.add(x.target.id)
        # `x = y` where y is a local bound exactly once (and by a plain assignment): x holds what that assignment gave y.  A
        # mutable display is only "an object" through the alias (its truth may change through either name).
        params0 = set(self.func.params)
        for _pass in range(3):
            changed = False
            for n in self.nodes:
                a = n.ast
                if n.kind == "stmt" and type(a) in (ast.Assign, InlineReturn) and len(a.targets) == 1 and isinstance(a.targets[0], ast.Name) \
                        and isinstance(a.value, ast.Name) and stores[a.targets[0].id].get(n.id) == TOP:
                    y = a.value.id
                    if y in bad or y in params0 or len(stores.get(y, {})) != 1:
                        continue
                    (v,) = stores[y].values()
                    if v != TOP:
                        stores[a.targets[0].id][n.id] = NN if v[0] == "m" else v
                        changed = True
            if not changed:
                break
        # nodes at which the object a flag names may be changed in place or escapes to code that may change it: a subscript
        # / attribute store or delete on it, a method call on it, the bare name handed to a call, stored into something,
        # put into a display, yielded, awaited or captured by a nested function.  There a mutable value's truth is forgotten.
        touch: dict[str, set[int]] = {}
        for n in self.nodes:
            roots = [n.ast] if n.kind in ("stmt", "funcdef") and n.ast is not None else [e for e in n.exprs if e is not None]
            for r in roots:
                plain_rhs = r.value if type(r) in (ast.Assign, ast.AnnAssign) and isinstance(getattr(r, "value", None), ast.Name) and all(
                    isinstance(t, ast.Name) for t in (r.targets if isinstance(r, ast.Assign) else [r.target])) else None
                test_names = set()
                if n.kind == "test":
                    e0 = n.exprs[0]
                    if isinstance(e0, ast.Name):
                        test_names.add(id(e0))
                    elif isinstance(e0, ast.Compare) and isinstance(e0.left, ast.Name):
                        test_names.add(id(e0.left))
                for x in ast.walk(r):
                    if isinstance(x, ast.Name) and isinstance(x.ctx, ast.Load) and x.id in tests_of and id(x) not in test_names:
                        # any use other than being tested (or read as a subscript/attribute base, handled next) lets it escape
                        touch.setdefault(x.id, set()).add(n.id)
        params = set(self.func.params)
        for name, tests in tests_of.items():
            defs = stores.get(name)
            if name in bad or not defs or all(v == TOP for v in defs.values()):
                continue
            tch = touch.get(name, set())
            test_ids = {t.id: t.exprs[0] for t in tests}
            for _round in range(4):
                IN: dict[int, set] = {self.entry.id: {TOP if name in params else UNSET}}
                work = deque([self.entry.id])
                while work:
                    u = work.popleft()
                    cur = IN.get(u, set())
                    for dst, label, _exc in self.nodes[u].succ:
                        if u in defs and label != "x":
                            out = {defs[u]}
                        elif u in tch:
                            out = {NN if v[0] == "m" else v for v in cur}
                        elif u in test_ids and label in ("T", "F"):
                            # behind an outcome of a test of the flag only the values that can give that outcome remain
                            want_ = label == "T"
                            out = {v for v in cur if decide(v, test_ids[u]) in (None, want_)}
                        else:
                            out = cur
                        before = IN.setdefault(dst, set())
                        if not out <= before:
                            before |= out
                            work.append(dst)
                changed = False
                for t in tests:
                    vals = IN.get(t.id)
                    if not vals:
                        continue
                    outs = {decide(v, t.exprs[0]) for v in vals}
                    if outs == {True}:
                        changed |= self._drop_edges(t, "F")
                        continue
                    if outs == {False}:
                        changed |= self._drop_edges(t, "T")
                        continue
                    # thread the incoming edges that decide the test
                    for (u, label, exc) in list(t.pred):
                        ev = {defs[u]} if (u in defs and label != "x") else ({NN if v[0] == "m" else v for v in IN.get(u, set())} if u in tch else IN.get(u, set()))
                        if u in test_ids and label in ("T", "F") and u not in defs:
                            ev = {v for v in ev if decide(v, test_ids[u]) in (None, label == "T")}
                        eo = {decide(v, t.exprs[0]) for v in ev}
                        if len(eo) != 1 or None in eo or not ev:
                            continue
                        want = "T" if eo == {True} else "F"
                        dsts = [d for (d, l, _e) in t.succ if l == want]
                        if len(dsts) != 1 or any(l == "x" for (_d, l, _e) in t.succ):
                            continue
                        src = self.nodes[u]
                        src.succ = [e for e in src.succ if e != (t.id, label, exc)]
                        t.pred = [p for p in t.pred if p != (u, label, exc)]
                        self._edge(u, dsts[0], label, exc)
                        changed = True
                if not changed:
                    break

    def _drop_edges(self, n: Node, label: str) -> bool:
        hit = [e for e in n.succ if e[1] == label]
        for e in hit:
            n.succ.remove(e)
            d = self.nodes[e[0]]
            d.pred = [p for p in d.pred if not (p[0] == n.id and p[1] == label)]
        return bool(hit)

    # ------------------------------------------------------------------ construction helpers
    def _new(self, kind, a, exprs, lineno=None) -> Node:
        n = Node(len(self.nodes), kind, a, exprs, lineno if lineno is not None else getattr(a, "lineno", 0))
        n.frames = tuple(self._ctx)
        self.nodes.append(n)
        return n

    def _edge(self, src: int, dst: int, label: str, exc=None) -> None:
        e = (dst, label, exc)
        s = self.nodes[src]
        if e not in s.succ:
            s.succ.append(e)
            self.nodes[dst].pred.append((src, label, exc))

    def _connect(self, dangling, dst: int) -> None:
        for src, label, exc in dangling:
            self._edge(src, dst, label, exc)

    def _mk(self, kind, a, exprs, dangling, lineno=None) -> Node:
        n = self._new(kind, a, exprs, lineno)
        self._connect(dangling, n.id)
        self._raise_edges(n)
        return n

    def _raise_edges(self, n: Node) -> None:
        if self.raises_fn is None:
            return
        classes = self.raises_fn(self, n, self._handler_stack)
        for r in sorted(classes):
            self._route_exc([(n.id, "x", r)], r, len(self._frames) - 1)

    # ------------------------------------------------------------------ exception routing
    def _relation(self, r: str, hclasses) -> str:
        if hclasses is None:
            return "sub"
        p = self.prog
        best = "none"
        for h in hclasses:
            if p.is_subclass(r, h):
                return "sub"
            if not p.known_class(r):
                # unknown classes are assumed to derive from Exception
                if h in ("Exception", "BaseException"):
                    return "sub"
                continue
            if p.is_subclass(h, r):
                best = "super"
        return best

    def _route_exc(self, dangling, r: str, top: int) -> None:
        i = top
        while i >= 0:
            fr = self._frames[i]
            if isinstance(fr, _Try):
                for hid in fr.handlers:
                    h = self.nodes[hid]
                    rel = self._relation(r, h.handler_classes)
                    if rel in ("sub", "super"):
                        self._connect(dangling, hid)
                        h.incoming_exc.add(r)
                        if rel == "sub":
                            return
            elif isinstance(fr, _Fin):
                key = ("exc", r)
                if key in fr.copies:
                    self._connect(dangling, fr.copies[key][0])
                    return
                entry, out = self._fin_copy(fr, i, key, dangling)
                # the end of the copied finally body / with-exit re-raises: a node of its own, so that the outcome labels
                # (T / F) of a test that ends the body stay on their edges
                if out:
                    rr = self._new("reraise", None, [], getattr(fr.node, "end_lineno", None) or getattr(fr.node, "lineno", 0))
                    rr.copy_of = "exc"
                    rr.frames = self.nodes[out[0][0]].frames  # it belongs to the copied body, not to the raising statement's region
                    self._connect(out, rr.id)
                    dangling = [(rr.id, "x", r)]
                else:
                    dangling = []
            i -= 1
        self._connect(dangling, self.xexit.id)

    def _fin_copy(self, fr: _Fin, idx: int, key, dangling):
        """Build a copy of a finally body / with-exit for one kind of exit, in the context of the outer frames."""
        saved_frames, saved_ctx = self._frames, self._ctx
        self._frames = self._frames[:idx]
        # region context: everything outside this try/with
        cut = 0
        for j, c in enumerate(saved_ctx):
            if c[1] is fr.node:
                cut = j
                break
        else:
            cut = len(saved_ctx)
        self._ctx = list(saved_ctx[:cut]) + [("finally", fr.node, key[0])]
        first_before = len(self.nodes)
        if isinstance(fr.node, ast.Try):
            out = self._block(fr.node.finalbody, dangling)
        else:
            n = self._new("with_exit", fr.node, [it.context_expr for it in fr.node.items], getattr(fr.node, "lineno", 0))
            n.copy_of = key[0]
            self._connect(dangling, n.id)
            out = [(n.id, "n", None)]
        entry = first_before
        for n in self.nodes[first_before:]:
            if not n.copy_of:
                n.copy_of = key[0]
        self._frames, self._ctx = saved_frames, saved_ctx
        fr.copies[key] = (entry, out)
        return entry, out

    def _jump(self, dangling, kind: str, stop_loop: bool) -> list:
        """Route a return/break/continue outwards through finally/with frames."""
        i = len(self._frames) - 1
        while i >= 0:
            fr = self._frames[i]
            if isinstance(fr, _Loop) and stop_loop:
                if kind == "break":
                    fr.breaks.extend(dangling)
                else:
                    self._connect(dangling, fr.cont_target)
                return []
            if isinstance(fr, _Fin):
                key = (kind, id(self._innermost_loop(i)) if stop_loop else 0)
                if key in fr.copies:
                    self._connect(dangling, fr.copies[key][0])
                    return []
                _entry, out = self._fin_copy(fr, i, key, dangling)
                dangling = out
            i -= 1
        if kind == "return":
            self._connect(dangling, self.exit.id)
        return []

    def _jump_inline(self, dangling, block) -> None:
        """Route the `return` of an inlined helper to the end of its block, through the finally/with frames in between."""
        i = len(self._frames) - 1
        while i >= 0:
            fr = self._frames[i]
            if isinstance(fr, _Inl) and fr.node is block:
                fr.outs.extend(dangling)
                return
            if isinstance(fr, _Fin):
                key = ("inlret", id(block))
                if key in fr.copies:
                    self._connect(dangling, fr.copies[key][0])
                    return
                _entry, out = self._fin_copy(fr, i, key, dangling)
                dangling = out
            i -= 1
        # the block was not found (cannot happen): treat as fall-through to the function exit
        self._connect(dangling, self.exit.id)

    def _innermost_loop(self, upto: int):
        for j in range(upto, -1, -1):
            if isinstance(self._frames[j], _Loop):
                return self._frames[j]
        return None

    # ------------------------------------------------------------------ conditions
    def _cond(self, e: ast.expr, dangling):
        if isinstance(e, ast.BoolOp):
            if isinstance(e.op, ast.And):
                t, f = self._cond(e.values[0], dangling)
                for v in e.values[1:]:
                    t, f2 = self._cond(v, t)
                    f = f + f2
                return t, f
            else:
                t, f = self._cond(e.values[0], dangling)
                for v in e.values[1:]:
                    t2, f = self._cond(v, f)
                    t = t + t2
                return t, f
        if isinstance(e, ast.UnaryOp) and isinstance(e.op, ast.Not):
            t, f = self._cond(e.operand, dangling)
            return f, t
        # jump threading for the result of an inlined helper: an edge that comes straight from `return <constant / display>`
        # of the helper takes the branch that value selects (the test is decided on that path), so "the helper returned
        # True" stays a fact of the path instead of being forgotten in a flag variable
        thr_t, thr_f, rest = [], [], []
        for edge in dangling:
            src = self.nodes[edge[0]]
            v = None
            if isinstance(src.ast, InlineReturn) and edge[1] == "n":
                v = _static_truth(e, src.ast.targets[0].id, src.ast.value)
                if v is None and isinstance(e, ast.Name) and e.id == src.ast.targets[0].id and _pure_condition(src.ast.value):
                    # the helper returned a comparison and the caller tests the result: on this edge the test IS that
                    # comparison (pure, so reading it again where it is tested changes nothing) - its outcomes stay edges of
                    # the caller's graph, where gates are looked for
                    t2, f2 = self._cond(src.ast.value, [edge])
                    thr_t += t2
                    thr_f += f2
                    continue
            if v is True:
                thr_t.append(edge)
            elif v is False:
                thr_f.append(edge)
            else:
                rest.append(edge)
        if (thr_t or thr_f) and not rest:
            return thr_t, thr_f
        if thr_t or thr_f:
            n = self._mk("test", e, [e], rest)
            return thr_t + [(n.id, "T", None)], thr_f + [(n.id, "F", None)]
        n = self._mk("test", e, [e], dangling)
        if isinstance(e, ast.Constant):
            if e.value:
                return [(n.id, "T", None)], []
            return [], [(n.id, "F", None)]
        return [(n.id, "T", None)], [(n.id, "F", None)]

    # ------------------------------------------------------------------ statements
    def _block(self, stmts, dangling):
        for st in stmts:
            if not dangling:
                # unreachable code: still build it (detached) so that anchors can be found
                pass
            dangling = self._stmt(st, dangling)
        return dangling

    def _stmt(self, st: ast.stmt, dangling):
        if isinstance(st, (ast.FunctionDef, ast.AsyncFunctionDef, ast.ClassDef)):
            n = self._mk("funcdef", st, [], dangling)
            return [(n.id, "n", None)]
        if isinstance(st, InlineBlock):
            # the body of an inlined helper: no test node; its `return`s (InlineReturn) jump to the end of the block
            fr = _Inl(st, [])
            self._frames.append(fr)
            self._ctx.append(("inline", st, "body"))
            out = self._block(st.body, dangling)
            self._ctx.pop()
            self._frames.pop()
            return out + fr.outs
        if isinstance(st, InlineReturn):
            n = self._mk("stmt", st, [st], dangling)
            self._jump_inline([(n.id, "n", None)], st.block)
            return []
        if isinstance(st, ast.If):
            t, f = self._cond(st.test, dangling)
            self._ctx.append(("if", st, "body"))
            out_t = self._block(st.body, t)
            self._ctx.pop()
            self._ctx.append(("if", st, "orelse"))
            out_f = self._block(st.orelse, f)
            self._ctx.pop()
            return out_t + out_f
        if isinstance(st, ast.While):
            # loop head: a join point so that `continue` has a target even for decomposed conditions
            head = self._new("loop_head", st, [], st.lineno)
            self._connect(dangling, head.id)
            t, f = self._cond(st.test, [(head.id, "n", None)])
            loop = _Loop(st, [], head.id)
            self._frames.append(loop)
            self._ctx.append(("loop", st, "body"))
            out = self._block(st.body, t)
            self._ctx.pop()
            self._frames.pop()
            self._connect(out, head.id)
            self._ctx.append(("loop", st, "orelse"))
            out_else = self._block(st.orelse, f)
            self._ctx.pop()
            return out_else + loop.breaks
        if isinstance(st, (ast.For, ast.AsyncFor)):
            it = self._mk("for_iter", st, [st.iter], dangling)
            head = self._mk("for", st, [st.target], [(it.id, "n", None)])
            loop = _Loop(st, [], head.id)
            self._frames.append(loop)
            self._ctx.append(("loop", st, "body"))
            out = self._block(st.body, [(head.id, "T", None)])
            self._ctx.pop()
            self._frames.pop()
            self._connect(out, head.id)
            self._ctx.append(("loop", st, "orelse"))
            out_else = self._block(st.orelse, [(head.id, "F", None)])
            self._ctx.pop()
            return out_else + loop.breaks
        if isinstance(st, (ast.With, ast.AsyncWith)):
            enter = self._mk("with_enter", st, [it.context_expr for it in st.items], dangling)
            fin = _Fin(st, {})
            self._frames.append(fin)
            self._ctx.append(("with", st, "body"))
            out = self._block(st.body, [(enter.id, "n", None)])
            self._ctx.pop()
            self._frames.pop()
            if out:
                ex = self._new("with_exit", st, [it.context_expr for it in st.items], st.lineno)
                ex.copy_of = "normal"
                self._connect(out, ex.id)
                return [(ex.id, "n", None)]
            return []
        if isinstance(st, ast.Try) or (hasattr(ast, "TryStar") and isinstance(st, getattr(ast, "TryStar"))):
            fin = None
            if st.finalbody:
                fin = _Fin(st, {})
                self._frames.append(fin)
            handlers = []
            for h in st.handlers:
                hn = self._new("handler", h, [h.type] if h.type is not None else [], h.lineno)
                hn.handler_classes = self._handler_classes(h)
                handlers.append(hn.id)
            tr = _Try(st, handlers)
            self._frames.append(tr)
            self._ctx.append(("try", st, "body"))
            out = self._block(st.body, dangling)
            self._ctx.pop()
            self._frames.pop()
            self._ctx.append(("try", st, "orelse"))
            out = self._block(st.orelse, out)
            self._ctx.pop()
            for hid, h in zip(handlers, st.handlers):
                self._ctx.append(("try", st, ("handler", h)))
                self._handler_stack.append(hid)
                # the handler node was created before the body: fix its region context
                hout = self._block(h.body, [(hid, "n", None)])
                self._handler_stack.pop()
                self._ctx.pop()
                out = out + hout
            if fin is not None:
                self._frames.pop()
                if out:
                    self._ctx.append(("finally", st, "normal"))
                    first = len(self.nodes)
                    out = self._block(st.finalbody, out)
                    for n in self.nodes[first:]:
                        if not n.copy_of:
                            n.copy_of = "normal"
                    self._ctx.pop()
            return out
        if isinstance(st, ast.Return):
            n = self._mk("return", st, [st.value] if st.value is not None else [], dangling)
            self._jump([(n.id, "n", None)], "return", False)
            return []
        if isinstance(st, ast.Raise):
            self._mk("raise", st, [x for x in (st.exc, st.cause) if x is not None], dangling)
            return []
        if isinstance(st, ast.Break):
            n = self._mk("stmt", st, [], dangling)
            self._jump([(n.id, "n", None)], "break", True)
            return []
        if isinstance(st, ast.Continue):
            n = self._mk("stmt", st, [], dangling)
            self._jump([(n.id, "n", None)], "continue", True)
            return []
        if isinstance(st, ast.Match):  # pragma: no cover - not used by the repository
            n = self._mk("stmt", st, [st.subject], dangling)
            outs = []
            for case in st.cases:
                outs += self._block(case.body, [(n.id, "T", None)])
            return outs + [(n.id, "F", None)]
        # simple statements
        n = self._mk("stmt", st, [st], dangling)
        if self.noreturn_fn is not None and self.noreturn_fn(self, n):
            return []
        return [(n.id, "n", None)]

    def _handler_classes(self, h: ast.ExceptHandler):
        if h.type is None:
            return None
        return resolve_exc_classes(self.prog, self.func, h.type)

    # ------------------------------------------------------------------ queries
    def succs(self, n: int):
        return self.nodes[n].succ

    def nodes_for(self, a: ast.AST) -> list[Node]:
        """CFG nodes created for an AST statement/expr (several when inside a copied finally)."""
        return self._by_ast.get(id(a), [])

    def find_nodes(self, pred: Callable[[Node], bool]) -> list[Node]:
        return [n for n in self.nodes if pred(n)]

    def reachable_from(self, start: int, avoid_nodes=(), avoid_edges=()) -> set[int]:
        avoid_nodes = set(avoid_nodes)
        avoid_edges = set(avoid_edges)
        seen = {start}
        dq = deque([start])
        while dq:
            u = dq.popleft()
            for dst, label, exc in self.nodes[u].succ:
                if dst in seen or dst in avoid_nodes or (u, dst, label, exc) in avoid_edges:
                    continue
                seen.add(dst)
                dq.append(dst)
        return seen

    def find_path(
        self,
        src: int,
        dst: int | Iterable[int],
        avoid_nodes=(),
        avoid_edges=(),
        edge_ok: Callable | None = None,
    ):
        """Shortest path src -> dst (BFS) avoiding nodes/edges; returns list of (node, label, exc) hops or None.

        The path never passes *through* an avoided node (src and dst themselves are allowed).
        """
        dsts = {dst} if isinstance(dst, int) else set(dst)
        avoid_nodes = set(avoid_nodes) - {src}
        avoid_edges = set(avoid_edges)
        prev: dict[int, tuple] = {src: None}
        dq = deque([src])
        hit = None
        if src in dsts:
            return [(src, None, None)]
        while dq and hit is None:
            u = dq.popleft()
            for d, label, exc in self.nodes[u].succ:
                if d in prev:
                    continue
                if (u, d, label, exc) in avoid_edges:
                    continue
                if edge_ok is not None and not edge_ok(u, d, label, exc):
                    continue
                if d in avoid_nodes and d not in dsts:
                    continue
                prev[d] = (u, label, exc)
                if d in dsts:
                    hit = d
                    break
                dq.append(d)
        if hit is None:
            return None
        chain = [hit]
        while prev[chain[-1]] is not None:
            chain.append(prev[chain[-1]][0])
        chain.reverse()
        out = []
        for i, nid in enumerate(chain):
            if i + 1 < len(chain):
                pl = prev[chain[i + 1]]
                out.append((nid, pl[1], pl[2]))
            else:
                out.append((nid, None, None))
        return out

    def out_edges(self, n: Node | int, labels=("n", "T", "F")) -> list[tuple]:
        nid = n if isinstance(n, int) else n.id
        return [(nid, d, l, e) for (d, l, e) in self.nodes[nid].succ if l in labels]

    def all_out_edges(self, n: Node | int) -> list[tuple]:
        nid = n if isinstance(n, int) else n.id
        return [(nid, d, l, e) for (d, l, e) in self.nodes[nid].succ]

    def render_path(self, path) -> list[str]:
        out = []
        for nid, label, exc in path:
            n = self.nodes[nid]
            s = f"{self.func.module.relpath}:{n.lineno}: {n.text()}"
            if label == "T":
                s += "  -> true"
            elif label == "F":
                s += "  -> false"
            elif label == "x":
                s += f"  -> raises {exc}"
            out.append(s)
        return out

    def escapes(self) -> set[str]:
        return {exc for (_s, l, exc) in self.xexit.pred if l == "x" and exc}

    def in_region(self, n: Node, kind: str, a: ast.AST | None = None, part=None) -> bool:
        for k, node, p in n.frames:
            if k == kind and (a is None or node is a) and (part is None or p == part or (isinstance(p, tuple) and p[0] == part)):
                return True
        return False

    def stats(self) -> tuple[int, int]:
        return len(self.nodes), sum(len(n.succ) for n in self.nodes)


def _pure_condition(e: ast.AST) -> bool:
    """a comparison / and / or / not over names, constants, attribute chains and subscripts of those"""
    def pure(x) -> bool:
        if isinstance(x, (ast.Constant, ast.Name)):
            return True
        if isinstance(x, ast.Attribute):
            return pure(x.value)
        if isinstance(x, ast.Subscript):
            return pure(x.value) and (pure(x.slice) if not isinstance(x.slice, ast.Slice) else all(y is None or pure(y) for y in (x.slice.lower, x.slice.upper, x.slice.step)))
        if isinstance(x, (ast.Tuple, ast.List)):
            return all(pure(y) for y in x.elts)
        if isinstance(x, ast.Call) and isinstance(x.func, ast.Name) and x.func.id in ("len", "isinstance") and not x.keywords:
            return all(pure(y) for y in x.args)
        return False

    if isinstance(e, ast.Compare):
        return pure(e.left) and all(pure(c) for c in e.comparators)
    if isinstance(e, ast.BoolOp):
        return all(_pure_condition(v) or pure(v) for v in e.values)
    if isinstance(e, ast.UnaryOp) and isinstance(e.op, ast.Not):
        return _pure_condition(e.operand) or pure(e.operand)
    return False


def _static_truth(e: ast.AST, var: str, val: ast.AST):
    """Outcome of test ``e`` when ``var`` holds the value of expression ``val`` (a constant or a display), else None."""
    def value_of(x):
        if isinstance(x, ast.NamedExpr):
            return value_of(x.value)
        if isinstance(x, ast.Name) and x.id == var:
            return val
        return None

    def kind(v):
        # ("const", python value) | ("obj",) for a display that is certainly an object, non-None
        if isinstance(v, ast.Constant):
            return ("const", v.value)
        if isinstance(v, (ast.Tuple, ast.List, ast.Set)):
            return ("obj", len(v.elts) > 0 and not any(isinstance(x, ast.Starred) for x in v.elts))
        if isinstance(v, ast.Dict):
            return ("obj", len(v.keys) > 0)
        return None

    v = value_of(e)
    if v is not None:
        k = kind(v)
        if k is None:
            return None
        if k[0] == "const":
            return bool(k[1])
        return True if k[1] else None
    if isinstance(e, ast.Compare) and len(e.ops) == 1:
        l, r = value_of(e.left), value_of(e.comparators[0])
        other = e.comparators[0] if l is not None else e.left if r is not None else None
        mine = l if l is not None else r
        if mine is None or not isinstance(other, ast.Constant):
            return None
        k = kind(mine)
        if k is None:
            return None
        op = e.ops[0]
        if isinstance(op, (ast.Is, ast.IsNot)) and other.value is None:
            is_none = k[0] == "const" and k[1] is None
            return is_none if isinstance(op, ast.Is) else not is_none
        if isinstance(op, (ast.Eq, ast.NotEq)) and k[0] == "const":
            try:
                eq = k[1] == other.value
            except Exception:  # noqa: BLE001
                return None
            return eq if isinstance(op, ast.Eq) else not eq
    return None


def resolve_exc_classes(prog: Program, func: Func, t: ast.expr) -> list[str]:
    """Classes named by an ``except`` clause expression (tuples and constant tuples are flattened)."""
    from .loader import dotted, NotConst

    out: list[str] = []
    if isinstance(t, ast.Tuple):
        for e in t.elts:
            out += resolve_exc_classes(prog, func, e)
        return out
    d = dotted(t)
    if d is None:
        return ["BaseException"]  # unknown expression: assume it may catch anything
    r = prog.resolve_dotted(func.module, d)
    # a module-level tuple of exception classes (e.g. hkjson.JSON_DECODE_EXCEPTIONS)
    parts = r.rsplit(".", 1)
    if len(parts) == 2 and parts[0] in prog.modules and parts[1] in prog.modules[parts[0]].assigns:
        vals = prog.modules[parts[0]].assigns[parts[1]]
        if len(vals) == 1 and isinstance(vals[0], ast.Tuple):
            m = prog.modules[parts[0]]
            for e in vals[0].elts:
                dd = dotted(e)
                if dd is None:
                    return ["BaseException"]
                out.append(prog.resolve_dotted(m, dd))
            return out
    from .loader import EXC_ALIASES

    return [EXC_ALIASES.get(r, r)]
