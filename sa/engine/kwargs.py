"""Keyword arguments of calls to package functions are put where the parameter stands.

``response.parse(part=data)`` and ``response.parse(data)`` are the same call; rules read "the first argument".  After the
package is indexed (so that callees resolve) and before any graph is built, a call whose possible callees are package
functions that all agree on the parameter list has the keywords that name positional parameters moved into position.  Gaps
are filled with the parameter's default when that is a constant.  Not rewritten: ``*args`` / ``**kwargs`` at the call,
keyword-only parameters (they stay keywords), a reordering that would change the order in which argument expressions with
an effect are evaluated.
"""

from __future__ import annotations

import ast
import copy

from .inline import _pure
from .loader import Program, dotted


def _params(prog: Program, f, callee_q: str, call: ast.Call):
    g = prog.functions.get(callee_q)
    if g is None or isinstance(g.node, ast.Lambda):
        return None
    a = g.node.args
    names = [x.arg for x in a.posonlyargs + a.args]
    defaults = [None] * (len(names) - len(a.defaults)) + list(a.defaults)
    drop = 0
    if g.cls is not None:
        decos = {dotted(d) for d in g.node.decorator_list}
        if "staticmethod" in decos:
            drop = 0
        elif "classmethod" in decos:
            drop = 1
        else:
            drop = 1
            if isinstance(call.func, ast.Attribute) and g.node.name != "__init__" or (isinstance(call.func, ast.Attribute) and call.func.attr == "__init__"):
                base = dotted(call.func.value)
                if base and prog.resolve_dotted(f.module, base) in prog.classes:
                    drop = 0  # Cls.method(obj, ..): the receiver is passed explicitly
    if a.vararg is not None:
        return None
    return tuple(names[drop:]), defaults[drop:], {x.arg for x in a.kwonlyargs}, a.kwarg is not None


def positionalise_keywords(prog: Program, res) -> int:
    done = 0
    for f in list(prog.functions.values()):
        if f.module.name.startswith("aiohomekit.testing"):
            continue
        node = f.node
        for call in ast.walk(node):
            if not (isinstance(call, ast.Call) and call.keywords):
                continue
            if any(k.arg is None for k in call.keywords) or any(isinstance(x, ast.Starred) for x in call.args):
                continue
            try:
                callees = res.resolve_call(f, call, record=False)
            except Exception:  # noqa: BLE001 - resolution is best effort here
                continue
            if not callees or any(c not in prog.functions for c in callees):
                continue
            sigs = [_params(prog, f, c, call) for c in callees]
            if any(s is None for s in sigs) or len({(s[0], s[3]) for s in sigs}) != 1:
                continue
            names, defaults, kwonly, has_kwarg = sigs[0]
            if has_kwarg:
                continue
            moved = [(names.index(k.arg), k) for k in call.keywords if k.arg in names]
            if not moved or any(k.arg not in names and k.arg not in kwonly for k in call.keywords):
                continue
            n_pos = len(call.args)
            if any(i < n_pos for i, _k in moved):
                continue  # would be a TypeError at run time: leave it
            top = max(i for i, _k in moved)
            by_pos = {i: k.value for i, k in moved}
            new_args = list(call.args)
            ok = True
            for i in range(n_pos, top + 1):
                if i in by_pos:
                    new_args.append(by_pos[i])
                else:
                    d = defaults[i]
                    if all(len(s[1]) > i and isinstance(s[1][i], ast.Constant) and s[1][i].value == getattr(d, "value", object()) for s in sigs) and isinstance(d, ast.Constant):
                        new_args.append(ast.copy_location(copy.deepcopy(d), call))
                    else:
                        ok = False
            written = [i for i, _k in moved]
            # reordering is unobservable when at most one of the moved argument expressions does anything (the others commute with it)
            if written != sorted(written) and sum(1 for _i, k in moved if not _pure(k.value)) > 1:
                ok = False
            if not ok:
                continue
            call.args = new_args
            call.keywords = [k for k in call.keywords if k.arg not in names]
            done += 1
    return done
