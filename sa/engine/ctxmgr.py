"""`with helper(..):` for a helper written with @contextlib.contextmanager / @asynccontextmanager is read as the statements
it stands for.

    @contextmanager
    def _failing_as(caught, raised, stage):
        try:
            yield
        except caught:
            raise raised(stage)

    with _failing_as(DecryptionError, InvalidAuthTagError, "step 3"):
        decrypted = decryptor.decrypt(..)

is the same program as `try: decrypted = .. except DecryptionError: raise InvalidAuthTagError("step 3")`: the body of the
`with` runs where the generator is suspended at its single `yield`; an exception of the body is raised at the `yield`
(contextlib's documented behaviour), so the handlers and `finally` blocks around the `yield` are the handlers around the
body; what follows the `yield` runs when the body is left normally.  Before anything is indexed, such a `with` statement is
replaced by: the helper's parameters bound to the arguments, the helper's body with its locals renamed and the `yield`
statement replaced by `<as-variable> = <yielded value>` and the body of the `with`.

Only where this is exact: one `yield`, as an expression statement, not in a loop or a nested function; no `return` in the
helper; no `*args / **kwargs`; the callee is a function of the same module or a method of the same class called on
`self`; and - when the helper has statements after the `yield` that are not in a `finally` - the body of the `with` does
not leave it by `return` / `break` / `continue` (those statements would still run in the real program).
"""

from __future__ import annotations

import ast
import copy

from .inline import InlineBlock, _Renamer

COL_BASE = 400


def _is_cm_decorator(d: ast.expr) -> bool:
    name = d.attr if isinstance(d, ast.Attribute) else d.id if isinstance(d, ast.Name) else None
    return name in ("contextmanager", "asynccontextmanager")


def _own(fn):
    stack = list(ast.iter_child_nodes(fn))
    while stack:
        x = stack.pop()
        yield x
        if isinstance(x, (ast.FunctionDef, ast.AsyncFunctionDef, ast.ClassDef, ast.Lambda)):
            continue
        stack.extend(ast.iter_child_nodes(x))


def _yield_stmt_path(body: list):
    """the single `yield` expression statement of a statement list, searched through try / with / if bodies (not loops):
    -> list of (statement list, index) from the outside in, or None"""
    found = []

    def go(stmts, trail):
        for i, st in enumerate(stmts):
            if isinstance(st, ast.Expr) and isinstance(st.value, ast.Yield):
                found.append(trail + [(stmts, i)])
            elif isinstance(st, (ast.Try,)):
                go(st.body, trail + [(stmts, i)])
                for h in st.handlers:
                    if any(isinstance(x, (ast.Yield, ast.YieldFrom)) for x in ast.walk(h)):
                        found.append(None)
                for part in (st.orelse, st.finalbody):
                    if any(isinstance(x, (ast.Yield, ast.YieldFrom)) for y in part for x in ast.walk(y)):
                        found.append(None)
            elif isinstance(st, (ast.With, ast.AsyncWith)):
                go(st.body, trail + [(stmts, i)])
            elif isinstance(st, ast.If):
                go(st.body, trail + [(stmts, i)])
                go(st.orelse, trail + [(stmts, i)])
            elif any(isinstance(x, (ast.Yield, ast.YieldFrom)) for x in ast.walk(st)):
                found.append(None)

    go(body, [])
    if len(found) != 1 or found[0] is None:
        return None
    return found[0]


def _eligible(fn) -> bool:
    if not any(_is_cm_decorator(d) for d in fn.decorator_list) or len(fn.decorator_list) != 1:
        return False
    a = fn.args
    if a.kwarg or a.posonlyargs:
        return False
    ys = [x for x in _own(fn) if isinstance(x, (ast.Yield, ast.YieldFrom))]
    if len(ys) != 1 or not isinstance(ys[0], ast.Yield):
        return False
    if any(isinstance(x, (ast.Return, ast.Global, ast.Nonlocal, ast.FunctionDef, ast.AsyncFunctionDef, ast.ClassDef, ast.Lambda)) for x in _own(fn)):
        return False
    if isinstance(fn, ast.FunctionDef) and any(isinstance(x, ast.Await) for x in _own(fn)):
        return False
    return _yield_stmt_path(_strip_doc(fn.body)) is not None


def _strip_doc(body: list) -> list:
    if body and isinstance(body[0], ast.Expr) and isinstance(body[0].value, ast.Constant) and isinstance(body[0].value.value, str):
        return body[1:]
    return body


def _post_statements(fn) -> bool:
    """does anything follow the `yield` on the normal path (outside `finally` blocks)?"""
    trail = _yield_stmt_path(_strip_doc(fn.body))
    for stmts, i in trail:
        if stmts[i + 1:]:
            return True
        st = stmts[i]
        if isinstance(st, ast.Try) and st.orelse:
            return True
    return False


def _leaves(body: list) -> bool:
    """return / break / continue that leaves this statement list (a loop inside keeps its own break / continue)"""
    def go(stmts, in_loop):
        for st in stmts:
            if isinstance(st, ast.Return):
                return True
            if isinstance(st, (ast.Break, ast.Continue)) and not in_loop:
                return True
            if isinstance(st, (ast.FunctionDef, ast.AsyncFunctionDef, ast.ClassDef)):
                continue
            for f in ("body", "orelse", "finalbody"):
                b = getattr(st, f, None)
                if isinstance(b, list) and b and isinstance(b[0], ast.stmt):
                    if go(b, in_loop or (f == "body" and isinstance(st, (ast.For, ast.AsyncFor, ast.While)))):
                        return True
            for h in getattr(st, "handlers", []) or []:
                if go(h.body, in_loop):
                    return True
        return False

    return go(body, False)


class _Pass:
    def __init__(self, trees: dict[str, ast.Module]):
        self.trees = trees
        self.count = 0
        self.sites: list[str] = []

    def _bind(self, fn, call: ast.Call, is_method: bool, prefix: str, with_body: list):
        """-> (binding statements, renaming of parameters bound through a temporary, substitution of the others)"""
        params = [a.arg for a in fn.args.args]
        defaults = dict(zip(params[len(params) - len(fn.args.defaults):], fn.args.defaults))
        for a, d in zip(fn.args.kwonlyargs, fn.args.kw_defaults):
            params.append(a.arg)
            if d is not None:
                defaults[a.arg] = d
        kwonly = {a.arg for a in fn.args.kwonlyargs}
        bound: dict[str, ast.expr] = {}
        pos = [p for p in params if p not in kwonly]
        if is_method:
            if not pos:
                return None
            bound[pos[0]] = call.func.value
            pos = pos[1:]
        if any(isinstance(a, ast.Starred) for a in call.args) or any(k.arg is None for k in call.keywords):
            return None
        extra = call.args[len(pos):]
        if extra and fn.args.vararg is None:
            return None
        for p, a in zip(pos, call.args):
            bound[p] = a
        for k in call.keywords:
            if k.arg not in params or k.arg in bound:
                return None
            bound[k.arg] = k.value
        for p in params:
            if p not in bound:
                if p not in defaults:
                    return None
                bound[p] = defaults[p]
        if fn.args.vararg is not None:
            params.append(fn.args.vararg.arg)
            bound[fn.args.vararg.arg] = ast.copy_location(ast.Tuple(elts=list(extra), ctx=ast.Load()), call)
        # names (re)bound inside the `with` body or the helper: an argument that mentions one of them is evaluated ONCE, at
        # entry, through a temporary; any other plain argument (constant, name, attribute chain, tuple of those) is put
        # where the parameter stands - `except caught:` then names the class itself
        rebound = {x.id for st in with_body for x in ast.walk(st) if isinstance(x, ast.Name) and isinstance(x.ctx, (ast.Store, ast.Del))}
        rebound |= {x.id for x in _own(fn) if isinstance(x, ast.Name) and isinstance(x.ctx, (ast.Store, ast.Del))}

        def plain(e) -> bool:
            if isinstance(e, ast.Constant):
                return True
            if isinstance(e, ast.Name):
                return e.id not in rebound
            if isinstance(e, ast.Attribute):
                return isinstance(e.value, ast.Name) and e.value.id not in rebound and e.value.id != "self" or (
                    isinstance(e.value, ast.Attribute) and plain(e.value))
            if isinstance(e, ast.Tuple):
                return all(plain(x) for x in e.elts)
            return False

        mapping, subst, binds = {}, {}, []
        for p in params:
            if plain(bound[p]) or (isinstance(bound[p], ast.Name) and bound[p].id == "self"):
                subst[p] = bound[p]
            else:
                mapping[p] = prefix + p
                st = ast.Assign(targets=[ast.Name(id=prefix + p, ctx=ast.Store())], value=copy.deepcopy(bound[p]), type_comment=None)
                binds.append(ast.copy_location(st, call))
        return binds, mapping, subst

    def _instantiate(self, fn, call: ast.Call, is_method: bool, with_st, item) -> ast.stmt | None:
        if _post_statements(fn) and _leaves(with_st.body):
            return None
        self.count += 1
        k = self.count
        prefix = f"_cm{k}_"
        b = self._bind(fn, call, is_method, prefix, with_st.body)
        if b is None:
            self.count -= 1
            return None
        binds, mapping, subst = b
        for x in _own(fn):
            if isinstance(x, ast.Name) and isinstance(x.ctx, (ast.Store, ast.Del)) and x.id not in mapping:
                mapping[x.id] = prefix + x.id
            elif isinstance(x, ast.ExceptHandler) and x.name and x.name not in mapping:
                mapping[x.name] = prefix + x.name
        body = copy.deepcopy(_strip_doc(fn.body))
        ren = _Renamer(mapping)
        body = [ren.visit(st) for st in body]

        class _Subst(ast.NodeTransformer):
            def visit_Name(self, n):
                if isinstance(n.ctx, ast.Load) and n.id in subst:
                    return ast.copy_location(copy.deepcopy(subst[n.id]), n)
                return n

        body = [_Subst().visit(st) for st in body]
        for st in body:
            for x in ast.walk(st):
                if isinstance(getattr(x, "col_offset", None), int):
                    x.col_offset += 1000 * (COL_BASE + k)
        trail = _yield_stmt_path(body)
        stmts, i = trail[-1]
        y = stmts[i].value
        repl = []
        if item.optional_vars is not None:
            val = y.value if y.value is not None else ast.Constant(value=None)
            repl.append(ast.copy_location(ast.Assign(targets=[item.optional_vars], value=val, type_comment=None), with_st))
        elif y.value is not None:
            repl.append(ast.copy_location(ast.Expr(value=y.value), with_st))
        repl += with_st.body
        stmts[i:i + 1] = repl
        block = InlineBlock(test=ast.Constant(value=True), body=binds + body, orelse=[])
        ast.copy_location(block, with_st)
        ast.fix_missing_locations(block)
        return block

    def _body(self, modname: str, funcs: dict, methods: dict, cls: str | None, body: list) -> list:
        out = []
        for st in body:
            st = self._stmt(modname, funcs, methods, cls, st)
            out.append(st)
        return out

    def _stmt(self, modname, funcs, methods, cls, st):
        if isinstance(st, ast.ClassDef):
            st.body = self._body(modname, funcs, methods, st.name, st.body)
            return st
        if isinstance(st, (ast.With, ast.AsyncWith)) and len(st.items) > 1:
            # `with a, b: body` is `with a: with b: body`
            inner = type(st)(items=st.items[1:], body=st.body, type_comment=None)
            ast.copy_location(inner, st)
            st.items = st.items[:1]
            st.body = [inner]
        for f in ("body", "orelse", "finalbody"):
            b = getattr(st, f, None)
            if isinstance(b, list) and b and isinstance(b[0], ast.stmt):
                setattr(st, f, self._body(modname, funcs, methods, cls, b))
        for h in getattr(st, "handlers", []) or []:
            h.body = self._body(modname, funcs, methods, cls, h.body)
        if isinstance(st, (ast.With, ast.AsyncWith)) and len(st.items) == 1 and isinstance(st.items[0].context_expr, ast.Call):
            call = st.items[0].context_expr
            fn, is_method = None, False
            if isinstance(call.func, ast.Name):
                fn = funcs.get(call.func.id)
            elif isinstance(call.func, ast.Attribute) and isinstance(call.func.value, ast.Name) and call.func.value.id == "self" and cls is not None:
                fn, is_method = methods.get((cls, call.func.attr)), True
            if fn is not None and isinstance(st, ast.AsyncWith) == isinstance(fn, ast.AsyncFunctionDef):
                new = self._instantiate(fn, call, is_method, st, st.items[0])
                if new is not None:
                    self.sites.append(f"{modname}:{st.lineno}")
                    # the instantiated body may itself contain such `with` statements
                    new.body = self._body(modname, funcs, methods, cls, new.body)
                    return new
        return st

    def run(self) -> dict:
        for mn, tree in self.trees.items():
            funcs = {st.name: st for st in tree.body if isinstance(st, (ast.FunctionDef, ast.AsyncFunctionDef)) and _eligible(st)}
            methods = {(c.name, st.name): st for c in tree.body if isinstance(c, ast.ClassDef) for st in c.body
                       if isinstance(st, (ast.FunctionDef, ast.AsyncFunctionDef)) and _eligible(st)}
            if not funcs and not methods:
                continue
            tree.body = self._body(mn, funcs, methods, None, tree.body)
            # a helper whose every use was instantiated is gone (its body must not be seen twice by package sweeps)
            for name, fn in list(funcs.items()):
                uses = sum(1 for x in ast.walk(tree) if isinstance(x, ast.Name) and x.id == name and isinstance(x.ctx, ast.Load))
                if uses == 0 and fn in tree.body and not _mentioned_elsewhere(self.trees, mn, name):
                    tree.body.remove(fn)
            for (cname, name), fn in list(methods.items()):
                uses = sum(1 for t in self.trees.values() for x in ast.walk(t) if isinstance(x, ast.Attribute) and x.attr == name)
                if uses == 0:
                    for c in tree.body:
                        if isinstance(c, ast.ClassDef) and c.name == cname and fn in c.body and len(c.body) > 1:
                            c.body.remove(fn)
        return {"context_managers_inlined": self.count, "context_managers_at": self.sites}


def _mentioned_elsewhere(trees, modname: str, name: str) -> bool:
    for mn, t in trees.items():
        if mn == modname:
            continue
        for x in ast.walk(t):
            if isinstance(x, ast.alias) and x.name == name:
                return True
            if isinstance(x, ast.Attribute) and x.attr == name:
                return True
    return False


def inline_context_managers(trees: dict[str, ast.Module]) -> dict:
    return _Pass(trees).run()
