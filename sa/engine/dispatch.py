"""A look-up table of handlers is read as the chain of tests it replaced.

    _HANDLERS = {"http": _response_received, "event": _event_received}      # class level: plain functions of the class
    ...
    handler = self._HANDLERS.get(kind)
    if handler is None:
        raise RuntimeError("Unknown http type")
    handler(self, message)

is `if kind == "http": self._response_received(message) elif kind == "event": self._event_received(message) else: raise`.
Before anything else is normalised, inside one function:

* `H = <table>.get(K)` (also `.get(K, None)`), where <table> is `self.NAME` / `type(self).NAME` / `<Class>.NAME` for a dict
  display in the enclosing class body, or a module-level `NAME`, with constant keys and the names of functions of that
  class / module as values, and K a local name that is bound once,
* H otherwise only tested (`H is None`, `H is not None`, `if H`, `if not H`) and called as a whole expression statement
  (`H(self, a..)` for a class table, `H(a..)` for a module table; also awaited),

is rewritten: the assignment becomes `if K == k1: H = "<handler k1>" elif .. else: H = None` (a constant marker per entry - it
is never called: every call is rewritten) and each call becomes `if K == k1: self.f1(a..) elif .. else: H(..)`.  The
flag analysis of the graph then knows on which paths H is None, the helper inliner brings the handlers' bodies back into
the caller, and rules meet the if-chain whichever way the dispatch is written.  A table whose every use was rewritten is
removed (package sweeps must not see handler functions referenced from a dead table).
"""

from __future__ import annotations

import ast
import copy


def _const_key(e) -> bool:
    return isinstance(e, ast.Constant) and isinstance(e.value, (str, bytes, int)) and not isinstance(e.value, bool)


def _table(display, funcs: set[str]):
    if not isinstance(display, ast.Dict) or not display.keys or len(display.keys) > 12:
        return None
    rows = []
    for k, v in zip(display.keys, display.values):
        if k is None or not _const_key(k) or not isinstance(v, ast.Name) or v.id not in funcs:
            return None
        rows.append((k, v.id))
    return rows


class _Pass:
    def __init__(self, trees):
        self.trees = trees
        self.count = 0

    def _function(self, fn, cls, mod_tables, cls_tables, used: set, cls_funcs=frozenset(), mod_funcs=frozenset()):
        # locals bound exactly once (K must be one of them)
        stores: dict[str, int] = {}
        for x in ast.walk(fn):
            if isinstance(x, ast.Name) and isinstance(x.ctx, (ast.Store, ast.Del)):
                stores[x.id] = stores.get(x.id, 0) + 1
        params = {a.arg for a in fn.args.args + fn.args.kwonlyargs}

        def lookup(e):
            """-> (rows, is_class_table, table key) for `<table>.get(K)` else None"""
            if not (isinstance(e, ast.Call) and isinstance(e.func, ast.Attribute) and e.func.attr == "get" and not e.keywords and 1 <= len(e.args) <= 2):
                return None
            dflt = None
            if len(e.args) == 2 and not (isinstance(e.args[1], ast.Constant) and e.args[1].value is None):
                # a default handler: `<Class>.f` / `f` of the class body for a class table, a module function for a module table
                d = e.args[1]
                if isinstance(d, ast.Attribute) and isinstance(d.value, ast.Name) and cls is not None and d.value.id == cls and d.attr in cls_funcs:
                    dflt = ("cls", d.attr)
                elif isinstance(d, ast.Name) and d.id in mod_funcs and stores.get(d.id, 0) == 0:
                    dflt = ("mod", d.id)
                else:
                    return None
            if any(isinstance(y, (ast.Yield, ast.YieldFrom, ast.Await, ast.NamedExpr, ast.Lambda)) for y in ast.walk(e.args[0])):
                return None
            t = e.func.value
            if isinstance(t, ast.Name) and t.id in mod_tables and stores.get(t.id, 0) == 0:
                if dflt is not None and dflt[0] != "mod":
                    return None
                return mod_tables[t.id], False, ("mod", t.id), (dflt[1] if dflt else None)
            if isinstance(t, ast.Attribute) and cls is not None and t.attr in cls_tables:
                b = t.value
                ok = (isinstance(b, ast.Name) and b.id in ("self", "cls", cls)) or (
                    isinstance(b, ast.Call) and isinstance(b.func, ast.Name) and b.func.id == "type" and len(b.args) == 1 and isinstance(b.args[0], ast.Name) and b.args[0].id == "self")
                if ok:
                    if dflt is not None and dflt[0] != "cls":
                        return None
                    return cls_tables[t.attr], True, ("cls", cls, t.attr), (dflt[1] if dflt else None)
            return None

        # candidates: H = <table>.get(K)
        cands = {}
        for x in ast.walk(fn):
            if type(x) is ast.Assign and len(x.targets) == 1 and isinstance(x.targets[0], ast.Name) and stores.get(x.targets[0].id) == 1:
                lk = lookup(x.value)
                if lk is not None:
                    cands[x.targets[0].id] = (x, lk)
        if not cands:
            return
        # every other use of H: a None / truth test, or the callee of a whole-statement call with the right first argument
        call_stmts: dict[str, list] = {h: [] for h in cands}
        ok_use: dict[int, bool] = {}
        for x in ast.walk(fn):
            if isinstance(x, ast.Expr):
                c = x.value.value if isinstance(x.value, ast.Await) else x.value
                if isinstance(c, ast.Call) and isinstance(c.func, ast.Name) and c.func.id in cands and not c.keywords or (
                        isinstance(c, ast.Call) and isinstance(c.func, ast.Name) and c.func.id in cands and all(k.arg for k in c.keywords)):
                    h = c.func.id
                    is_cls = cands[h][1][1]
                    if not any(isinstance(a, ast.Starred) for a in c.args) and (not is_cls or (c.args and isinstance(c.args[0], ast.Name) and c.args[0].id == "self")):
                        call_stmts[h].append((x, c))
                        ok_use[id(c.func)] = True
            if isinstance(x, ast.Compare) and len(x.ops) == 1 and isinstance(x.ops[0], (ast.Is, ast.IsNot)) and isinstance(x.left, ast.Name) and x.left.id in cands \
                    and isinstance(x.comparators[0], ast.Constant) and x.comparators[0].value is None:
                ok_use[id(x.left)] = True
            if isinstance(x, (ast.If, ast.While)) :
                t = x.test.operand if isinstance(x.test, ast.UnaryOp) and isinstance(x.test.op, ast.Not) else x.test
                if isinstance(t, ast.Name) and t.id in cands:
                    ok_use[id(t)] = True
        for h in list(cands):
            loads = [x for x in ast.walk(fn) if isinstance(x, ast.Name) and x.id == h and isinstance(x.ctx, ast.Load)]
            if not call_stmts[h] or any(not ok_use.get(id(x)) for x in loads):
                del cands[h]
        if not cands:
            return

        def chain(kname: str, rows, make_body, else_body, at):
            node = None
            for key, fname in reversed(rows):
                test = ast.Compare(left=ast.Name(id=kname, ctx=ast.Load()), ops=[ast.Eq()], comparators=[copy.deepcopy(key)])
                node = ast.If(test=test, body=make_body(key, fname), orelse=[node] if node is not None else else_body)
            ast.copy_location(node, at)
            ast.fix_missing_locations(node)
            return node

        repl: dict[int, ast.stmt] = {}
        pre: dict[int, ast.stmt] = {}
        for h, (asg, (rows, is_cls, tkey, dflt)) in cands.items():
            self.count += 1
            if dflt is not None:
                # `.get(K, default)`: a last row that every other key takes (a key object of its own: it equals no constant)
                rows = list(rows)
            used.add(tkey)
            # the key is evaluated once, where the look-up stood
            kname = f"_disp{self.count}_key"
            keep = ast.copy_location(ast.Assign(targets=[ast.Name(id=kname, ctx=ast.Store())], value=asg.value.args[0], type_comment=None), asg)
            ast.fix_missing_locations(keep)
            pre[id(asg)] = keep
            repl[id(asg)] = chain(kname, rows,
                                  lambda key, fname, h=h: [ast.Assign(targets=[ast.Name(id=h, ctx=ast.Store())], value=ast.Constant(value=f"<handler {fname}>"), type_comment=None)],
                                  [ast.Assign(targets=[ast.Name(id=h, ctx=ast.Store())], value=ast.Constant(value=(None if dflt is None else f"<handler {dflt}>")), type_comment=None)], asg)
            for st, c in call_stmts[h]:
                def body(key, fname, st=st, c=c, is_cls=is_cls):
                    if is_cls:
                        f = ast.Attribute(value=ast.Name(id="self", ctx=ast.Load()), attr=fname, ctx=ast.Load())
                        args = [copy.deepcopy(a) for a in c.args[1:]]
                    else:
                        f = ast.Name(id=fname, ctx=ast.Load())
                        args = [copy.deepcopy(a) for a in c.args]
                    call = ast.Call(func=f, args=args, keywords=[copy.deepcopy(k) for k in c.keywords])
                    val = ast.Await(value=call) if isinstance(st.value, ast.Await) else call
                    return [ast.copy_location(ast.Expr(value=val), st)]

                # the calls are chosen by the marker H holds (not by K again): the graph's flag analysis then knows that the
                # entry called is the entry looked up, and that the fall-back call of H itself is reached only with H is None
                crow = [(ast.Constant(value=f"<handler {fname}>"), fname) for _key, fname in rows]
                if dflt is not None and dflt not in [fn_ for _k, fn_ in rows]:
                    crow.append((ast.Constant(value=f"<handler {dflt}>"), dflt))
                repl[id(st)] = chain(h, crow, body, [st], st)

        def rewrite(stmts: list) -> list:
            out = []
            for st in stmts:
                for f in ("body", "orelse", "finalbody"):
                    b = getattr(st, f, None)
                    if isinstance(b, list) and b and isinstance(b[0], ast.stmt) and not isinstance(st, (ast.FunctionDef, ast.AsyncFunctionDef, ast.ClassDef)):
                        setattr(st, f, rewrite(b))
                for hd in getattr(st, "handlers", []) or []:
                    hd.body = rewrite(hd.body)
                if id(st) in pre:
                    out.append(pre[id(st)])
                out.append(repl.get(id(st), st))
            return out

        fn.body = rewrite(fn.body)

    def run(self) -> dict:
        for mn, tree in self.trees.items():
            mod_funcs = {st.name for st in tree.body if isinstance(st, (ast.FunctionDef, ast.AsyncFunctionDef))}
            mod_tables = {}
            for st in tree.body:
                if isinstance(st, ast.Assign) and len(st.targets) == 1 and isinstance(st.targets[0], ast.Name):
                    rows = _table(st.value, mod_funcs)
                    if rows:
                        mod_tables[st.targets[0].id] = rows
            used: set = set()
            for st in tree.body:
                if isinstance(st, (ast.FunctionDef, ast.AsyncFunctionDef)) and mod_tables:
                    self._function(st, None, mod_tables, {}, used, frozenset(), frozenset(mod_funcs))
                elif isinstance(st, ast.ClassDef):
                    meths = {x.name for x in st.body if isinstance(x, (ast.FunctionDef, ast.AsyncFunctionDef))}
                    cls_tables = {}
                    for x in st.body:
                        tgt = x.targets[0] if isinstance(x, ast.Assign) and len(x.targets) == 1 else x.target if isinstance(x, ast.AnnAssign) and x.value is not None else None
                        if isinstance(tgt, ast.Name):
                            rows = _table(x.value, meths)
                            if rows:
                                cls_tables[tgt.id] = rows
                    if not cls_tables and not mod_tables:
                        continue
                    for x in st.body:
                        if isinstance(x, (ast.FunctionDef, ast.AsyncFunctionDef)):
                            self._function(x, st.name, mod_tables, cls_tables, used, frozenset(meths), frozenset(mod_funcs))
                    # a class table whose every mention was rewritten is gone
                    for name in list(cls_tables):
                        if ("cls", st.name, name) in used and not any(
                                isinstance(y, ast.Attribute) and y.attr == name for t in self.trees.values() for y in ast.walk(t)) and not any(
                                isinstance(y, ast.Name) and y.id == name and isinstance(y.ctx, ast.Load) for y in ast.walk(st)):
                            st.body = [x for x in st.body if not ((isinstance(x, ast.Assign) and len(x.targets) == 1 and isinstance(x.targets[0], ast.Name) and x.targets[0].id == name)
                                                                  or (isinstance(x, ast.AnnAssign) and isinstance(x.target, ast.Name) and x.target.id == name))]
        return {"dispatch_tables_spelled_out": self.count}


def spell_out_dispatch(trees: dict[str, ast.Module]) -> dict:
    return _Pass(trees).run()
