"""Abstract interpretation: lower bound on len(buffer) for named local buffers (DESIGN 2.6).

Forward dataflow over the CFG, join = min, refined on test edges by ``len(b) <op> k`` / truthiness and updated by
``pop`` (-1), ``b = b[k:]`` (-k, or 0 when k is not constant), ``del b[:k]``, any other assignment (0).
Every ``b[i]`` (constant i) and ``b.pop(..)`` is an obligation: the bound must cover it; slices never raise.
"""

from __future__ import annotations

import ast
from dataclasses import dataclass

from .cfg import CFG, Node
from .loader import walk_expr

INF = 10**9


def _u(e) -> str:
    return " ".join(ast.unparse(e).split())


@dataclass
class Site:
    node: Node
    var: str
    text: str
    need: int
    have: int

    @property
    def covered(self) -> bool:
        return self.have >= self.need


class BufLen:
    def __init__(self, ctx, cfg: CFG, variables: set[str]):
        self.ctx = ctx
        self.cfg = cfg
        self.vars = set(variables)
        self.state_in: dict[int, dict[str, int]] = {}
        self.sites: list[Site] = []
        self._run()

    # ------------------------------------------------------------------ transfer
    def _const(self, e):
        return self.ctx.const(self.cfg.func, e, None)

    def _refine(self, n: Node, label: str, st: dict[str, int]) -> dict[str, int]:
        if n.kind != "test" or label not in ("T", "F"):
            return st
        e = n.exprs[0]
        inner = e.value if isinstance(e, ast.NamedExpr) else e
        out = dict(st)
        t = label == "T"
        # truthiness of the buffer itself (or of a walrus whose target is the buffer)
        name = None
        if isinstance(e, ast.NamedExpr) and isinstance(e.target, ast.Name) and e.target.id in self.vars:
            name = e.target.id
        elif isinstance(inner, ast.Name) and inner.id in self.vars:
            name = inner.id
        if name is not None:
            if t:
                out[name] = max(out.get(name, 0), 1)
            return out
        if isinstance(inner, ast.Compare) and len(inner.ops) == 1:
            l, op, r = inner.left, inner.ops[0], inner.comparators[0]
            flip = False
            if not (isinstance(l, ast.Call) and isinstance(l.func, ast.Name) and l.func.id == "len"):
                l, r = r, l
                flip = True
            # a local that holds len(buffer) of a buffer unchanged since (`remaining = len(tail)`) is that length
            for side in (l, r):
                if isinstance(side, ast.Name) and side.id not in self.vars:
                    held = [kk for kk, vv in st.items() if kk.startswith("@" + side.id + "=") and vv == 1]
                    if len(held) == 1:
                        lencall = ast.Call(func=ast.Name(id="len", ctx=ast.Load()), args=[ast.Name(id=held[0].split("=", 1)[1], ctx=ast.Load())], keywords=[])
                        if side is l:
                            l = lencall
                        else:
                            l, r = lencall, l
                            flip = not flip
                        break
            if isinstance(l, ast.Call) and isinstance(l.func, ast.Name) and l.func.id == "len" and l.args and isinstance(l.args[0], ast.Name):
                v = l.args[0].id
                k = self._const(r)
                if v in self.vars and isinstance(k, int):
                    opn = type(op).__name__
                    if flip:
                        opn = {"Lt": "Gt", "Gt": "Lt", "LtE": "GtE", "GtE": "LtE"}.get(opn, opn)
                    lb = None
                    if opn == "Gt":
                        lb = k + 1 if t else None
                    elif opn == "GtE":
                        lb = k if t else None
                    elif opn == "Lt":
                        lb = None if t else k
                    elif opn == "LtE":
                        lb = None if t else k + 1
                    elif opn == "Eq":
                        lb = k if t else (1 if k == 0 else None)
                    elif opn == "NotEq":
                        lb = (1 if k == 0 else None) if t else k
                    if lb is not None:
                        out[v] = max(out.get(v, 0), lb)
        return out

    def _transfer(self, n: Node, st: dict[str, int], record: bool) -> dict[str, int]:
        out = dict(st)
        if n.ast is None or n.kind in ("handler", "funcdef", "with_exit", "loop_head", "entry", "exit", "xexit"):
            return out
        # obligations and pops, in evaluation order of a single statement (pops are sequenced left-to-right)
        pops: dict[str, int] = {}
        for e in n.exprs:
            if e is None:
                continue
            subs = list(walk_expr(e))
            subs.sort(key=lambda s: (getattr(s, "lineno", 0), getattr(s, "col_offset", 0)))
            for sub in subs:
                if isinstance(sub, ast.Subscript) and isinstance(sub.value, ast.Name) and sub.value.id in self.vars:
                    if isinstance(sub.slice, ast.Slice) or isinstance(sub.ctx, (ast.Store, ast.Del)):
                        continue
                    idx = self._const(sub.slice)
                    if isinstance(idx, int):
                        need = idx + 1 if idx >= 0 else -idx
                        if record:
                            self.sites.append(Site(n, sub.value.id, f"{sub.value.id}[{idx}]", need, out.get(sub.value.id, 0)))
                    elif record:
                        self.sites.append(Site(n, sub.value.id, f"{sub.value.id}[{_u(sub.slice)}]", INF, out.get(sub.value.id, 0)))
                if (
                    isinstance(sub, ast.Call)
                    and isinstance(sub.func, ast.Attribute)
                    and sub.func.attr == "pop"
                    and isinstance(sub.func.value, ast.Name)
                    and sub.func.value.id in self.vars
                ):
                    v = sub.func.value.id
                    if record:
                        self.sites.append(Site(n, v, f"{v}.pop({', '.join(_u(a) for a in sub.args)})", 1, out.get(v, 0)))
                    out[v] = max(0, out.get(v, 0) - 1)
                    for kk in [kk for kk in out if kk.startswith("@") and kk.endswith("=" + v)]:
                        out[kk] = 0
        a = n.ast
        if n.kind == "stmt":
            if isinstance(a, (ast.Assign, ast.AnnAssign)):
                tgts = a.targets if isinstance(a, ast.Assign) else [a.target]
                val = a.value
                for t in tgts:
                    for nm in ast.walk(t):
                        if isinstance(nm, ast.Name) and isinstance(nm.ctx, ast.Store) and nm.id in self.vars:
                            new = 0
                            if (
                                isinstance(t, ast.Name)
                                and isinstance(val, ast.Subscript)
                                and isinstance(val.value, ast.Name)
                                and val.value.id == nm.id
                                and isinstance(val.slice, ast.Slice)
                                and val.slice.upper is None
                                and val.slice.step is None
                            ):
                                k = self._const(val.slice.lower) if val.slice.lower is not None else 0
                                if isinstance(k, int) and k >= 0:
                                    new = max(0, out.get(nm.id, 0) - k)
                            elif isinstance(t, ast.Name) and isinstance(val, ast.Constant) and isinstance(val.value, (bytes, str)):
                                new = len(val.value)
                            out[nm.id] = new
            elif isinstance(a, ast.AugAssign) and isinstance(a.target, ast.Name) and a.target.id in self.vars:
                pass  # += only grows a buffer
            elif isinstance(a, ast.Delete):
                for t in a.targets:
                    if isinstance(t, ast.Subscript) and isinstance(t.value, ast.Name) and t.value.id in self.vars:
                        v = t.value.id
                        k = None
                        if isinstance(t.slice, ast.Slice) and t.slice.lower is None and t.slice.step is None and t.slice.upper is not None:
                            k = self._const(t.slice.upper)
                        out[v] = max(0, out.get(v, 0) - k) if isinstance(k, int) and k >= 0 else 0
        elif n.kind == "for":
            for nm in ast.walk(a.target):
                if isinstance(nm, ast.Name) and nm.id in self.vars:
                    out[nm.id] = 0
        elif n.kind == "with_enter":
            for it in a.items:
                if it.optional_vars is not None:
                    for nm in ast.walk(it.optional_vars):
                        if isinstance(nm, ast.Name) and nm.id in self.vars:
                            out[nm.id] = 0
        # length snapshots: `x = len(buf)` holds until buf or x is bound again / buf is changed in place
        stored = set()
        if n.kind == "stmt" and a is not None:
            stored = {nm.id for nm in ast.walk(a) if isinstance(nm, ast.Name) and isinstance(nm.ctx, (ast.Store, ast.Del))}
            for sub in ast.walk(a):
                if isinstance(sub, (ast.Subscript, ast.Attribute)) and isinstance(sub.ctx, (ast.Store, ast.Del)) and isinstance(sub.value, ast.Name):
                    stored.add(sub.value.id)
                if isinstance(sub, ast.AugAssign) and isinstance(sub.target, ast.Name):
                    stored.add(sub.target.id)
                if isinstance(sub, ast.Call) and isinstance(sub.func, ast.Attribute) and isinstance(sub.func.value, ast.Name) and sub.func.value.id in self.vars \
                        and sub.func.attr in ("pop", "append", "extend", "insert", "remove", "clear", "reverse"):
                    stored.add(sub.func.value.id)
        elif n.kind in ("for", "with_enter") and a is not None:
            stored = {nm.id for nm in ast.walk(a.target if n.kind == "for" else a) if isinstance(nm, ast.Name) and isinstance(nm.ctx, ast.Store)}
        for e in n.exprs:
            if e is not None:
                stored |= {sub.target.id for sub in walk_expr(e) if isinstance(sub, ast.NamedExpr) and isinstance(sub.target, ast.Name)}
        for kk in [kk for kk in out if kk.startswith("@")]:
            x_, b_ = kk[1:].split("=", 1)
            if x_ in stored or b_ in stored:
                out[kk] = 0
        if n.kind == "stmt" and isinstance(a, ast.Assign) and len(a.targets) == 1 and isinstance(a.targets[0], ast.Name) and a.targets[0].id not in self.vars \
                and isinstance(a.value, ast.Call) and isinstance(a.value.func, ast.Name) and a.value.func.id == "len" and len(a.value.args) == 1 \
                and isinstance(a.value.args[0], ast.Name) and a.value.args[0].id in self.vars:
            out["@" + a.targets[0].id + "=" + a.value.args[0].id] = 1
        # walrus definitions
        for e in n.exprs:
            if e is None:
                continue
            for sub in walk_expr(e):
                if isinstance(sub, ast.NamedExpr) and isinstance(sub.target, ast.Name) and sub.target.id in self.vars:
                    out[sub.target.id] = 0
        return out

    # ------------------------------------------------------------------ fix-point
    def _run(self) -> None:
        cfg = self.cfg
        init = {v: 0 for v in self.vars}
        self.state_in = {cfg.entry.id: dict(init)}
        work = [cfg.entry.id]
        iters = 0
        while work and iters < 20000:
            iters += 1
            u = work.pop()
            st = self.state_in[u]
            n = cfg.nodes[u]
            post = self._transfer(n, st, record=False)
            for d, label, exc in n.succ:
                # an exception leaves before the statement's effects are complete: use the pre-state
                s2 = dict(st) if label == "x" else self._refine(n, label, post)
                old = self.state_in.get(d)
                if old is None:
                    self.state_in[d] = dict(s2)
                    work.append(d)
                else:
                    new = {v: min(old.get(v, 0), s2.get(v, 0)) for v in set(self.vars) | set(old) | set(s2)}
                    if new != old:
                        self.state_in[d] = new
                        work.append(d)
        self.sites = []
        for nid, st in sorted(self.state_in.items()):
            self._transfer(cfg.nodes[nid], st, record=True)
