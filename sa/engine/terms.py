"""Value provenance: reaching definitions over the CFG and symbolic *terms*.

A term is a nested tuple describing where a value comes from (def-use chains followed through
locals, closures and single-return package functions).  Nothing is executed and no path condition
is handed to a solver; this is classic def-use / value numbering.

Term forms
    ('const', v)                      literal or folded package constant
    ('param', name)                   parameter of the function under analysis
    ('glob', dotted)                  imported / module-level / builtin name (canonical dotted name)
    ('attr', base, name)
    ('call', fn, (args..), ((kw, t)..), site)      site = value number of the call site
    ('sub', base, index) ; ('slice', lo, hi, step)
    ('add', (t1, t2, ...))            flattened ``+``
    ('binop', op, l, r) ; ('unop', op, t) ; ('cmp', (ops..), (operands..)) ; ('bool', op, (ts..))
    ('tuple', (..)) ('list', (..)) ('set', (..)) ('dict', ((k, v)..))
    ('fstr', (parts..))  parts: ('const', s) | ('fmt', t, conv, spec)
    ('ifexp', c, a, b) ; ('await', t) ; ('yield', ordinal) ; ('star', t)
    ('comp', kind, elt, ((target, iter, (conds..))..)) ; ('cvar', name)
    ('lambda', (params..), body) ; ('closure', qualname)
    ('iter', t)                       an element obtained by iterating t
    ('enter', t)                      result of entering a context manager
    ('caught', (classes..))           exception bound by ``except .. as``
    ('phi', (t1, t2, ..))             several reaching definitions
    ('loopvar', name)                 loop-carried definition (cycle cut)
    ('unknown', why)
"""

from __future__ import annotations

import ast
from collections import deque
from typing import Any

from .cfg import CFG, Node
from .loader import PKG, Func, NotConst, Program, StructConst, StructMethod, PartialConst, dotted, walk_expr, walk_own
from .resolve import Resolver

BUILTINS = {
    "len", "bytes", "bytearray", "int", "str", "dict", "list", "tuple", "set", "frozenset", "float", "bool",
    "min", "max", "abs", "sum", "any", "all", "range", "enumerate", "zip", "sorted", "reversed", "isinstance",
    "hasattr", "getattr", "setattr", "print", "open", "next", "iter", "type", "repr", "hash", "id", "map",
    "filter", "round", "pow", "divmod", "hex", "ord", "chr", "super", "object", "memoryview", "callable",
    "True", "False", "None", "Exception", "ValueError", "KeyError", "TypeError", "format", "vars", "issubclass",
}  # fmt: skip

IDENTITY_WRAPPERS = {"bytes", "bytearray", "memoryview"}


def _hashable(v):
    if isinstance(v, (list, tuple)):
        return tuple(_hashable(x) for x in v)
    if isinstance(v, bytearray):
        return bytes(v)
    if isinstance(v, dict):
        return tuple(sorted(((repr(k), _hashable(x)) for k, x in v.items())))
    if isinstance(v, (set, frozenset)):
        return frozenset(_hashable(x) for x in v)
    return v


class _Def:
    __slots__ = ("kind", "value", "path", "extra")

    def __init__(self, kind, value=None, path=(), extra=None):
        self.kind = kind
        self.value = value
        self.path = path
        self.extra = extra


def _targets(t: ast.expr, path=()):
    """Yield (name, path) for Name targets inside a (possibly nested) assignment target."""
    if isinstance(t, ast.Name):
        yield t.id, path
    elif isinstance(t, (ast.Tuple, ast.List)):
        for i, e in enumerate(t.elts):
            if isinstance(e, ast.Starred):
                yield from _targets(e.value, path + (("star", i),))
            else:
                yield from _targets(e, path + (i,))


class DefUse:
    """Reaching definitions for local names of one function (lazy, per query)."""

    def __init__(self, cfg: CFG):
        self.cfg = cfg
        self.func = cfg.func
        self.defs: dict[int, dict[str, _Def]] = {}
        self.nonlocal_names: set[str] = set()
        self._cache: dict[tuple[int, str], list] = {}
        self._collect()

    def _collect(self) -> None:
        f = self.func
        entry = {}
        if not isinstance(f.node, ast.Lambda) or True:
            for pn in f.params:
                entry[pn] = _Def("param", pn)
        self.defs[self.cfg.entry.id] = entry
        for n in walk_own(f.node):
            if isinstance(n, (ast.Global, ast.Nonlocal)):
                self.nonlocal_names.update(n.names)
        for n in self.cfg.nodes:
            d: dict[str, _Def] = {}
            a = n.ast
            if n.kind == "stmt" and a is not None:
                if isinstance(a, ast.Assign):
                    for t in a.targets:
                        for name, path in _targets(t):
                            d[name] = _Def("assign", a.value, path)
                elif isinstance(a, ast.AnnAssign) and a.value is not None:
                    for name, path in _targets(a.target):
                        d[name] = _Def("assign", a.value, path)
                elif isinstance(a, ast.AugAssign) and isinstance(a.target, ast.Name):
                    d[a.target.id] = _Def("aug", a.value, (), a.op)
                elif isinstance(a, (ast.Import, ast.ImportFrom)):
                    for al in a.names:
                        nm = al.asname or al.name.split(".")[0]
                        d[nm] = _Def("import", al.name)
                elif isinstance(a, ast.Delete):
                    for t in a.targets:
                        if isinstance(t, ast.Name):
                            d[t.id] = _Def("del")
            elif n.kind == "for":
                for name, path in _targets(a.target):
                    d[name] = _Def("for", a.iter, path)
            elif n.kind == "with_enter":
                for it in a.items:
                    if it.optional_vars is not None:
                        for name, path in _targets(it.optional_vars):
                            d[name] = _Def("with", it.context_expr, path)
            elif n.kind == "handler":
                if a.name:
                    d[a.name] = _Def("except", a)
            elif n.kind == "funcdef":
                d[a.name] = _Def("funcdef", a)
            # walrus targets anywhere in the node's own expressions
            for e in n.exprs:
                if e is None:
                    continue
                for sub in walk_expr(e):
                    if isinstance(sub, ast.NamedExpr) and isinstance(sub.target, ast.Name):
                        if sub.target.id not in d:
                            d[sub.target.id] = _Def("walrus", sub.value)
            if d:
                self.defs[n.id] = d
        self.local_names = set()
        for d in self.defs.values():
            self.local_names.update(d.keys())
        self.local_names -= self.nonlocal_names

    def reaching(self, node_id: int, var: str) -> list[tuple[int, _Def]]:
        """Definitions of ``var`` that may reach the *entry* of node ``node_id``."""
        key = (node_id, var)
        if key in self._cache:
            return self._cache[key]
        out: list[tuple[int, _Def]] = []
        seen: set[int] = set()
        dq = deque()
        for src, label, _exc in self.cfg.nodes[node_id].pred:
            dq.append((src, label))
        while dq:
            u, label = dq.popleft()
            d = self.defs.get(u, {}).get(var)
            if d is not None and label != "x":
                if (u, d) not in out:
                    out.append((u, d))
                continue
            # an exception edge out of a defining node: the definition did not complete
            if u in seen:
                continue
            seen.add(u)
            for src, lab, _exc in self.cfg.nodes[u].pred:
                dq.append((src, lab))
        out.sort(key=lambda x: x[0])
        self._cache[key] = out
        return out


class Terms:
    def __init__(self, prog: Program, resolver: Resolver, flow, inline_depth: int = 3, no_inline=()):
        self.no_inline = set(no_inline)
        self.prog = prog
        _PROG[0] = prog
        self.res = resolver
        self.flow = flow
        self.inline_depth = inline_depth
        self._du: dict[str, DefUse] = {}
        self._sites: dict[int, tuple] = {}
        self._site_counter: dict[str, int] = {}
        self.max_depth_reached = 0
        self._yield_ord: dict[str, dict[int, int]] = {}

    # ------------------------------------------------------------------ infrastructure
    def du(self, cfg: CFG) -> DefUse:
        q = cfg.func.qualname
        d = self._du.get(q)
        if d is None or d.cfg is not cfg:
            d = DefUse(cfg)
            self._du[q] = d
        return d

    def _site(self, f: Func, call: ast.AST) -> tuple:
        s = self._sites.get(id(call))
        if s is None:
            k = self._site_counter.get(f.qualname, 0)
            self._site_counter[f.qualname] = k + 1
            s = (f.qualname.rsplit(".", 1)[-1], getattr(call, "lineno", 0), getattr(call, "col_offset", 0))
            self._sites[id(call)] = s
        return s

    def yield_ordinal(self, f: Func, y: ast.AST) -> int:
        m = self._yield_ord.get(f.qualname)
        if m is None:
            ys = [n for n in walk_own(f.node) if isinstance(n, (ast.Yield, ast.YieldFrom))]
            ys.sort(key=lambda n: (n.lineno, n.col_offset))
            m = {id(n): i for i, n in enumerate(ys)}
            self._yield_ord[f.qualname] = m
        return m.get(id(y), -1)

    # ------------------------------------------------------------------ public API
    def of(self, cfg: CFG, node: Node | int, expr: ast.expr, depth: int = 0) -> tuple:
        nid = node if isinstance(node, int) else node.id
        return self._t(cfg, nid, expr, {}, depth, frozenset())

    def var_at(self, cfg: CFG, node: Node | int, name: str, depth: int = 0) -> tuple:
        nid = node if isinstance(node, int) else node.id
        return self._name(cfg, nid, name, {}, depth, frozenset())

    def var_after(self, cfg: CFG, node: Node | int, name: str) -> tuple:
        """Value of ``name`` right after node executed normally."""
        nid = node if isinstance(node, int) else node.id
        du = self.du(cfg)
        d = du.defs.get(nid, {}).get(name)
        if d is not None:
            return self._def_term(cfg, nid, name, d, {}, 0, frozenset())
        return self.var_at(cfg, nid, name)

    # ------------------------------------------------------------------ names
    def _name(self, cfg: CFG, nid: int, name: str, env, depth, guard) -> tuple:
        if name in env:
            return env[name]
        du = self.du(cfg)
        f = cfg.func
        if name in du.local_names:
            rd = du.reaching(nid, name)
            terms = []
            for def_nid, d in rd:
                terms.append(self._def_term(cfg, def_nid, name, d, env, depth, guard))
            terms = _dedupe(terms)
            if not terms:
                return ("unknown", f"undefined:{name}")
            if len(terms) == 1:
                if terms[0] == ("list", ()) and len(rd) == 1 and rd[0][1].kind == "assign":
                    built = self._appended(cfg, rd[0][0], nid, name, env, depth, guard)
                    if built is not None:
                        return built
                return terms[0]
            return ("phi", tuple(terms))
        # closure variable of an enclosing function
        g = f.parent
        while g is not None:
            pcfg = self.flow.cfg(g.qualname)
            pdu = self.du(pcfg)
            if name in pdu.local_names:
                terms = []
                for def_nid, dd in sorted(pdu.defs.items()):
                    if name in dd:
                        terms.append(self._def_term(pcfg, def_nid, name, dd[name], {}, depth, guard))
                terms = _dedupe(terms)
                if len(terms) == 1:
                    return terms[0]
                return ("phi", tuple(terms)) if terms else ("unknown", f"closure:{name}")
            g = g.parent
        return self._global(f, name)

    def _unpassed_default(self, f: Func, pname: str):
        """A parameter with a constant default that no call in the package passes (positionally, by keyword, through * / **):
        inside the package it always has that default -> the constant term, else None.  (`open(.., tag_length=4)` added to a
        function whose callers are unchanged.)"""
        cache = self.__dict__.setdefault("_upd_cache", {})
        key = (f.qualname, pname)
        if key in cache:
            return cache[key]
        cache[key] = None
        node = f.node
        if isinstance(node, ast.Lambda) or f.name.startswith("__") and f.name != "__init__":
            return None
        a = node.args
        pos = [x.arg for x in a.posonlyargs + a.args]
        kwonly = [x.arg for x in a.kwonlyargs]
        if pname in pos:
            pi = pos.index(pname)
            di = pi - (len(pos) - len(a.defaults))
            dflt = a.defaults[di] if di >= 0 else None
        elif pname in kwonly:
            pi = None
            dflt = a.kw_defaults[kwonly.index(pname)]
        else:
            return None
        if dflt is None:
            return None
        try:
            dv = self.prog.try_const(dflt, f.module, f.cls, NotConst)
        except Exception:  # noqa: BLE001
            return None
        if dv is NotConst or not isinstance(dv, (int, bytes, str, bool, type(None))):
            return None
        # index of calls by the name they use, built once
        idx = self.__dict__.get("_call_index")
        if idx is None:
            idx = {}
            for g in self.prog.package_functions():
                if isinstance(g.node, ast.Lambda):
                    continue
                for c in ast.walk(g.node):
                    if isinstance(c, ast.Call):
                        nm = c.func.attr if isinstance(c.func, ast.Attribute) else c.func.id if isinstance(c.func, ast.Name) else None
                        if nm:
                            idx.setdefault(nm, []).append((g, c))
            self.__dict__["_call_index"] = idx
        names = {f.name}
        if f.name == "__init__" and f.cls is not None:
            names |= {f.cls.qualname.rsplit(".", 1)[-1], "__init__", "super"}
        off = 1 if (f.cls is not None and "staticmethod" not in f.decorators) else 0
        n_calls = 0
        for nm in names:
            for g, c in idx.get(nm, []):
                try:
                    callees = self.res.resolve_call(g, c, record=False)
                except Exception:  # noqa: BLE001
                    callees = []
                direct = f.qualname in callees
                if not direct and not (any(x.startswith("?") for x in callees) or not callees):
                    continue  # resolved to something else
                n_calls += 1
                if any(k.arg in (pname, None) for k in c.keywords) or any(isinstance(x, ast.Starred) for x in c.args):
                    return None
                if pi is not None:
                    eff = pi - (off if isinstance(c.func, ast.Attribute) or f.name == "__init__" else 0)
                    if len(c.args) > eff:
                        return None
        # a function whose reference escapes (returned, passed as a callback, stored in a table, bound by partial) may be called
        # from anywhere with any arguments: every mention of its name in the package must be the callee of a call
        if f.name == "__init__":
            return None
        esc = self.__dict__.get("_escaping_names")
        if esc is None:
            esc = set()
            for m in self.prog.modules.values():
                callees_ = {id(c.func) for c in ast.walk(m.tree) if isinstance(c, ast.Call)}
                for x in ast.walk(m.tree):
                    if isinstance(x, (ast.Attribute, ast.Name)) and isinstance(x.ctx, ast.Load) and id(x) not in callees_:
                        esc.add(x.attr if isinstance(x, ast.Attribute) else x.id)
            self.__dict__["_escaping_names"] = esc
        if f.name in esc:
            return None
        cache[key] = _const(dv)
        return cache[key]

    def _appended(self, cfg: CFG, def_nid: int, use_nid: int, name: str, env, depth, guard):
        """`x = []` followed, on every path to the use, by the same straight-line `x.append(E)` statements (none in a loop the
        definition is not in, nothing else done to x in the function): the list of those E, in order.  None otherwise."""
        apps = []
        dn = cfg.nodes[def_nid]
        loops_of = lambda n_: tuple(id(fr[1]) for fr in n_.frames if fr[0] == "loop")  # noqa: E731
        for n in cfg.nodes:
            a = n.ast
            if a is None or n.id in (def_nid,):
                continue
            roots = [a] if n.kind == "stmt" else [e for e in n.exprs if e is not None]
            for r in roots:
                for x in ast.walk(r):
                    if isinstance(x, ast.Name) and x.id == name:
                        # every mention of x: the receiver of a whole-statement append, or a plain read at / after the use
                        ok_app = n.kind == "stmt" and isinstance(a, ast.Expr) and isinstance(a.value, ast.Call) and isinstance(a.value.func, ast.Attribute) \
                            and a.value.func.value is x and a.value.func.attr == "append" and len(a.value.args) == 1 and not a.value.keywords \
                            and not isinstance(a.value.args[0], ast.Starred) and not any(isinstance(y, ast.Name) and y.id == name for y in ast.walk(a.value.args[0]))
                        if ok_app:
                            if n not in apps:
                                apps.append(n)
                        elif isinstance(x.ctx, ast.Load) and n.id != use_nid and (n.id == def_nid or cfg.find_path(def_nid, n.id) is None or cfg.find_path(use_nid, n.id) is not None
                                                                                   or cfg.find_path(n.id, use_nid) is None):
                            pass  # not between the definition and the use
                        elif n.id == use_nid and isinstance(x.ctx, ast.Load):
                            pass
                        else:
                            return None
        if not apps or len(apps) > 16:
            return None
        for n in apps:
            if loops_of(n) != loops_of(dn):
                return None
            if cfg.find_path(def_nid, use_nid, avoid_nodes=[n.id]) is not None or n.id == use_nid:
                return None
        path = cfg.find_path(def_nid, use_nid)
        if path is None:
            return None
        order = [h[0] for h in path]
        if any(n.id not in order for n in apps):
            return None
        apps.sort(key=lambda n: order.index(n.id))
        # an append that could run twice between definition and use (a cycle through it) is not a straight line
        for n in apps:
            for d_, l_, _x in n.succ:
                if l_ != "x" and (d_ == n.id or cfg.find_path(d_, n.id, avoid_nodes=[def_nid, use_nid]) is not None):
                    return None
        return ("list", tuple(self._t(cfg, n.id, n.ast.value.args[0], env, depth, guard) for n in apps))

    def _global(self, f: Func, name: str) -> tuple:
        p = self.prog
        r = p.resolve_dotted(f.module, name)
        if r.startswith(PKG + "."):
            try:
                v = p.const_of(r)
                return _const(v)
            except NotConst:
                pass
            if r in p.functions:
                return ("glob", r)
        return ("glob", r)

    def _def_term(self, cfg: CFG, def_nid: int, name: str, d: _Def, env, depth, guard) -> tuple:
        key = (cfg.func.qualname, def_nid, name)
        if key in guard:
            return ("loopvar", name)
        guard = guard | {key}
        k = d.kind
        if k == "param":
            dv = self._unpassed_default(cfg.func, name)
            return dv if dv is not None else ("param", name)
        if k == "assign" or k == "walrus":
            t = self._t(cfg, def_nid, d.value, env, depth, guard)
            return _project(t, d.path)
        if k == "aug":
            prev = self._name(cfg, def_nid, name, env, depth, guard)
            val = self._t(cfg, def_nid, d.value, env, depth, guard)
            return _binop(d.extra, prev, val)
        if k == "for":
            # the iterable is evaluated at the for_iter node preceding the head
            it = self._t(cfg, def_nid, d.value, env, depth, guard)
            return _project(("iter", it), d.path)
        if k == "with":
            t = self._t(cfg, def_nid, d.value, env, depth, guard)
            if isinstance(d.value, ast.Call) and isinstance(d.value.func, ast.Name) and d.value.func.id == "memoryview" and len(d.value.args) == 1:
                return _project(t, d.path)  # `with memoryview(x) as v`: a memoryview enters as itself, and reads as the bytes of x
            return _project(("enter", t), d.path)
        if k == "except":
            n = cfg.nodes[def_nid]
            return ("caught", tuple(n.handler_classes or ("BaseException",)))
        if k == "funcdef":
            fn = cfg.func.nested.get(name)
            return ("closure", fn.qualname if fn else name)
        if k == "import":
            return ("glob", d.value)
        if k == "del":
            return ("unknown", f"deleted:{name}")
        return ("unknown", k)

    # ------------------------------------------------------------------ expressions
    def _t(self, cfg: CFG, nid: int, e: ast.expr, env, depth, guard) -> tuple:
        p = self.prog
        f = cfg.func
        T = lambda x: self._t(cfg, nid, x, env, depth, guard)  # noqa: E731
        if e is None:
            return ("const", None)
        if isinstance(e, ast.Constant):
            return _const(e.value)
        if isinstance(e, ast.Name):
            return self._name(cfg, nid, e.id, env, depth, guard)
        if isinstance(e, ast.NamedExpr):
            return T(e.value)
        if isinstance(e, ast.Attribute):
            d = dotted(e)
            if d is not None:
                head = d.split(".")[0]
                du = self.du(cfg)
                if head not in env and head not in du.local_names and not self._is_closure_var(f, head):
                    r = p.resolve_dotted(f.module, d)
                    if r.startswith(PKG + "."):
                        try:
                            return _const(p.const_of(r))
                        except NotConst:
                            pass
                        # Enum member .value
                        if d.endswith(".value"):
                            try:
                                return _const(p.const_of(r[: -len(".value")]))
                            except NotConst:
                                pass
                    if head in f.module.imports or head in f.module.classes or head in f.module.functions:
                        if not r.startswith(PKG + ".") or r in p.functions or r in p.classes or r in p.modules or isinstance(e.value, ast.Name):
                            return ("glob", r)
                        # an attribute of a package constant (TLV.kTLVMethod_Resume.to_bytes): evaluate the base
            base = T(e.value)
            if base[0] == "const":
                v = base[1]
                if isinstance(v, StructConst) and e.attr == "size":
                    return ("const", v.size)
                if isinstance(v, StructConst) and e.attr in ("pack", "unpack", "unpack_from"):
                    return ("const", StructMethod(v, e.attr))
            # a field of a record built in place: SessionKeys(a2c_key=x, c2a_key=y).a2c_key is x (NamedTuple / plain dataclass
            # of the package without a hand-written __init__)
            fv = _record_field(p, base, e.attr)
            if fv is not None:
                return fv
            return ("attr", base, e.attr)
        if isinstance(e, ast.Call):
            return self._call(cfg, nid, e, env, depth, guard)
        if isinstance(e, ast.BinOp):
            return _binop(e.op, T(e.left), T(e.right))
        if isinstance(e, ast.UnaryOp):
            t = T(e.operand)
            if t[0] == "const":
                try:
                    if isinstance(e.op, ast.USub):
                        return _const(-t[1])
                    if isinstance(e.op, ast.Not):
                        return _const(not t[1])
                except Exception:
                    pass
            if isinstance(e.op, ast.Not):
                # negation pushed inward: not (a or b) is (not a) and (not b), not (not a) is the truth value of a (left as
                # the double negation's operand only under another not), not (x in s) is x not in s
                if t[0] == "bool" and t[1] in ("And", "Or"):
                    return ("bool", "Or" if t[1] == "And" else "And", tuple(x[2] if x[0] == "unop" and x[1] == "Not" else ("unop", "Not", x) for x in t[2]))
                if t[0] == "cmp" and len(t[1]) == 1 and t[1][0] in ("In", "NotIn", "Is", "IsNot"):
                    return ("cmp", ({"In": "NotIn", "NotIn": "In", "Is": "IsNot", "IsNot": "Is"}[t[1][0]],), t[2])
            return ("unop", type(e.op).__name__, t)
        if isinstance(e, ast.BoolOp):
            return ("bool", type(e.op).__name__, tuple(T(v) for v in e.values))
        if isinstance(e, ast.Compare):
            return ("cmp", tuple(type(o).__name__ for o in e.ops), tuple(T(x) for x in [e.left] + e.comparators))
        if isinstance(e, ast.Subscript):
            base = T(e.value)
            if isinstance(e.slice, ast.Slice):
                idx = (
                    "slice",
                    T(e.slice.lower) if e.slice.lower is not None else None,
                    T(e.slice.upper) if e.slice.upper is not None else None,
                    T(e.slice.step) if e.slice.step is not None else None,
                )
            else:
                idx = T(e.slice)
            return _sub(base, idx)
        if isinstance(e, ast.Tuple):
            return ("tuple", tuple(T(x) for x in e.elts))
        if isinstance(e, ast.List):
            return ("list", tuple(T(x) for x in e.elts))
        if isinstance(e, ast.Set):
            return ("set", tuple(T(x) for x in e.elts))
        if isinstance(e, ast.Dict):
            items = []
            for k, v in zip(e.keys, e.values):
                items.append((T(k) if k is not None else ("star", None), T(v)))
            return ("dict", tuple(items))
        if isinstance(e, ast.JoinedStr):
            parts = []
            for v in e.values:
                if isinstance(v, ast.Constant):
                    parts.append(("const", v.value))
                elif isinstance(v, ast.FormattedValue):
                    spec = T(v.format_spec) if v.format_spec is not None else None
                    parts.append(("fmt", T(v.value), v.conversion, spec))
            return _fstr(tuple(parts))
        if isinstance(e, ast.IfExp):
            return ("ifexp", T(e.test), T(e.body), T(e.orelse))
        if isinstance(e, ast.Await):
            return ("await", T(e.value))
        if isinstance(e, (ast.Yield, ast.YieldFrom)):
            return ("yield", self.yield_ordinal(f, e))
        if isinstance(e, ast.Starred):
            return ("star", T(e.value))
        if isinstance(e, (ast.ListComp, ast.SetComp, ast.GeneratorExp, ast.DictComp)):
            env2 = dict(env)
            gens = []
            for g in e.generators:
                it = self._t(cfg, nid, g.iter, env2, depth, guard)
                for name, _path in _targets(g.target):
                    env2[name] = ("cvar", name)
                tgt = self._t(cfg, nid, g.target, env2, depth, guard)
                conds = tuple(self._t(cfg, nid, c, env2, depth, guard) for c in g.ifs)
                gens.append((tgt, it, conds))
            if isinstance(e, ast.DictComp):
                elt = ("tuple", (self._t(cfg, nid, e.key, env2, depth, guard), self._t(cfg, nid, e.value, env2, depth, guard)))
            else:
                elt = self._t(cfg, nid, e.elt, env2, depth, guard)
            return _fuse_comp(("comp", type(e).__name__, elt, tuple(gens)))
        if isinstance(e, ast.Lambda):
            env2 = dict(env)
            params = [a.arg for a in e.args.posonlyargs + e.args.args + e.args.kwonlyargs]
            for pn in params:
                env2[pn] = ("lparam", pn)
            return ("lambda", tuple(params), self._t(cfg, nid, e.body, env2, depth, guard))
        if isinstance(e, ast.Slice):
            return (
                "slice",
                T(e.lower) if e.lower is not None else None,
                T(e.upper) if e.upper is not None else None,
                T(e.step) if e.step is not None else None,
            )
        return ("unknown", type(e).__name__)

    def _is_closure_var(self, f: Func, name: str) -> bool:
        g = f.parent
        while g is not None:
            pcfg = self.flow.cfg(g.qualname)
            if name in self.du(pcfg).local_names:
                return True
            g = g.parent
        return False

    # ------------------------------------------------------------------ calls
    def _call(self, cfg: CFG, nid: int, e: ast.Call, env, depth, guard) -> tuple:
        p = self.prog
        f = cfg.func
        T = lambda x: self._t(cfg, nid, x, env, depth, guard)  # noqa: E731
        args = tuple(T(a) for a in e.args)
        # f(*(a, b, c)) is f(a, b, c): a starred display (directly or through a local) is its elements
        if any(a[0] == "star" and a[1][0] in ("tuple", "list") and not any(x[0] == "star" for x in a[1][1]) for a in args):
            flat = []
            for a in args:
                if a[0] == "star" and a[1][0] in ("tuple", "list") and not any(x[0] == "star" for x in a[1][1]):
                    flat.extend(a[1][1])
                else:
                    flat.append(a)
            args = tuple(flat)
        kwargs = tuple((k.arg, T(k.value)) for k in e.keywords)
        fn = T(e.func)
        # "..{}..".format(a) is the f-string f"..{a}.." (plain fields only); a conditional template is a conditional result
        if fn[0] == "attr" and fn[2] == "format" and not any(a[0] == "star" for a in args) and not any(k is None for k, _v in kwargs):
            ft = _format_term(fn[1], args, dict(kwargs))
            if ft is not None:
                return ft
        # identity wrappers and codec round-trips
        if fn[0] == "glob" and fn[1] in IDENTITY_WRAPPERS and len(args) == 1 and not kwargs:
            a0 = args[0]
            if a0[0] in ("list", "tuple") and all(x[0] == "const" and isinstance(x[1], int) and 0 <= x[1] < 256 for x in a0[1]):
                return ("const", bytes(x[1] for x in a0[1]))
            if a0[0] == "const" and isinstance(a0[1], int):
                return ("call", fn, args, kwargs, self._site(f, e))  # bytes(n): n zero bytes, not an identity
            return a0
        if fn[0] == "attr" and fn[2] in ("encode", "decode") and len(args) <= 1:
            inner = fn[1]
            other = "decode" if fn[2] == "encode" else "encode"
            if inner[0] == "call" and inner[1][0] == "attr" and inner[1][2] == other and len(inner[2]) <= 1:
                return inner[1][1]
            if inner[0] == "const" and fn[2] == "encode" and isinstance(inner[1], str) and not args:
                return ("const", inner[1].encode())
        # b"".join((a, b, c)) / "".join([a, b]) of a display is a + b + c
        if fn[0] == "attr" and fn[2] == "join" and fn[1] in (("const", b""), ("const", "")) and len(args) == 1 and not kwargs \
                and args[0][0] in ("tuple", "list") and args[0][1] and not any(x[0] == "star" for x in args[0][1]):
            acc = args[0][1][0]
            for x in args[0][1][1:]:
                acc = _binop("Add", acc, x)
            return acc
        # S.issuperset(xs) is all(x in S for x in xs); xs.issubset(S) likewise (xs a comprehension / map / plain iterable)
        if fn[0] == "attr" and fn[2] in ("issuperset", "issubset") and len(args) == 1 and not kwargs and args[0][0] != "star":
            big, small = (fn[1], args[0]) if fn[2] == "issuperset" else (args[0], fn[1])
            cv = ("cvar", "_m")
            if small[0] == "comp" and small[1] in ("GeneratorExp", "ListComp", "SetComp") and len(small[3]) == 1:
                elt, gens = small[2], small[3]
            else:
                elt, gens = cv, ((cv, small, ()),)
            return ("call", ("glob", "all"), (("comp", "GeneratorExp", ("cmp", ("In",), (elt, big)), gens),), (), self._site(f, e))
        # n.to_bytes(k, order) for k in 1/2/4/8 (unsigned) is Struct("<Q" ..).pack(n): ONE spelling of "the integer as k bytes"
        if fn[0] == "attr" and fn[2] == "to_bytes" and len(args) == 2 and args[0][0] == "const" and args[0][1] in (1, 2, 4, 8) and args[1][0] == "const" \
                and args[1][1] in ("little", "big") and (not kwargs or kwargs == (("signed", ("const", False)),)):
            code = {1: "B", 2: "H", 4: "L", 8: "Q"}[args[0][1]]
            pk = ("const", StructMethod(StructConst(("<" if args[1][1] == "little" else ">") + code), "pack"))
            folded = _fold_call(pk, (fn[1],), ())
            return folded if folded is not None else ("call", pk, (fn[1],), (), self._site(f, e))
        # map(f, xs) is (f(x) for x in xs); list(<generator expression>) is the list comprehension
        if fn == ("glob", "map") and len(args) == 2 and not kwargs and not any(a[0] == "star" for a in args):
            cv = ("cvar", "_m")
            return ("comp", "GeneratorExp", ("call", args[0], (cv,), (), self._site(f, e)), ((cv, args[1], ()),))
        if fn == ("glob", "list") and len(args) == 1 and not kwargs and args[0][0] == "comp" and args[0][1] == "GeneratorExp":
            return ("comp", "ListComp") + tuple(args[0][2:])
        # struct.pack(<constant format>, a..) is Struct(<format>).pack(a..): ONE spelling of a struct packer
        if fn == ("glob", "struct.pack") and args and args[0][0] == "const" and isinstance(args[0][1], str) and not kwargs and not any(a[0] == "star" for a in args):
            fn, args = ("const", StructMethod(StructConst(args[0][1]), "pack")), args[1:]
        # constant folding of calls on constants
        if fn[0] == "const":
            v = fn[1]
            if isinstance(v, PartialConst):
                # functools.partial(f, a..)(x..) -> f(a.., x..)
                fn = ("const", v.func)
                args = tuple(_const(a) for a in v.args) + args
            # pad bytes of a struct format are zero-valued integer fields: Struct("<4xQ").pack(c) is read as
            # Struct("<LQ").pack(0, c) - one spelling of "four zero bytes, then the counter"
            if isinstance(fn[1], StructMethod) and fn[1].method == "pack" and "x" in fn[1].struct.fmt:
                canon = _canon_pad(fn[1].struct.fmt, args)
                if canon is not None:
                    fn, args = ("const", StructMethod(StructConst(canon[0]), "pack")), canon[1]
        site = self._site(f, e)
        call_t = ("call", fn, args, kwargs, site)
        # folding simple pure calls on constants
        folded = _fold_call(fn, args, kwargs)
        if folded is not None:
            return folded
        # inlining of single-return package functions
        if depth < self.inline_depth and fn[0] in ("glob", "closure", "attr"):
            if fn[0] == "closure":
                callees = [fn[1]]
            else:
                callees = self.res.resolve_call(f, e, record=False)
            if len(callees) == 1 and callees[0] in p.functions:
                g = p.functions[callees[0]]
                inl = self._inline(g, e, fn, args, kwargs, depth + 1, guard)
                if inl is not None:
                    return inl
        return call_t

    def _inline(self, g: Func, call: ast.Call, fn, args, kwargs, depth, guard):
        if g.is_async or g.is_generator or isinstance(g.node, ast.Lambda):
            return None
        if any(d not in ("staticmethod", "classmethod") and not d.startswith("lru_cache") and d != "cache" for d in g.decorators):
            return None
        if g.qualname in self.no_inline:
            return None
        # only straight-line functions (assignments + one return): no loops, branches or mutation
        for st in g.node.body:
            if isinstance(st, (ast.Assign, ast.AnnAssign, ast.Return, ast.Assert, ast.Pass)):
                continue
            if isinstance(st, ast.Expr) and (
                isinstance(st.value, ast.Constant)
                or (
                    isinstance(st.value, ast.Call)
                    and (
                        (dotted(st.value.func) or "").split(".")[0] in ("logger", "_LOGGER", "logging")
                        or (
                            isinstance(st.value.func, ast.Attribute)
                            and st.value.func.attr in ("debug", "info", "warning", "error", "exception", "log")
                        )
                    )
                )
            ):
                continue
            return None
        rets = [n for n in g.node.body if isinstance(n, ast.Return) and n.value is not None]
        if len(rets) != 1:
            return None
        key = ("inline", g.qualname)
        if key in guard:
            return None
        guard = guard | {key}
        self.max_depth_reached = max(self.max_depth_reached, depth)
        gcfg = self.flow.cfg(g.qualname)
        rnodes = gcfg.nodes_for(rets[0])
        if not rnodes:
            return None
        # bind parameters
        a = g.node.args
        pos = [x.arg for x in a.posonlyargs + a.args]
        binding: dict[str, tuple] = {}
        offset = 0
        if g.cls is not None and g.parent is None and "staticmethod" not in g.decorators:
            # bound receiver
            if fn[0] == "attr":
                binding[pos[0]] = fn[1]
            elif fn[0] == "glob":
                binding[pos[0]] = ("glob", g.cls.qualname)
            offset = 1
            if fn[0] == "glob" and "classmethod" not in g.decorators and fn[1] == g.qualname:
                # called through the class: first positional is self
                offset = 0
        for i, t in enumerate(args):
            if t[0] == "star":
                return None
            if i + offset < len(pos):
                binding[pos[i + offset]] = t
            else:
                return None
        for k, t in kwargs:
            if k is None:
                return None
            binding[k] = t
        # defaults
        defaults = a.defaults
        for i, dflt in enumerate(defaults):
            pn = pos[len(pos) - len(defaults) + i]
            if pn not in binding:
                binding[pn] = self._t(gcfg, gcfg.entry.id, dflt, {}, depth, guard)
        for kwa, dflt in zip(a.kwonlyargs, a.kw_defaults):
            if kwa.arg not in binding and dflt is not None:
                binding[kwa.arg] = self._t(gcfg, gcfg.entry.id, dflt, {}, depth, guard)
        t = self._t(gcfg, rnodes[0].id, rets[0].value, {}, depth, guard)
        return _subst_params(t, binding)


# ---------------------------------------------------------------------- term helpers
def _const(v) -> tuple:
    if isinstance(v, bytearray):
        v = bytes(v)
    return ("const", v)


def _dedupe(ts):
    out = []
    for t in ts:
        if t not in out:
            out.append(t)
    return out


def _binop(op, l, r) -> tuple:
    name = type(op).__name__ if not isinstance(op, str) else op
    if name == "Add":
        parts = []
        for x in (l, r):
            if x[0] == "add":
                parts.extend(x[1])
            else:
                parts.append(x)
        # fold adjacent constants of the same type
        out = []
        for x in parts:
            if out and out[-1][0] == "const" and x[0] == "const":
                try:
                    out[-1] = _const(out[-1][1] + x[1])
                    continue
                except Exception:
                    pass
            out.append(x)
        out = _merge_zero_pack(out)
        if len(out) == 1:
            return out[0]
        return ("add", tuple(out))
    if name == "Mod" and l[0] == "const" and isinstance(l[1], bytes):
        # b"..%b.." % x  /  % (x, y): the bytes it concatenates (only %b / %s without flags, which insert a bytes-like as it is)
        import re as _re

        pieces = _re.split(rb"(%[bs%])", l[1])
        args = list(r[1]) if r[0] == "tuple" else [r]
        if not any(p_[:1] == b"%" and len(p_) == 1 for p_ in pieces if p_ not in (b"%b", b"%s", b"%%")) and b"%" not in b"".join(p_ for p_ in pieces if p_ not in (b"%b", b"%s", b"%%")):
            n_spec = sum(1 for p_ in pieces if p_ in (b"%b", b"%s"))
            if n_spec == len(args) and n_spec:
                acc = None
                it = iter(args)
                for p_ in pieces:
                    if p_ == b"":
                        continue
                    piece = next(it) if p_ in (b"%b", b"%s") else _const(b"%" if p_ == b"%%" else p_)
                    acc = piece if acc is None else _binop("Add", acc, piece)
                if acc is not None:
                    return acc
    if l[0] == "const" and r[0] == "const":
        try:
            a, b = l[1], r[1]
            if name == "Sub":
                return _const(a - b)
            if name == "Mult" and isinstance(a, (int, float)) and isinstance(b, (int, float)):
                return _const(a * b)
            if name == "BitOr":
                return _const(a | b)
            if name == "BitAnd":
                return _const(a & b)
            if name == "LShift" and isinstance(b, int) and b < 4096:
                return _const(a << b)
        except Exception:
            pass
    return ("binop", name, l, r)


def _record_fields(p, cls_q: str):
    """field names, in order, of a NamedTuple subclass or @dataclass of the package that has no __init__ / __new__ /
    __post_init__ of its own; None for other classes"""
    c = p.classes.get(cls_q)
    if c is None or any(m in c.methods for m in ("__init__", "__new__", "__post_init__")):
        return None
    is_nt = any(b.endswith("NamedTuple") for b in c.bases)
    is_dc = any((isinstance(d, ast.Name) and d.id == "dataclass") or (isinstance(d, ast.Attribute) and d.attr == "dataclass")
                or (isinstance(d, ast.Call) and ((isinstance(d.func, ast.Name) and d.func.id == "dataclass") or (isinstance(d.func, ast.Attribute) and d.func.attr == "dataclass")))
                for d in c.node.decorator_list)
    if not (is_nt or is_dc) or (is_dc and len(c.bases) > 0 and c.bases != ["object"]):
        return None
    return [st.target.id for st in c.node.body if isinstance(st, ast.AnnAssign) and isinstance(st.target, ast.Name)]


def _record_field(p, base, name: str):
    if not (base[0] == "call" and len(base) >= 4 and base[1][0] == "glob" and base[1][1] in p.classes):
        return None
    fields = _record_fields(p, base[1][1])
    if not fields or name not in fields or any(a[0] == "star" for a in base[2]):
        return None
    kw = dict(base[3])
    if name in kw:
        return kw[name]
    i = fields.index(name)
    if i < len(base[2]):
        return base[2][i]
    return None


def _fstr(parts: tuple) -> tuple:
    """f-string term in one spelling: a plainly formatted part that is itself an f-string is spliced in
    (f"a{f'b{x}c'}d" = f"ab{x}cd"), adjacent literal parts are joined, and ONE part with several definitions makes several
    f-strings (f"Host: {φ(f'[{h}]' | h)}" = φ(f"Host: [{h}]" | f"Host: {h}")) - the order of the alternatives is kept."""
    def plain(p):
        return p[0] == "fmt" and p[2] == -1 and p[3] is None

    phis = [i for i, p in enumerate(parts) if plain(p) and p[1][0] == "phi"]
    if len(phis) == 1 and len(parts[phis[0]][1][1]) <= 4:
        i = phis[0]
        return ("phi", tuple(_fstr(parts[:i] + (("fmt", alt, -1, None),) + parts[i + 1:]) for alt in parts[i][1][1]))
    flat = []
    for p in parts:
        if plain(p) and p[1][0] == "fstr":
            flat.extend(p[1][1])
        elif plain(p) and p[1][0] == "const" and isinstance(p[1][1], str):
            flat.append(("const", p[1][1]))
        else:
            flat.append(p)
    out = []
    for p in flat:
        if out and out[-1][0] == "const" and p[0] == "const":
            out[-1] = ("const", out[-1][1] + p[1])
        elif p == ("const", ""):
            continue
        else:
            out.append(p)
    return ("fstr", tuple(out))


def _fuse_comp(t):
    """A comprehension over an unfiltered comprehension / generator expression is one comprehension: the outer target is
    bound to the inner element (`[f(c, v) for c, v in ((g(k), v) for k, v in d.items())]` = `[f(g(k), v) for k, v in d.items()]`)."""
    if len(t[3]) != 1:
        return t
    tgt, it, conds = t[3][0]
    if not (it[0] == "comp" and it[1] in ("ListComp", "GeneratorExp") and len(it[3]) == 1 and not it[3][0][2]):
        return t
    m: dict = {}
    if not _bind_target(tgt, it[2], m):
        return t
    outer_names = {s_[1] for s_ in _walk_tuples(tgt) if len(s_) == 2 and s_[0] == "cvar"}
    if outer_names - set(m):
        return t
    return ("comp", t[1], _subst_cvars(t[2], m), ((it[3][0][0], it[3][0][1], tuple(_subst_cvars(c, m) for c in conds)),))


def _walk_tuples(t):
    if isinstance(t, tuple):
        yield t
        for x in t:
            yield from _walk_tuples(x)


def comp_as_loop(t):
    """single-generator comprehension -> (element, conditions, iterable) with the loop variable written the way a `for`
    statement's is: ('iter', iterable), its unpacked parts ('sub', ('iter', iterable), i).  None for other terms."""
    if not (t[0] == "comp" and len(t[3]) == 1):
        return None
    tgt, it, conds = t[3][0]
    item = ("iter", it)
    m: dict = {}
    if tgt[0] == "cvar":
        m[tgt[1]] = item
    elif tgt[0] in ("tuple", "list") and all(x[0] == "cvar" for x in tgt[1]):
        for i, x in enumerate(tgt[1]):
            m[x[1]] = ("sub", item, ("const", i))
    else:
        return None
    return _subst_cvars(t[2], m), tuple(_subst_cvars(c, m) for c in conds), it


def _format_term(tmpl, args, kwargs):
    """<template>.format(args) as an ('fstr', parts) term, or None when the template is not a constant with plain fields"""
    if tmpl[0] == "ifexp":
        a, b = _format_term(tmpl[2], args, kwargs), _format_term(tmpl[3], args, kwargs)
        return ("ifexp", tmpl[1], a, b) if a is not None and b is not None else None
    if tmpl[0] == "phi":
        alts = [_format_term(x, args, kwargs) for x in tmpl[1]]
        return ("phi", tuple(alts)) if all(x is not None for x in alts) else None
    if not (tmpl[0] == "const" and isinstance(tmpl[1], str)):
        return None
    import string

    parts, auto = [], 0
    try:
        parsed = list(string.Formatter().parse(tmpl[1]))
    except ValueError:
        return None
    for lit, field, spec, conv in parsed:
        if lit:
            parts.append(("const", lit))
        if field is None:
            continue
        if spec or conv:
            return None
        if field == "":
            if auto is None or auto >= len(args):
                return None
            v, auto = args[auto], auto + 1
        elif field.isdigit():
            if auto or int(field) >= len(args):
                return None
            auto = None
            v = args[int(field)]
        elif field.isidentifier() and field in kwargs:
            v = kwargs[field]
        else:
            return None
        parts.append(("fmt", v, -1, None))
    return _fstr(tuple(parts))


_ZERO_FIELD = {1: "B", 2: "H", 4: "L", 8: "Q"}


def _merge_zero_pack(parts: list) -> list:
    """1/2/4/8 constant zero bytes next to `Struct(<explicit byte order>...).pack(..)` are one more zero-valued field of that
    pack: b"\0\0\0\0" + Struct("<Q").pack(c) is read as Struct("<LQ").pack(0, c) - ONE spelling of "zero bytes, then the
    counter", the same one the pad-code canonicalisation produces."""

    def is_pack(t):
        return (t[0] == "call" and t[1][0] == "const" and isinstance(t[1][1], StructMethod) and t[1][1].method == "pack" and not t[3]
                and t[1][1].struct.fmt[:1] in ("<", ">", "!", "=") and "x" not in t[1][1].struct.fmt)

    def zeros(t):
        if t[0] == "const" and isinstance(t[1], (bytes, bytearray)) and len(t[1]) in _ZERO_FIELD and not any(t[1]):
            return len(t[1])
        return None

    out = list(parts)
    i = 0
    while i + 1 < len(out):
        a, b = out[i], out[i + 1]
        za, zb = zeros(a), zeros(b)
        if za is not None and is_pack(b):
            fmt = b[1][1].struct.fmt
            out[i : i + 2] = [("call", ("const", StructMethod(StructConst(fmt[0] + _ZERO_FIELD[za] + fmt[1:]), "pack")), (("const", 0),) + tuple(b[2]), ()) + tuple(b[4:])]
            continue
        if zb is not None and is_pack(a):
            fmt = a[1][1].struct.fmt
            out[i : i + 2] = [("call", ("const", StructMethod(StructConst(fmt + _ZERO_FIELD[zb]), "pack")), tuple(a[2]) + (("const", 0),), ()) + tuple(a[4:])]
            continue
        if is_pack(a) and is_pack(b) and a[1][1].struct.fmt[0] == b[1][1].struct.fmt[0] and not any(x[0] == "star" for x in a[2] + b[2]):
            # two packs of the same byte order side by side are one pack of all the fields
            fa, fb = a[1][1].struct.fmt, b[1][1].struct.fmt
            out[i : i + 2] = [("call", ("const", StructMethod(StructConst(fa + fb[1:]), "pack")), tuple(a[2]) + tuple(b[2]), ()) + tuple(a[4:])]
            continue
        i += 1
    return out


_STRUCT_SIZES = {"b": 1, "B": 1, "h": 2, "H": 2, "i": 4, "I": 4, "l": 4, "L": 4, "q": 8, "Q": 8, "?": 1, "x": 1}


def _struct_layout(fmt: str):
    """[(offset, size, code)] of the value-producing fields of a standard-size format (explicit byte order) or None"""
    import re

    if fmt[:1] not in ("<", ">", "!", "="):
        return None
    order = "little" if fmt[0] == "<" else "big" if fmt[0] in (">", "!") else None
    if order is None:
        return None
    out, off = [], 0
    for cnt, code in re.findall(r"(\d*)([a-zA-Z?])", fmt[1:]):
        if code in ("s", "p"):
            n = int(cnt) if cnt else 1  # ONE field of n bytes
            out.append((off, n, code))
            off += n
            continue
        if code not in _STRUCT_SIZES:
            return None
        for _ in range(int(cnt) if cnt else 1):
            if code != "x":
                out.append((off, _STRUCT_SIZES[code], code))
            off += _STRUCT_SIZES[code]
    return order, out


def byte_field(t):
    """A term that reads an integer out of a byte string -> (base, offset, size, byte order, signed) or None.

    One reading for the spellings of "the unsigned little-endian 16 bits at offset 9":
        Struct("<HHBB").unpack(b[9:15])[0]      Struct("<HHBB").unpack_from(b, 9)[0]      int.from_bytes(b[9:11], "little")
    and for a single byte ``b[13]`` (byte order "any").  Offsets and sizes must be constants."""
    t = strip_sites(t)
    if t[0] == "sub" and len(t) == 3 and t[2][0] == "const" and isinstance(t[2][1], int) and t[1][0] == "call" and not t[1][3] \
            and t[1][1][0] == "const" and isinstance(t[1][1][1], StructMethod) and t[1][1][1].method in ("unpack", "unpack_from"):
        sm, args, i = t[1][1][1], t[1][2], t[2][1]
        lay = _struct_layout(sm.struct.fmt)
        if lay is None or not 0 <= i < len(lay[1]) or not args:
            return None
        order, fields = lay
        off, size, code = fields[i]
        base, start = args[0], 0
        if sm.method == "unpack":
            if len(args) != 1:
                return None
            if base[0] == "sub" and len(base) == 3 and base[2][0] == "slice" and base[2][3] is None:
                lo = base[2][1]
                if lo is not None and not (lo[0] == "const" and isinstance(lo[1], int) and lo[1] >= 0):
                    return None
                base, start = base[1], (lo[1] if lo is not None else 0)
        else:
            if len(args) == 2:
                if not (args[1][0] == "const" and isinstance(args[1][1], int) and args[1][1] >= 0):
                    return None
                start = args[1][1]
            elif len(args) != 1:
                return None
        if code in ("s", "p"):
            return base, start + off, size, "bytes", False  # a run of bytes, not an integer
        return base, start + off, size, (order if size > 1 else "any"), code.islower() and code != "?"
    if t[0] == "call" and t[1] in (("glob", "int.from_bytes"), ("attr", ("glob", "int"), "from_bytes")) and t[2]:
        kw = dict(t[3])
        order = t[2][1] if len(t[2]) >= 2 else kw.get("byteorder", ("const", "big"))
        signed = kw.get("signed", ("const", False))
        src = t[2][0]
        if order[0] != "const" or signed[0] != "const" or len(t[2]) > 2:
            return None
        if src[0] == "sub" and len(src) == 3 and src[2][0] == "slice" and src[2][3] is None:
            lo, hi = src[2][1], src[2][2]
            lo_v = 0 if lo is None else lo[1] if lo[0] == "const" and isinstance(lo[1], int) else None
            hi_v = hi[1] if hi is not None and hi[0] == "const" and isinstance(hi[1], int) else None
            if lo_v is None or hi_v is None or lo_v < 0 or hi_v <= lo_v:
                return None
            size = hi_v - lo_v
            return src[1], lo_v, size, (order[1] if size > 1 else "any"), bool(signed[1])
        return None
    if t[0] == "sub" and len(t) == 3 and t[2][0] == "const" and isinstance(t[2][1], int) and not isinstance(t[2][1], bool) and t[2][1] >= 0:
        return t[1], t[2][1], 1, "any", False
    return None


def fold_term(t):
    """Python value of a term built only from constants, `+`, constant struct packers and int.to_bytes; NotConst otherwise."""
    if t[0] == "const":
        return t[1]
    if t[0] == "add":
        vals = [fold_term(x) for x in t[1]]
        acc = vals[0]
        for v in vals[1:]:
            acc = acc + v
        return acc
    if t[0] == "call" and not t[3]:
        fn = t[1]
        if fn[0] == "const" and isinstance(fn[1], StructMethod) and fn[1].method == "pack":
            import struct

            return struct.pack(fn[1].struct.fmt, *[fold_term(a) for a in t[2]])
        if fn[0] == "attr" and fn[2] == "to_bytes" and len(t[2]) == 2:
            v, n, bo = fold_term(fn[1]), fold_term(t[2][0]), fold_term(t[2][1])
            if isinstance(v, int) and isinstance(n, int) and bo in ("little", "big"):
                return v.to_bytes(n, bo)
        if fn[0] == "glob" and fn[1] in ("bytes", "bytearray") and len(t[2]) == 1:
            return bytes(fold_term(t[2][0]))
    raise NotConst(str(t)[:80])


def _subst_cvars(t, m: dict):
    if not isinstance(t, tuple):
        return t
    if len(t) == 2 and t[0] == "cvar" and t[1] in m:
        return m[t[1]]
    return tuple(_subst_cvars(x, m) for x in t)


def _bind_target(tgt, row, m: dict) -> bool:
    """match a comprehension target term against one element of what it iterates over"""
    if tgt[0] == "cvar":
        m[tgt[1]] = row
        return True
    if tgt[0] in ("tuple", "list"):
        if row[0] in ("tuple", "list") and len(row[1]) == len(tgt[1]) and not any(x[0] == "star" for x in row[1] + tgt[1]):
            return all(_bind_target(a, b, m) for a, b in zip(tgt[1], row[1]))
        if row[0] == "const" and isinstance(row[1], (tuple, list)) and len(row[1]) == len(tgt[1]):
            return all(_bind_target(a, _const(b), m) for a, b in zip(tgt[1], row[1]))
    return False


def _comp_element(base, i: int):
    """element ``i`` of an unfiltered list comprehension / generator over a display or constant of known length"""
    if not (base[0] == "comp" and base[1] in ("ListComp", "GeneratorExp") and len(base[3]) == 1):
        return None
    tgt, it, conds = base[3][0]
    if conds:
        return None
    if it[0] in ("tuple", "list") and not any(x[0] == "star" for x in it[1]):
        rows = list(it[1])
    elif it[0] == "const" and isinstance(it[1], (tuple, list)):
        rows = [_const(x) for x in it[1]]
    else:
        return None
    if not -len(rows) <= i < len(rows):
        return None
    m: dict = {}
    if not _bind_target(tgt, rows[i], m):
        return None
    return _subst_cvars(base[2], m)


_PROG = [None]  # the program whose NamedTuple classes `_sub` may consult (set by Terms)


def _from_end(bound, base):
    """`max(len(x) - k, 0)` as a slice bound of x is `-k` (k > 0): the last k items / all but the last k, for every length"""
    b = strip_sites(bound) if bound is not None else None
    if b and b[0] == "call" and b[1] == ("glob", "max") and len(b[2]) == 2 and not b[3]:
        for x, z in (b[2], b[2][::-1]):
            if z == ("const", 0) and x[0] == "binop" and x[1] == "Sub" and x[3][0] == "const" and isinstance(x[3][1], int) and x[3][1] > 0 \
                    and x[2] == ("call", ("glob", "len"), (strip_sites(base),), ()):
                return ("const", -x[3][1])
    return bound


def _sub(base, idx) -> tuple:
    if idx[0] == "slice" and (idx[1] is not None or idx[2] is not None):
        lo, hi = _from_end(idx[1], base), _from_end(idx[2], base)
        if lo is not idx[1] or hi is not idx[2]:
            idx = ("slice", lo, hi, idx[3])
    if base[0] == "call" and idx[0] == "const" and isinstance(idx[1], int) and _PROG[0] is not None and len(base) >= 4 and base[1][0] == "glob" and base[1][1] in _PROG[0].classes:
        # item i of a NamedTuple built in place is its i-th field
        c = _PROG[0].classes[base[1][1]]
        fields = _record_fields(_PROG[0], base[1][1]) if any(b.endswith("NamedTuple") for b in c.bases) else None
        if fields and -len(fields) <= idx[1] < len(fields):
            fv = _record_field(_PROG[0], base, fields[idx[1]])
            if fv is not None:
                return fv
    if base[0] in ("tuple", "list") and idx[0] == "const" and isinstance(idx[1], int):
        if not any(x[0] == "star" for x in base[1]) and -len(base[1]) <= idx[1] < len(base[1]):
            return base[1][idx[1]]
    if base[0] == "comp" and idx[0] == "const" and isinstance(idx[1], int):
        el = _comp_element(base, idx[1])
        if el is not None:
            return el
    if base[0] == "const" and idx[0] == "const":
        try:
            return _const(base[1][idx[1]])
        except Exception:
            pass
    return ("sub", base, idx)


def _project(t, path) -> tuple:
    for i in path:
        if isinstance(i, tuple):
            t = ("sub", t, ("slice", _const(i[1]), None, None))
        else:
            t = _sub(t, _const(i))
    return t


def _canon_pad(fmt: str, args):
    """(format without pad codes, arguments with a constant 0 for every replaced pad run) or None"""
    import re

    m = re.fullmatch(r"([@=<>!]?)((?:\d*[a-zA-Z?])+)", fmt)
    if not m or m.group(1) not in ("<", ">", "!", "="):
        return None
    out_fmt, out_args, ai = m.group(1), [], 0
    sizes = {1: "B", 2: "H", 4: "L", 8: "Q"}
    for cnt, code in re.findall(r"(\d*)([a-zA-Z?])", m.group(2)):
        n = int(cnt) if cnt else 1
        if code == "x":
            if n not in sizes:
                return None
            out_fmt += sizes[n]
            out_args.append(("const", 0))
        elif code in "sp":
            out_fmt += cnt + code
            if ai >= len(args):
                return None
            out_args.append(args[ai])
            ai += 1
        else:
            out_fmt += cnt + code
            for _ in range(n):
                if ai >= len(args):
                    return None
                out_args.append(args[ai])
                ai += 1
    if ai != len(args):
        return None
    return out_fmt, tuple(out_args)


def _fold_call(fn, args, kwargs):
    if kwargs:
        return None
    if fn[0] == "glob" and fn[1] == "len" and len(args) == 1 and args[0][0] == "const":
        try:
            return _const(len(args[0][1]))
        except Exception:
            return None
    if fn[0] == "const" and isinstance(fn[1], StructMethod) and fn[1].method == "pack":
        if all(a[0] == "const" and isinstance(a[1], int) for a in args) and args:
            import struct

            try:
                return _const(struct.pack(fn[1].struct.fmt, *[a[1] for a in args]))
            except Exception:
                return None
    return None


def _subst_params(t, binding):
    if not isinstance(t, tuple):
        return t
    if len(t) == 2 and t[0] == "param" and isinstance(t[1], str):
        return binding.get(t[1], ("param", t[1]))
    if t and t[0] == "const":
        return t
    out = tuple(_subst_params(x, binding) if isinstance(x, tuple) else x for x in t)
    # re-normalise simple forms after substitution
    if out and out[0] == "add":
        parts = out[1]
        acc = parts[0]
        for x in parts[1:]:
            acc = _binop("Add", acc, x)
        return acc
    if out and out[0] == "sub" and len(out) == 3:
        return _sub(out[1], out[2])
    return out


# ---------------------------------------------------------------------- comparison / patterns
def strip_sites(t):
    """Structural form of a term: call-site value numbers removed."""
    if not isinstance(t, tuple):
        return t
    if t and t[0] == "call" and len(t) == 5:
        return ("call", strip_sites(t[1]), strip_sites(t[2]), strip_sites(t[3]))
    if t and t[0] == "const":
        return t
    return tuple(strip_sites(x) if isinstance(x, tuple) else x for x in t)


TAGS = {
    "const", "param", "glob", "attr", "call", "sub", "slice", "add", "binop", "unop", "cmp", "bool", "tuple", "list",
    "set", "dict", "fstr", "fmt", "ifexp", "await", "yield", "star", "comp", "cvar", "lparam", "lambda", "closure",
    "iter", "enter", "caught", "phi", "loopvar", "unknown",
}  # fmt: skip


def subterms(t):
    """All proper sub-terms (tagged tuples); argument / keyword containers are traversed, not yielded."""
    if not isinstance(t, tuple) or not t:
        return
    is_term = isinstance(t[0], str) and t[0] in TAGS and len(t) >= 2
    if is_term:
        yield t
        if t[0] == "const":
            return
    for x in t:
        if isinstance(x, tuple):
            yield from subterms(x)


def contains(t, pred) -> bool:
    return any(pred(s) for s in subterms(t))


def has_unknown(t) -> bool:
    return contains(t, lambda s: len(s) >= 1 and s[0] == "unknown")


class Any_:
    def __repr__(self):
        return "ANY"


ANY = Any_()


class Cap:
    """Capture: every occurrence must bind the same term (identity = same call sites unless structural)."""

    def __init__(self, name: str, structural: bool = False, pat=None):
        self.name = name
        self.structural = structural
        self.pat = pat

    def __repr__(self):
        return f"?{self.name}"


class Or:
    def __init__(self, *alts):
        self.alts = alts


class Pred:
    def __init__(self, fn, desc=""):
        self.fn = fn
        self.desc = desc

    def __repr__(self):
        return f"<{self.desc}>"


def Call(fn, *args, kw=None):
    """Pattern for a call term; ``kw`` None = any keywords; else a dict that must match exactly."""
    return ("callpat", fn, tuple(args), kw)


def match(pat, t, b: dict | None = None) -> dict | None:
    """Match term ``t`` against ``pat``; returns bindings or None."""
    if b is None:
        b = {}
    if pat is ANY:
        return b
    if isinstance(pat, Cap):
        if pat.pat is not None:
            b2 = match(pat.pat, t, b)
            if b2 is None:
                return None
            b = b2
        if pat.name in b:
            old = b[pat.name]
            if pat.structural:
                return b if strip_sites(old) == strip_sites(t) else None
            return b if old == t else None
        nb = dict(b)
        nb[pat.name] = t
        return nb
    if isinstance(pat, Or):
        for a in pat.alts:
            r = match(a, t, b)
            if r is not None:
                return r
        return None
    if isinstance(pat, Pred):
        return b if pat.fn(t) else None
    if isinstance(pat, tuple) and pat and pat[0] == "callpat":
        if not (isinstance(t, tuple) and t and t[0] == "call"):
            return None
        _k, fnp, argp, kwp = pat
        b = match(fnp, t[1], b)
        if b is None:
            return None
        if len(argp) != len(t[2]):
            return None
        for pp, tt in zip(argp, t[2]):
            b = match(pp, tt, b)
            if b is None:
                return None
        if kwp is not None:
            tk = dict(t[3])
            if set(tk) != set(kwp):
                return None
            for k, pp in kwp.items():
                b = match(pp, tk[k], b)
                if b is None:
                    return None
        return b
    if isinstance(pat, tuple):
        if not isinstance(t, tuple) or len(pat) != len(t):
            return None
        for pp, tt in zip(pat, t):
            b = match(pp, tt, b)
            if b is None:
                return None
        return b
    return b if pat == t else None


def show(t, maxlen: int = 400) -> str:
    s = _show(t)
    return s if len(s) <= maxlen else s[: maxlen - 1] + "…"


def _show(t) -> str:
    if t is None:
        return ""
    if not isinstance(t, tuple) or not t:
        return repr(t)
    k = t[0]
    if k == "const":
        v = t[1]
        if isinstance(v, int) and not isinstance(v, bool) and v > 10**12:
            return f"<int {v.bit_length()} bits>"
        return repr(v)
    if k == "param":
        return f"{t[1]}"
    if k == "glob":
        parts = t[1].split(".")
        return parts[-1] if t[1].startswith(PKG) else ".".join(parts[-2:])
    if k == "attr":
        return f"{_show(t[1])}.{t[2]}"
    if k == "call":
        a = [_show(x) for x in t[2]] + [f"{kk}={_show(v)}" for kk, v in t[3]]
        return f"{_show(t[1])}({', '.join(a)})"
    if k == "sub":
        return f"{_show(t[1])}[{_show(t[2])}]"
    if k == "slice":
        return f"{_show(t[1])}:{_show(t[2])}" + (f":{_show(t[3])}" if t[3] is not None else "")
    if k == "add":
        return "(" + " + ".join(_show(x) for x in t[1]) + ")"
    if k == "binop":
        return f"({_show(t[2])} {t[1]} {_show(t[3])})"
    if k == "unop":
        return f"{t[1]}({_show(t[2])})"
    if k == "cmp":
        out = _show(t[2][0])
        for o, x in zip(t[1], t[2][1:]):
            out += f" {o} {_show(x)}"
        return "(" + out + ")"
    if k == "bool":
        return "(" + f" {t[1]} ".join(_show(x) for x in t[2]) + ")"
    if k in ("tuple", "list", "set"):
        br = {"tuple": "()", "list": "[]", "set": "{}"}[k]
        return br[0] + ", ".join(_show(x) for x in t[1]) + br[1]
    if k == "dict":
        return "{" + ", ".join(f"{_show(a)}: {_show(b)}" for a, b in t[1]) + "}"
    if k == "fstr":
        out = ""
        for part in t[1]:
            if part[0] == "const":
                out += str(part[1])
            else:
                out += "{" + _show(part[1]) + "}"
        return 'f"' + out + '"'
    if k == "ifexp":
        return f"({_show(t[2])} if {_show(t[1])} else {_show(t[3])})"
    if k == "await":
        return f"await {_show(t[1])}"
    if k == "yield":
        return f"YIELD#{t[1]}"
    if k == "phi":
        return "φ(" + " | ".join(_show(x) for x in t[1]) + ")"
    if k == "iter":
        return f"each({_show(t[1])})"
    if k == "enter":
        return f"enter({_show(t[1])})"
    if k == "comp":
        gens = " ".join(
            f"for {_show(g[0])} in {_show(g[1])}" + "".join(f" if {_show(c)}" for c in g[2]) for g in t[3]
        )
        return f"[{_show(t[2])} {gens}]"
    if k == "cvar" or k == "lparam" or k == "loopvar":
        return f"{t[1]}" if k != "loopvar" else f"{t[1]}′"
    if k == "lambda":
        return f"λ{','.join(t[1])}.{_show(t[2])}"
    if k == "closure":
        return f"<closure {t[1].rsplit('.', 1)[-1]}>"
    if k == "caught":
        return "<exc " + "|".join(c.rsplit(".", 1)[-1] for c in t[1]) + ">"
    if k == "star":
        return "*" + _show(t[1])
    if k == "unknown":
        return f"<?{t[1]}>"
    return repr(t)
