"""Call resolution and attribute type maps (class-hierarchy analysis, no execution)."""

from __future__ import annotations

import ast

from .loader import PKG, Cls, Func, Program, dotted, expand, walk_own

TASK_SPAWNERS = {
    "aiohomekit.utils.async_create_task",
    "asyncio.create_task",
    "asyncio.ensure_future",
    "asyncio.tasks.create_task",
}

# package decorators that wrap the decorated coroutine: wrapper qualname is analysed as a wrapper
WRAPPER_DECORATORS = {
    "operation_lock",
    "restore_connection_and_resume",
    "force_fresh_connection",
    "disconnect_on_missing_services",
    "retry_bluetooth_connection_error",
}


def _ann_types(prog: Program, m, ann: ast.expr) -> tuple[set[str], bool]:
    """Types named by an annotation; second result: Optional."""
    types: set[str] = set()
    optional = False
    if isinstance(ann, ast.Constant) and isinstance(ann.value, str):
        try:
            ann = ast.parse(ann.value, mode="eval").body
        except SyntaxError:
            return types, optional
    if isinstance(ann, ast.BinOp) and isinstance(ann.op, ast.BitOr):
        for side in (ann.left, ann.right):
            t, o = _ann_types(prog, m, side)
            types |= t
            optional |= o
        return types, optional
    if isinstance(ann, ast.Constant) and ann.value is None:
        return types, True
    if isinstance(ann, ast.Subscript):
        base = dotted(ann.value)
        if base and base.split(".")[-1] in ("Optional",):
            t, _ = _ann_types(prog, m, ann.slice)
            return t, True
        if base and base.split(".")[-1] in ("Union",) and isinstance(ann.slice, ast.Tuple):
            for e in ann.slice.elts:
                t, o = _ann_types(prog, m, e)
                types |= t
                optional |= o
            return types, optional
        if base:
            types.add(prog.resolve_dotted(m, base))
        return types, optional
    d = dotted(ann)
    if d:
        if d == "None":
            return types, True
        types.add(prog.resolve_dotted(m, d))
    return types, optional


def _ann_elem_types(prog: Program, m, ann: ast.expr) -> set[str]:
    """Element/value types of a container annotation: dict[K, V] -> V, list[V]/set[V] -> V."""
    if isinstance(ann, ast.Constant) and isinstance(ann.value, str):
        try:
            ann = ast.parse(ann.value, mode="eval").body
        except SyntaxError:
            return set()
    if isinstance(ann, ast.BinOp) and isinstance(ann.op, ast.BitOr):
        return _ann_elem_types(prog, m, ann.left) | _ann_elem_types(prog, m, ann.right)
    if isinstance(ann, ast.Subscript):
        base = (dotted(ann.value) or "").split(".")[-1]
        if base in ("dict", "Dict", "defaultdict", "Mapping", "MutableMapping") and isinstance(ann.slice, ast.Tuple) and len(ann.slice.elts) == 2:
            return _ann_types(prog, m, ann.slice.elts[1])[0]
        if base in ("list", "List", "set", "Set", "Sequence", "Iterable", "frozenset", "tuple"):
            sl = ann.slice.elts[0] if isinstance(ann.slice, ast.Tuple) and ann.slice.elts else ann.slice
            return _ann_types(prog, m, sl)[0]
    return set()


class Resolver:
    def __init__(self, prog: Program):
        self.prog = prog
        self.attr_elem_types: dict[str, dict[str, set[str]]] = {}
        self.attr_types: dict[str, dict[str, set[str]]] = {}
        self.attr_optional: dict[str, dict[str, bool]] = {}
        self.task_attrs: dict[str, dict[str, str]] = {}
        self.future_excs: dict[str, set[str]] = {}
        self._local_types: dict[str, dict[str, set[str]]] = {}
        self.unresolved: list[tuple[str, int, str]] = []
        self.resolved_count = 0
        self._build_attr_maps()

    # ------------------------------------------------------------------ attribute maps
    def _build_attr_maps(self) -> None:
        p = self.prog
        for c in p.classes.values():
            at = self.attr_types.setdefault(c.qualname, {})
            ao = self.attr_optional.setdefault(c.qualname, {})
            for name, ann in c.annotations.items():
                t, o = _ann_types(p, c.module, ann)
                if t:
                    at.setdefault(name, set()).update(t)
                if o:
                    ao[name] = True
                et = _ann_elem_types(p, c.module, ann)
                if et:
                    self.attr_elem_types.setdefault(c.qualname, {}).setdefault(name, set()).update(et)
            for name, vals in c.assigns.items():
                for v in vals:
                    if isinstance(v, ast.Constant) and v.value is None:
                        ao[name] = True
        for f in p.functions.values():
            if f.cls is None or isinstance(f.node, ast.Lambda):
                continue
            c = f.cls
            at = self.attr_types.setdefault(c.qualname, {})
            ao = self.attr_optional.setdefault(c.qualname, {})
            ta = self.task_attrs.setdefault(c.qualname, {})
            selfname = f.pos_params[0] if f.pos_params else None
            if f.parent is not None:
                selfname = "self"
            for n in walk_own(f.node):
                tgt = val = ann = None
                if isinstance(n, ast.Assign) and len(n.targets) == 1:
                    tgt, val = n.targets[0], n.value
                elif isinstance(n, ast.AnnAssign):
                    tgt, val, ann = n.target, n.value, n.annotation
                if tgt is None:
                    continue
                if not (isinstance(tgt, ast.Attribute) and isinstance(tgt.value, ast.Name) and tgt.value.id == selfname):
                    continue
                if ann is not None:
                    t, o = _ann_types(p, f.module, ann)
                    if t:
                        at.setdefault(tgt.attr, set()).update(t)
                    if o:
                        ao[tgt.attr] = True
                    et = _ann_elem_types(p, f.module, ann)
                    if et:
                        self.attr_elem_types.setdefault(c.qualname, {}).setdefault(tgt.attr, set()).update(et)
                if val is None:
                    continue
                if isinstance(val, ast.Constant) and val.value is None:
                    ao[tgt.attr] = True
                if isinstance(val, (ast.Name, ast.Call)) and not isinstance(f.node, ast.Lambda):
                    # look through temporaries: `t = self.coro(); self.attr = spawn(t)`
                    val = expand(f.node, val)
                if isinstance(val, ast.Name) and not isinstance(f.node, ast.Lambda):
                    # self.attr = <annotated parameter>
                    a = f.node.args
                    for arg in a.posonlyargs + a.args + a.kwonlyargs:
                        if arg.arg == val.id and arg.annotation is not None:
                            t, o = _ann_types(p, f.module, arg.annotation)
                            t = {x for x in t if x in p.classes}
                            if t:
                                at.setdefault(tgt.attr, set()).update(t)
                            if o:
                                ao[tgt.attr] = True
                if isinstance(val, ast.Call):
                    fn = dotted(val.func)
                    if fn:
                        r = p.resolve_dotted(f.module, fn)
                        if r in TASK_SPAWNERS and val.args and isinstance(val.args[0], ast.Call):
                            callees = self.resolve_call(f, val.args[0], record=False)
                            for cal in callees:
                                if cal in p.functions:
                                    ta[tgt.attr] = cal
                        elif r in p.classes:
                            at.setdefault(tgt.attr, set()).add(r)
                        elif not r.startswith(PKG + ".") and "." in r and r[0].isalpha():
                            # external constructor-like call: remember the dotted callee as the type
                            last = r.split(".")[-1]
                            if last[:1].isupper():
                                at.setdefault(tgt.attr, set()).add(r)
            # set_exception classes (for awaiting plain futures created by this class)
            for n in walk_own(f.node):
                if (
                    isinstance(n, ast.Call)
                    and isinstance(n.func, ast.Attribute)
                    and n.func.attr == "set_exception"
                    and n.args
                ):
                    a = n.args[0]
                    if isinstance(a, ast.Call):
                        a = a.func
                    d = dotted(a)
                    if d:
                        r = p.resolve_dotted(f.module, d)
                        if r in p.classes or p.known_class(r):
                            self.future_excs.setdefault(c.qualname, set()).add(r)

    def attr_type(self, clsname: str, attr: str) -> set[str]:
        out: set[str] = set()
        for cn in self.prog.mro(clsname):
            out |= self.attr_types.get(cn, {}).get(attr, set())
        for sc in self.prog.subclasses(clsname):
            out |= self.attr_types.get(sc, {}).get(attr, set())
        return out

    def attr_elem_type(self, clsname: str, attr: str) -> set[str]:
        # the most derived declaration wins (BleController.pairings: dict[str, BlePairing])
        for cn in self.prog.mro(clsname):
            t = self.attr_elem_types.get(cn, {}).get(attr)
            if t:
                return set(t)
        return set()

    def attr_is_optional(self, clsname: str, attr: str) -> bool:
        for cn in self.prog.mro(clsname):
            if self.attr_optional.get(cn, {}).get(attr):
                return True
        return False

    def task_attr(self, clsname: str, attr: str) -> str | None:
        for cn in list(self.prog.mro(clsname)) + sorted(self.prog.subclasses(clsname)):
            t = self.task_attrs.get(cn, {}).get(attr)
            if t:
                return t
        return None

    def class_future_excs(self, clsname: str) -> set[str]:
        out: set[str] = set()
        for cn in self.prog.mro(clsname):
            out |= self.future_excs.get(cn, set())
        return out

    # ------------------------------------------------------------------ local types
    def local_types(self, f: Func) -> dict[str, set[str]]:
        if f.qualname in self._local_types:
            return self._local_types[f.qualname]
        p = self.prog
        out: dict[str, set[str]] = {}
        self._local_types[f.qualname] = out
        if isinstance(f.node, ast.Lambda):
            return out
        a = f.node.args
        for arg in a.posonlyargs + a.args + a.kwonlyargs:
            if arg.annotation is not None:
                t, _o = _ann_types(p, f.module, arg.annotation)
                if t:
                    out.setdefault(arg.arg, set()).update(t)
        for n in walk_own(f.node):
            tgt = val = None
            if isinstance(n, ast.Assign) and len(n.targets) == 1 and isinstance(n.targets[0], ast.Name):
                tgt, val = n.targets[0].id, n.value
            elif isinstance(n, ast.AnnAssign) and isinstance(n.target, ast.Name):
                tgt, val = n.target.id, n.value
                t, _o = _ann_types(p, f.module, n.annotation)
                if t:
                    out.setdefault(tgt, set()).update(t)
            elif isinstance(n, ast.NamedExpr):
                tgt, val = n.target.id, n.value
            if tgt is None or val is None:
                continue
            owner = f
            while owner.parent is not None:
                owner = owner.parent
            if owner.cls is not None:
                # x = self.T.get(k) / self.T[k] / self.T.pop(k)   with  T: dict[K, V]
                cont = None
                if isinstance(val, ast.Call) and isinstance(val.func, ast.Attribute) and val.func.attr in ("get", "pop", "setdefault"):
                    cont = val.func.value
                elif isinstance(val, ast.Subscript):
                    cont = val.value
                if (
                    cont is not None
                    and isinstance(cont, ast.Attribute)
                    and isinstance(cont.value, ast.Name)
                    and cont.value.id == "self"
                ):
                    et = self.attr_elem_type(owner.cls.qualname, cont.attr)
                    if et:
                        out.setdefault(tgt, set()).update(et)
                        continue
            if owner.cls is not None and isinstance(val, ast.Attribute) and isinstance(val.value, ast.Name) and val.value.id == "self":
                # x = self.attr  (local alias of an attribute): the attribute's types (and its task, see below)
                at = self.attr_type(owner.cls.qualname, val.attr)
                if at:
                    out.setdefault(tgt, set()).update(at)
                    continue
            if isinstance(val, ast.Call):
                fn = dotted(val.func)
                if fn:
                    r = p.resolve_dotted(f.module, fn)
                    if r in p.classes:
                        out.setdefault(tgt, set()).add(r)
                    elif r in p.functions:
                        # generator / factory results: remember the producing function
                        out.setdefault(tgt, set()).add("<result-of>" + r)
                    elif not r.startswith(PKG + ".") and r.split(".")[-1][:1].isupper():
                        out.setdefault(tgt, set()).add(r)
                elif isinstance(val.func, ast.Attribute):
                    # x = self.attr.method(...)  -> result-of
                    for cal in self.resolve_call(f, val, record=False):
                        if cal in p.functions:
                            out.setdefault(tgt, set()).add("<result-of>" + cal)
        # plain copies `x = y` (parameters of inlined helpers are bound this way): x has y's types
        copies = [(n.targets[0].id, n.value.id) for n in walk_own(f.node)
                  if isinstance(n, ast.Assign) and len(n.targets) == 1 and isinstance(n.targets[0], ast.Name) and isinstance(n.value, ast.Name)]
        for _ in range(4):
            changed = False
            for tgt, src in copies:
                ts = out.get(src)
                if ts and not ts <= out.get(tgt, set()):
                    out.setdefault(tgt, set()).update(ts)
                    changed = True
            if not changed:
                break
        return out

    # ------------------------------------------------------------------ calls
    def _self_name(self, f: Func) -> str | None:
        g = f
        while g.parent is not None:
            g = g.parent
        if g.cls is None or isinstance(g.node, ast.Lambda):
            return None
        if any(d in ("staticmethod",) for d in g.decorators):
            return None
        return g.pos_params[0] if g.pos_params else None

    def _methods_of(self, clsname: str, meth: str, virtual: bool = True) -> list[str]:
        p = self.prog
        out = []
        m = p.lookup_method(clsname, meth)
        if m is not None:
            out.append(m.qualname)
        if virtual:
            for sc in sorted(p.subclasses(clsname)):
                c = p.classes[sc]
                if meth in c.methods and c.methods[meth].qualname not in out:
                    out.append(c.methods[meth].qualname)
        return out

    def resolve_call(self, f: Func, call: ast.Call, record: bool = True) -> list[str]:
        """Canonical names of possible callees.  Package functions come back as qualnames present in
        ``prog.functions``; classes as their ``__init__`` (or the class name when there is none);
        everything else as a dotted external name or ``?.<attr>`` when unknown."""
        r = self._resolve_callee(f, call.func)
        if record:
            if any(x.startswith("?") for x in r) or not r:
                self.unresolved.append((f.qualname, getattr(call, "lineno", 0), ast.unparse(call.func)[:60]))
            else:
                self.resolved_count += 1
        return r

    def _ctor(self, clsname: str) -> list[str]:
        m = self.prog.lookup_method(clsname, "__init__")
        return [m.qualname] if m is not None else [clsname]

    def _resolve_callee(self, f: Func, fn: ast.expr) -> list[str]:
        p = self.prog
        if isinstance(fn, ast.Name):
            g = f
            while g is not None:
                if fn.id in g.nested:
                    return [g.nested[fn.id].qualname]
                g = g.parent
            lt = self.local_types(f).get(fn.id)
            r = p.resolve_dotted(f.module, fn.id)
            if r in p.functions:
                return [r]
            if r in p.classes:
                return self._ctor(r)
            if fn.id in f.params and fn.id not in f.module.imports:
                return ["?param." + fn.id]
            if r == fn.id and lt:
                return ["?local." + fn.id]
            return [r]
        if isinstance(fn, ast.Attribute):
            v = fn.value
            # super().m
            if isinstance(v, ast.Call) and isinstance(v.func, ast.Name) and v.func.id == "super":
                owner = f
                while owner.parent is not None:
                    owner = owner.parent
                if owner.cls is not None:
                    m = p.lookup_method(owner.cls.qualname, fn.attr, after=owner.cls.qualname)
                    if m is not None:
                        return [m.qualname]
                    # external base (e.g. asyncio.Protocol)
                    for b in p.mro(owner.cls.qualname)[1:]:
                        if b not in p.classes:
                            return [f"{b}.{fn.attr}"]
                return ["?super." + fn.attr]
            selfname = self._self_name(f)
            if isinstance(v, ast.Name):
                if selfname and v.id == selfname:
                    owner = f
                    while owner.parent is not None:
                        owner = owner.parent
                    is_cls = any(d == "classmethod" for d in owner.decorators)
                    ms = self._methods_of(owner.cls.qualname, fn.attr)
                    if ms:
                        return ms
                    types = self.attr_type(owner.cls.qualname, fn.attr)
                    if types and not is_cls:
                        return ["?attrcall." + fn.attr]
                    return ["?self." + fn.attr]
                lt = self.local_types(f).get(v.id)
                if lt and v.id not in f.module.imports:
                    out = []
                    for t in sorted(lt):
                        if t.startswith("<result-of>"):
                            out.append(f"{t}.{fn.attr}")
                        elif t in p.classes:
                            ms = self._methods_of(t, fn.attr)
                            out += ms if ms else [f"?{t}.{fn.attr}"]
                        else:
                            out.append(f"{t}.{fn.attr}")
                    if out:
                        return out
            if (
                isinstance(v, ast.Attribute)
                and isinstance(v.value, ast.Name)
                and selfname
                and v.value.id == selfname
            ):
                owner = f
                while owner.parent is not None:
                    owner = owner.parent
                types = self.attr_type(owner.cls.qualname, v.attr)
                out = []
                for t in sorted(types):
                    if t in p.classes:
                        ms = self._methods_of(t, fn.attr)
                        out += ms if ms else [f"?{t}.{fn.attr}"]
                    else:
                        out.append(f"{t}.{fn.attr}")
                if out:
                    return out
            d = dotted(fn)
            if d is not None:
                head = d.split(".")[0]
                if head in f.module.imports or head in f.module.classes or head in f.module.functions or head in (
                    "bytes",
                    "int",
                    "str",
                    "dict",
                    "bytearray",
                    "float",
                ):
                    if head not in f.params or head in f.module.imports and head not in _assigned_names(f):
                        r = p.resolve_dotted(f.module, d)
                        if r in p.functions:
                            return [r]
                        if r in p.classes:
                            return self._ctor(r)
                        # Class.method through MRO
                        parts = r.rsplit(".", 1)
                        if len(parts) == 2 and parts[0] in p.classes:
                            ms = self._methods_of(parts[0], parts[1], virtual=False)
                            if ms:
                                return ms
                        return [r]
            return ["?." + fn.attr]
        return ["?expr"]


def _assigned_names(f: Func) -> set[str]:
    cached = getattr(f, "_assigned_names", None)
    if cached is not None:
        return cached
    out: set[str] = set()
    for n in walk_own(f.node):
        if isinstance(n, ast.Name) and isinstance(n.ctx, ast.Store):
            out.add(n.id)
    f._assigned_names = out  # type: ignore[attr-defined]
    return out
