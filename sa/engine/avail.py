"""Values in terms of the *current* values of the variables: copy propagation + available expressions.

``Terms`` answers "where does this value come from" (its whole provenance, phi over the reaching definitions).  Cursor
arithmetic needs the other classic question: "which expression over the variables as they are NOW equals this value here?"

    next_offset = offset + 2 + length          # before the loop and at the end of its body
    while length == 255 and next_offset < len(buf) and buf[next_offset] == type:

At the test, ``next_offset`` has two reaching definitions, but both assign the same expression and neither ``offset`` nor
``length`` is assigned between either definition and the test: the expression ``offset + 2 + length`` is *available* there
(Aho/Sethi/Ullman 10.6) and ``next_offset`` may be replaced by it.  The code that computes ``peek = offset + 2 + length`` right
before the test gets the same value, so a rule that speaks about "offset + 2 + length at this point" holds for both.

``Avail.value(node, expr)`` returns a canonical value:

    ('lin', ((atom, coeff), ...), const)        an integer-affine combination of atoms (a lone atom: coeff 1, const 0)

    atoms   ('var', name)                   the current value of a local / parameter that cannot be expanded further
            ('read', base, index)           base[index]                 (base, index: values)
            ('slice', base, lo, hi)         base[lo:hi]                 (X[a:][:n] is X[a:a+n]; offsets are non-negative)
            ('len', base)                   len(base)
            ('const', v)                    a non-integer constant
            ('opaque', text, node id)       anything else - equal to nothing but itself at that very node

A name is expanded when every definition reaching the node is a plain assignment of the *same* expression, built from names,
constants, ``+ - *``, subscripts and ``len()``, and none of that expression's operands is assigned or mutated in place on a
path from such a definition to the node.  Nothing is executed; no path is enumerated; the facts are reachability queries
on the statement graph.
"""

from __future__ import annotations

import ast

from .cfg import CFG

MUTATORS = {"pop", "append", "extend", "insert", "remove", "clear", "sort", "reverse", "update", "setdefault", "popitem", "add", "discard", "popleft", "appendleft"}
MAX_DEPTH = 10


def lin(atoms: dict, c: int = 0):
    return ("lin", tuple(sorted(((a, k) for a, k in atoms.items() if k != 0), key=repr)), c)


def atom(a):
    return lin({a: 1}, 0)


def const(c: int):
    return lin({}, c)


def add(a, b, sign: int = 1):
    d = dict(a[1])
    for at, k in b[1]:
        d[at] = d.get(at, 0) + sign * k
    return lin(d, a[2] + sign * b[2])


def scale(a, k: int):
    return lin({at: c * k for at, c in a[1]}, a[2] * k)


def as_const(v):
    return v[2] if v[0] == "lin" and not v[1] else None


def sole_atom(v):
    """the atom when the value is exactly one atom (coefficient 1, no constant) else None"""
    if v[0] == "lin" and len(v[1]) == 1 and v[1][0][1] == 1 and v[2] == 0:
        return v[1][0][0]
    return None


def atoms_of(v) -> list:
    """all atoms occurring in a value, nested ones included"""
    out = []

    def go(x):
        if isinstance(x, tuple):
            if x and x[0] in ("var", "read", "slice", "len", "const", "opaque", "phi", "copy"):
                out.append(x)
            for y in x:
                go(y)

    go(v)
    return out


def has_opaque(v) -> bool:
    return any(a[0] == "opaque" for a in atoms_of(v))


def show(v) -> str:
    if v is None:
        return ""
    if v[0] == "lin":
        parts = []
        for at, k in v[1]:
            s = show(at)
            parts.append(s if k == 1 else f"{k}*{s}")
        if v[2] or not parts:
            parts.append(str(v[2]))
        return " + ".join(parts)
    if v[0] == "var":
        return v[1]
    if v[0] == "read":
        return f"{show(v[1])}[{show(v[2])}]"
    if v[0] == "slice":
        return f"{show(v[1])}[{show(v[2])}:{show(v[3])}]"
    if v[0] == "len":
        return f"len({show(v[1])})"
    if v[0] == "const":
        return repr(v[1])
    if v[0] == "phi":
        return f"{v[1]}@merge"
    if v[0] == "copy":
        return f"copy({show(v[1])})"
    return f"<{v[1]}>"


class Avail:
    def __init__(self, ctx, cfg: CFG):
        self.ctx = ctx
        self.cfg = cfg
        self.du = ctx.terms.du(cfg)
        # nodes that change what a name denotes: its definitions and in-place mutations of the object it names
        self.kills: dict[str, set[int]] = {}
        for nid, dd in self.du.defs.items():
            if nid == cfg.entry.id:
                continue
            for name in dd:
                self.kills.setdefault(name, set()).add(nid)
        for n in cfg.nodes:
            roots = [e for e in n.exprs if e is not None]
            if n.kind == "stmt" and n.ast is not None:
                roots = [n.ast]
            for r in roots:
                for x in ast.walk(r):
                    if isinstance(x, ast.Call) and isinstance(x.func, ast.Attribute) and isinstance(x.func.value, ast.Name) and x.func.attr in MUTATORS:
                        self.kills.setdefault(x.func.value.id, set()).add(n.id)
                    elif isinstance(x, (ast.Subscript, ast.Attribute)) and isinstance(x.ctx, (ast.Store, ast.Del)) and isinstance(x.value, ast.Name):
                        self.kills.setdefault(x.value.id, set()).add(n.id)
        self._reach: dict[tuple, set[int]] = {}
        self._memo: dict[tuple, tuple] = {}

    # ---------------------------------------------------------------- reachability with avoided nodes
    def _forward(self, src: int, avoid: frozenset) -> set[int]:
        """nodes reachable from ``src`` by >= 1 normal or exceptional edge, never passing THROUGH a node of ``avoid``
        (an avoided node may be reached - it is a valid end point - but is not left)"""
        key = (src, avoid)
        r = self._reach.get(key)
        if r is None:
            r = set()
            work = [d for d, _l, _e in self.cfg.nodes[src].succ]
            while work:
                u = work.pop()
                if u in r:
                    continue
                r.add(u)
                if u in avoid:
                    continue
                work.extend(d for d, _l, _e in self.cfg.nodes[u].succ)
            self._reach[key] = r
        return r

    def unchanged(self, name: str, d: int, n: int, own: frozenset) -> bool:
        """``name`` denotes the same value at the entry of node ``n`` as right after node ``d``, on every path from d to n
        that does not pass another node of ``own`` (the definitions of the variable being expanded)."""
        kills = self.kills.get(name, set())
        if not kills:
            return True
        fwd = self._forward(d, own)
        for y in kills:
            if y == d:
                # the defining statement itself also changes the operand (x, y = ..): only a problem through a cycle
                continue
            if y in fwd and (y not in own) and (n in self._forward(y, own)):
                return False
        return True

    # ---------------------------------------------------------------- values
    def value(self, node, e: ast.expr, depth: int = 0):
        nid = node if isinstance(node, int) else node.id
        return self._value(nid, e, depth)

    def var(self, node, name: str):
        """the value of local ``name`` at the entry of ``node``"""
        nid = node if isinstance(node, int) else node.id
        return self._name(nid, name, 0)

    def _opaque(self, nid: int, e: ast.AST):
        try:
            txt = ast.unparse(e)
        except Exception:  # noqa: BLE001
            txt = type(e).__name__
        return atom(("opaque", txt[:60], nid))

    def _value(self, nid: int, e: ast.expr, depth: int):
        V = lambda x: self._value(nid, x, depth)  # noqa: E731
        if isinstance(e, ast.Constant):
            if isinstance(e.value, int) and not isinstance(e.value, bool):
                return const(e.value)
            return atom(("const", e.value if isinstance(e.value, (str, bytes, type(None), bool, float)) else repr(e.value)))
        if isinstance(e, ast.Name):
            return self._name(nid, e.id, depth)
        if isinstance(e, ast.BinOp):
            if isinstance(e.op, (ast.Add, ast.Sub)):
                a, b = V(e.left), V(e.right)
                return add(a, b, 1 if isinstance(e.op, ast.Add) else -1)
            if isinstance(e.op, ast.Mult):
                a, b = V(e.left), V(e.right)
                if as_const(a) is not None:
                    return scale(b, as_const(a))
                if as_const(b) is not None:
                    return scale(a, as_const(b))
            return self._opaque(nid, e)
        if isinstance(e, ast.UnaryOp) and isinstance(e.op, ast.USub):
            return scale(V(e.operand), -1)
        if isinstance(e, ast.Subscript):
            base = V(e.value)
            if isinstance(e.slice, ast.Slice):
                if e.slice.step is not None:
                    return self._opaque(nid, e)
                lo = V(e.slice.lower) if e.slice.lower is not None else None
                hi = V(e.slice.upper) if e.slice.upper is not None else None
                return atom(_slice(base, lo, hi))
            return atom(("read", base, V(e.slice)))
        if isinstance(e, ast.Call) and isinstance(e.func, ast.Name) and e.func.id == "len" and len(e.args) == 1 and not e.keywords:
            return atom(("len", V(e.args[0])))
        if isinstance(e, ast.Call) and isinstance(e.func, ast.Name) and e.func.id in ("bytes", "bytearray", "int") and len(e.args) == 1 and not e.keywords:
            # a copy / conversion of the value: the same bytes / number for what is compared here
            return V(e.args[0])
        return self._opaque(nid, e)

    def _expandable(self, e: ast.expr) -> bool:
        for x in ast.walk(e):
            if isinstance(x, (ast.Name, ast.Constant, ast.BinOp, ast.UnaryOp, ast.Subscript, ast.Slice, ast.operator, ast.unaryop, ast.expr_context)):
                continue
            if isinstance(x, ast.Call) and isinstance(x.func, ast.Name) and x.func.id in ("len", "bytes", "bytearray", "int") and len(x.args) == 1 and not x.keywords:
                continue
            return False
        return True

    def _name(self, nid: int, name: str, depth: int):
        here = atom(("var", name))
        if name not in self.du.local_names:
            mc = self._module_const(name)
            return mc if mc is not None else here
        if depth >= MAX_DEPTH:
            return here
        rd = self.du.reaching(nid, name)
        if not rd:
            return here
        exprs = []
        for _dn, d in rd:
            if d.kind != "assign" or d.path != () or d.value is None:
                return here
            exprs.append(d.value)
        first = ast.dump(exprs[0])
        if any(ast.dump(x) != first for x in exprs[1:]) or not self._expandable(exprs[0]):
            return here
        operands = {x.id for x in ast.walk(exprs[0]) if isinstance(x, ast.Name)} - {"len", "bytes", "bytearray", "int"}
        if name in operands:
            return here
        own = frozenset(self.kills.get(name, set()))
        for dn, _d in rd:
            for w in operands:
                if not self.unchanged(w, dn, nid, own):
                    return here
        # the expression is available: its value now is its value at the definitions
        return self._value(nid, exprs[0], depth + 1)

    # ---------------------------------------------------------------- values over single-assignment names
    def ssa(self, node, e: ast.expr, depth: int = 0):
        """The value of ``e`` at ``node`` over *single-assignment names* instead of current variables: a local with one
        reaching definition is replaced by what that definition computed (evaluated where it stands; `x += e` is the value
        before plus e), a local with several reaching definitions - a merge, typically the loop head - is the atom
        ('phi', name, <its reaching definitions>).  Such values are facts that do not age: two of them are equal exactly when
        the run-time values are, as long as no merge point they mention is passed again in between (one loop iteration).
        A cursor that is advanced step by step (`pos += 1` ... `pos += length`) thus reads `phi(pos) + 2 + buf[phi(pos) + 1]`.
        Reads of an object that is changed in place anywhere in the function are opaque."""
        nid = node if isinstance(node, int) else node.id
        return self._ssa(nid, e, depth)

    def ssa_var(self, node, name: str, depth: int = 0):
        nid = node if isinstance(node, int) else node.id
        return self._ssa_name(nid, name, depth)

    def ssa_after(self, node, name: str):
        """the value of ``name`` right after ``node`` executed normally"""
        n = node if not isinstance(node, int) else self.cfg.nodes[node]
        d = self.du.defs.get(n.id, {}).get(name)
        if d is None:
            return self._ssa_name(n.id, name, 0)
        return self._ssa_def(n.id, name, d, 0)

    def mutated_in_place(self, name: str) -> bool:
        return any(i not in self.du.defs or name not in self.du.defs[i] for i in self.kills.get(name, set()))

    def _ssa_def(self, dn: int, name: str, d, depth: int):
        if d.kind == "assign" and d.path == () and d.value is not None:
            return self._ssa(dn, d.value, depth + 1)
        if d.kind == "aug" and isinstance(d.extra, (ast.Add, ast.Sub)):
            return add(self._ssa_name(dn, name, depth + 1), self._ssa(dn, d.value, depth + 1), 1 if isinstance(d.extra, ast.Add) else -1)
        return atom(("phi", name, (dn,)))

    def _module_const(self, name: str):
        """a name of the module (not a local, not a parameter) that is an integer constant: its value"""
        if name in self.du.local_names or name in getattr(self.cfg.func, "params", ()):
            return None
        try:
            v = self.ctx.const(self.cfg.func, ast.Name(id=name, ctx=ast.Load()), None)
        except Exception:  # noqa: BLE001
            return None
        return const(v) if isinstance(v, int) and not isinstance(v, bool) else None

    def _ssa_name(self, nid: int, name: str, depth: int):
        if name not in self.du.local_names:
            mc = self._module_const(name)
            return mc if mc is not None else atom(("var", name))
        rd = self.du.reaching(nid, name)
        if depth >= 4 * MAX_DEPTH or len(rd) != 1:
            return atom(("phi", name, tuple(sorted(dn for dn, _d in rd))))
        dn, d = rd[0]
        if d.kind == "param":
            return atom(("var", name))
        return self._ssa_def(dn, name, d, depth)

    def _ssa(self, nid: int, e: ast.expr, depth: int):
        V = lambda x: self._ssa(nid, x, depth)  # noqa: E731
        if isinstance(e, ast.Constant):
            if isinstance(e.value, int) and not isinstance(e.value, bool):
                return const(e.value)
            return atom(("const", e.value if isinstance(e.value, (str, bytes, type(None), bool, float)) else repr(e.value)))
        if isinstance(e, ast.Name):
            return self._ssa_name(nid, e.id, depth)
        if isinstance(e, ast.BinOp):
            if isinstance(e.op, (ast.Add, ast.Sub)):
                return add(V(e.left), V(e.right), 1 if isinstance(e.op, ast.Add) else -1)
            if isinstance(e.op, ast.Mult):
                a, b = V(e.left), V(e.right)
                if as_const(a) is not None:
                    return scale(b, as_const(a))
                if as_const(b) is not None:
                    return scale(a, as_const(b))
            return self._opaque(nid, e)
        if isinstance(e, ast.UnaryOp) and isinstance(e.op, ast.USub):
            return scale(V(e.operand), -1)
        if isinstance(e, ast.Subscript):
            if any(isinstance(x, ast.Name) and self.mutated_in_place(x.id) for x in ast.walk(e.value)):
                return self._opaque(nid, e)
            base = V(e.value)
            if isinstance(e.slice, ast.Slice):
                if e.slice.step is not None:
                    return self._opaque(nid, e)
                lo = V(e.slice.lower) if e.slice.lower is not None else None
                hi = V(e.slice.upper) if e.slice.upper is not None else None
                return atom(_slice(base, lo, hi))
            return atom(("read", base, V(e.slice)))
        if isinstance(e, ast.Call) and isinstance(e.func, ast.Name) and e.func.id == "len" and len(e.args) == 1 and not e.keywords:
            if any(isinstance(x, ast.Name) and self.mutated_in_place(x.id) for x in ast.walk(e.args[0])):
                return self._opaque(nid, e)
            return atom(("len", V(e.args[0])))
        if isinstance(e, ast.Call) and not e.keywords and len(e.args) == 1 and (
                (isinstance(e.func, ast.Name) and e.func.id in ("bytes", "bytearray")) or False):
            return atom(("copy", V(e.args[0]), nid))
        if isinstance(e, ast.Call) and isinstance(e.func, ast.Attribute) and e.func.attr == "copy" and not e.args and not e.keywords:
            return atom(("copy", V(e.func.value), nid))
        return self._opaque(nid, e)

    # ---------------------------------------------------------------- the value a definition gives
    def assigned(self, node) -> dict[str, tuple]:
        """name -> value assigned by this node (plain / augmented assignment), in terms of the values before the node"""
        n = node if not isinstance(node, int) else self.cfg.nodes[node]
        a = n.ast
        out = {}
        if n.kind != "stmt" or a is None:
            return out
        if type(a) in (ast.Assign, ast.AnnAssign) and getattr(a, "value", None) is not None:
            tgts = a.targets if isinstance(a, ast.Assign) else [a.target]
            for t in tgts:
                if isinstance(t, ast.Name):
                    out[t.id] = self.value(n, a.value)
        elif isinstance(a, ast.AugAssign) and isinstance(a.target, ast.Name) and isinstance(a.op, (ast.Add, ast.Sub)):
            prev = self._name(n.id, a.target.id, 0)
            out[a.target.id] = add(prev, self.value(n, a.value), 1 if isinstance(a.op, ast.Add) else -1)
        return out


def _slice(base, lo, hi):
    """base[lo:hi] with X[a:][:n] read as X[a:a+n] and X[a:b][c:] ... left alone"""
    b = sole_atom(base)
    if b is not None and b[0] == "slice" and b[3] is None and lo is None and hi is not None:
        inner_lo = b[2] if b[2] is not None else const(0)
        return ("slice", b[1], b[2], add(inner_lo, hi))
    return ("slice", base, lo, hi)
