"""A local that only abbreviates an attribute which is never rebound is read as that attribute.

    buffer = self._incoming_buffer          decrypt = self.decryptor.decrypt          deliver = super().data_received

Hoisting such look-ups out of a loop changes nothing when the attribute is bound once and for all - it is assigned in
``__init__`` methods only, anywhere in the package (changing the object in place is not a rebinding), or it is a method (never
assigned at all).  For a local that is assigned exactly once in its function, by such an expression, every read of the local is
replaced by the expression and the assignment is dropped.  Rules then see ``self._incoming_buffer[:2]`` whichever way the code
spells it.  Anything else - an attribute that some method rebinds (``self.current_response``), a local assigned twice, a name
captured by a nested function - is left alone.
"""

from __future__ import annotations

import ast
import copy


def _rebound_attrs(trees) -> set[str]:
    """attribute names stored (assigned, augmented, deleted, loop / with / except targets) anywhere outside an __init__"""
    out: set[str] = set()

    def scan(node, in_init: bool):
        for ch in ast.iter_child_nodes(node):
            if isinstance(ch, (ast.FunctionDef, ast.AsyncFunctionDef)):
                scan(ch, ch.name == "__init__")
                continue
            if isinstance(ch, ast.Attribute) and isinstance(ch.ctx, (ast.Store, ast.Del)) and not in_init:
                out.add(ch.attr)
            if isinstance(ch, ast.Call) and isinstance(ch.func, ast.Name) and ch.func.id in ("setattr", "delattr"):
                out.add("*")
            scan(ch, in_init)

    for t in trees.values():
        scan(t, False)
    return out


def _assigned_attrs(trees) -> set[str]:
    return {x.attr for t in trees.values() for x in ast.walk(t) if isinstance(x, ast.Attribute) and isinstance(x.ctx, (ast.Store, ast.Del))}


def _stable(e: ast.expr, rebound: set[str], assigned: set[str], base_ok) -> bool:
    """<name>.a[.b..] with every step bound once and for all and a base name that keeps its meaning; super().m"""
    if isinstance(e, ast.Attribute):
        b = e.value
        if isinstance(b, ast.Call) and isinstance(b.func, ast.Name) and b.func.id == "super" and not b.args and not b.keywords:
            return e.attr not in assigned
        if e.attr in rebound:
            return False
        if isinstance(b, ast.Name):
            return base_ok(b.id)
        return _stable(b, rebound, assigned, base_ok)
    return False


def _own(fn):
    """nodes of fn outside nested scopes; nested scopes are yielded as such (not entered)"""
    stack = list(fn.body)
    while stack:
        x = stack.pop()
        yield x
        if isinstance(x, (ast.FunctionDef, ast.AsyncFunctionDef, ast.ClassDef, ast.Lambda)):
            continue
        stack.extend(ast.iter_child_nodes(x))


def _base(e: ast.expr):
    while isinstance(e, ast.Attribute):
        e = e.value
    return e.id if isinstance(e, ast.Name) else None


def _function(fn, rebound, assigned) -> int:
    params = {a.arg for a in fn.args.args + fn.args.kwonlyargs + fn.args.posonlyargs}
    if fn.args.vararg:
        params.add(fn.args.vararg.arg)
    if fn.args.kwarg:
        params.add(fn.args.kwarg.arg)
    stores: dict[str, int] = {}
    captured: set[str] = set()
    for x in _own(fn):
        if isinstance(x, (ast.FunctionDef, ast.AsyncFunctionDef, ast.ClassDef, ast.Lambda)):
            for y in ast.walk(x):
                if isinstance(y, ast.Name):
                    captured.add(y.id)
            if not isinstance(x, ast.Lambda):
                stores[x.name] = stores.get(x.name, 0) + 1
            continue
        if isinstance(x, ast.Name) and isinstance(x.ctx, (ast.Store, ast.Del)):
            stores[x.id] = stores.get(x.id, 0) + 1
        elif isinstance(x, ast.ExceptHandler) and x.name:
            stores[x.name] = stores.get(x.name, 0) + 1
        elif isinstance(x, (ast.Global, ast.Nonlocal)):
            for n in x.names:
                stores[n] = stores.get(n, 0) + 2

    def base_ok(name: str) -> bool:
        # a parameter that is never assigned, a local assigned once, or a name of the module (class, function, import)
        if name in captured:
            return False
        return stores.get(name, 0) == 0 or (stores.get(name) == 1 and name not in params)

    done = 0
    for holder in list(_own(fn)) + [fn]:
        for field in ("body", "orelse", "finalbody"):
            b = getattr(holder, field, None)
            if not (isinstance(b, list) and b and isinstance(b[0], ast.stmt)):
                continue
            for i, st in enumerate(b):
                if not (type(st) is ast.Assign and len(st.targets) == 1 and isinstance(st.targets[0], ast.Name)):
                    continue
                x = st.targets[0].id
                if stores.get(x) != 1 or x in params or x in captured or not _stable(st.value, rebound, assigned, base_ok):
                    continue
                expr = st.value
                # every read of the alias comes after the assignment, in the same block (not: around a loop, in another branch),
                # and the base name is not assigned again behind it
                after = [y for s_ in b[i + 1:] for y in ast.walk(s_)]
                reads_after = sum(1 for y in after if isinstance(y, ast.Name) and y.id == x and isinstance(y.ctx, ast.Load))
                reads_all = sum(1 for y in _own(fn) if isinstance(y, ast.Name) and y.id == x and isinstance(y.ctx, ast.Load))
                bn = _base(expr)
                if reads_after != reads_all or (bn is not None and any(isinstance(y, ast.Name) and y.id == bn and isinstance(y.ctx, (ast.Store, ast.Del)) for y in after)):
                    continue

                class _Sub(ast.NodeTransformer):
                    def visit_Name(self, n):
                        if n.id == x and isinstance(n.ctx, ast.Load):
                            return ast.copy_location(copy.deepcopy(expr), n)
                        return n

                    def generic_visit(self, nd):
                        blk = getattr(nd, "block", None)
                        r = super().generic_visit(nd)
                        if blk is not None:
                            r.block = blk
                        return r

                for s_ in b[i + 1:]:
                    _Sub().visit(s_)  # statements are changed in place (no statement is replaced), the lists stay the same objects
                b[i] = ast.copy_location(ast.Pass(), st)
                done += 1
    return done


def _ordered(node, out, loops, depth_loops=0):
    """pre-order list of (node, number of enclosing loops) in source order, nested scopes not entered"""
    for ch in ast.iter_child_nodes(node):
        if isinstance(ch, (ast.FunctionDef, ast.AsyncFunctionDef, ast.ClassDef, ast.Lambda)):
            out.append((ch, depth_loops))
            continue
        out.append((ch, depth_loops))
        _ordered(ch, out, loops, depth_loops + (1 if isinstance(ch, (ast.For, ast.AsyncFor, ast.While)) else 0))


def _handover_copies(fn) -> int:
    """`x = y` where the local y is never mentioned again and x is not mentioned before (the parameter binding of an inlined
    helper whose argument is a variable the caller is done with): x IS y from there on - every mention of x is renamed to y and
    the copy dropped.  Only outside loops (a copy in a loop re-initialises x each round), only plain locals, neither captured
    by a nested function."""
    done = 0
    for _round in range(8):
        seq: list = []
        _ordered(fn, seq, None)
        pos = {id(n): i for i, (n, _d) in enumerate(seq)}
        captured: set[str] = set()
        for n, _d in seq:
            if isinstance(n, (ast.FunctionDef, ast.AsyncFunctionDef, ast.ClassDef, ast.Lambda)):
                captured |= {y.id for y in ast.walk(n) if isinstance(y, ast.Name)}
        params = {a.arg for a in fn.args.args + fn.args.kwonlyargs + fn.args.posonlyargs}
        mentions: dict[str, list] = {}
        for n, _d in seq:
            if isinstance(n, ast.Name):
                mentions.setdefault(n.id, []).append(n)
            elif isinstance(n, ast.ExceptHandler) and n.name:
                mentions.setdefault(n.name, []).append(n)
            elif isinstance(n, (ast.Global, ast.Nonlocal)):
                for nm in n.names:
                    captured.add(nm)
        change = None
        for n, d in seq:
            if not (type(n) is ast.Assign and d == 0 and len(n.targets) == 1 and isinstance(n.targets[0], ast.Name) and isinstance(n.value, ast.Name)):
                continue
            x, y = n.targets[0].id, n.value.id
            if x == y or x in captured or y in captured or x in params or not x.startswith("_inl"):
                continue
            if y not in params and not any(isinstance(m, ast.Name) and isinstance(m.ctx, ast.Store) for m in mentions.get(y, [])):
                continue  # not a local of this function (a global, a builtin)
            here = pos[id(n)]
            end = here + sum(1 for _ in ast.walk(n)) - 1
            if any(pos[id(m)] > end for m in mentions.get(y, []) if m is not n.value):
                continue  # y is mentioned again later
            if any(pos[id(m)] < here for m in mentions.get(x, [])):
                continue
            change = (n, x, y)
            break
        if change is None:
            break
        n, x, y = change
        for m in mentions.get(x, []):
            if isinstance(m, ast.Name):
                m.id = y
            else:
                m.name = y
        # drop the copy (now `y = y`)
        for holder in ast.walk(fn):
            for field in ("body", "orelse", "finalbody"):
                b = getattr(holder, field, None)
                if isinstance(b, list) and n in b:
                    b[b.index(n)] = ast.copy_location(ast.Pass(), n)
        done += 1
    return done


def inline_stable_aliases(trees: dict[str, ast.Module]) -> dict:
    rebound = _rebound_attrs(trees)
    if "*" in rebound:
        return {"stable_aliases": 0}
    assigned = _assigned_attrs(trees)
    n = h = 0
    for t in trees.values():
        for fn in ast.walk(t):
            if isinstance(fn, (ast.FunctionDef, ast.AsyncFunctionDef)):
                n += _function(fn, rebound, assigned)
                if any(isinstance(x, ast.Name) and x.id.startswith("_inl") for x in ast.walk(fn)):
                    h += _handover_copies(fn)
    return {"stable_aliases": n, "handover_copies": h}
