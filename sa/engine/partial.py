"""Partial operations as additional raise sites, enabled per rule and per function (DESIGN 2.6).

Two-phase: guards are decided on the complete default CFG (normal control flow), the result is a table
``(function, ast node) -> classes`` that the profile feeds to the CFG builder of a second exception-flow
fix-point.  A site is *guarded* when no path from the function entry reaches it while avoiding the
guard's passing edges (must-pass-through), i.e. guards are edges, like everywhere else.
"""

from __future__ import annotations

import ast

from .cfg import CFG, Node
from .excflow import ExcFlow, Profile
from .loader import Func, Program, dotted, walk_expr

INVALID_STATE = "asyncio.InvalidStateError"


def _unparse(e) -> str:
    return " ".join(ast.unparse(e).split())


class PartialProfile(Profile):
    """``scope``: qualname -> {op: option}.  Ops:

    optional_attr : dereference of ``self.<A>.x`` where A is declared/assigned Optional, unguarded -> AttributeError
    future_set    : ``X.set_result/set_exception`` not guarded by ``not X.done()`` -> InvalidStateError
    index         : ``V[<int const>]`` / ``V.pop(i)`` on a listed variable, unguarded by truthiness/len -> IndexError
    enum          : call of a non-Flag package Enum class -> ValueError
    int           : ``int(x)`` / ``float(x)`` on a non-constant -> ValueError
    dictkey       : ``V['k']`` on a listed variable unguarded by ``'k' in V`` -> KeyError
    decimal       : ``Decimal(x)`` -> decimal.InvalidOperation, TypeError, ValueError
    decode        : ``x.decode(..)`` on non-constant bytes without ``errors=`` -> UnicodeDecodeError
    optional_compare : ``a < b`` where an operand is read from a field annotated Optional, not guarded -> TypeError
    """

    def __init__(self, name: str, scope: dict[str, dict], len_facts=()):
        self.name = name
        self.scope = scope
        self.len_facts = list(len_facts)  # (qualname, parameter): try to prove len(parameter) == K at all call sites
        self.suppressed: set[tuple[str, int]] = set()
        self.len_fact_results: list[str] = []
        self.table: dict[tuple[str, int], set[str]] = {}
        self.sites: list[tuple[str, int, str, str, bool]] = []  # (func, lineno, text, class, guarded)

    # ------------------------------------------------------------------ phase 1
    def prepare(self, ctx) -> None:
        pending: dict[str, list] = {}
        for q, ops in self.scope.items():
            if q not in ctx.prog.functions:
                continue
            cfg = ctx.flow.cfg(q)
            for n in cfg.nodes:
                if n.ast is None or n.kind in ("handler", "funcdef", "with_exit", "loop_head"):
                    continue
                classes = set()
                for e in n.exprs:
                    if e is None:
                        continue
                    for sub in walk_expr(e):
                        for cls, guard_edges, text in self._ops(ctx, cfg, n, sub, ops):
                            guarded = False
                            if guard_edges is not None:
                                p = cfg.find_path(cfg.entry.id, n.id, avoid_edges=guard_edges)
                                guarded = p is None
                            self.sites.append((q, n.lineno, text, cls, guarded))
                            if not guarded:
                                classes.add(cls)
                                if cls == "AttributeError" and text.startswith("self.") and text.count(".") == 2:
                                    pending.setdefault(q, []).append((n, text.split(".")[1], len(self.sites) - 1))
                if classes:
                    self.table.setdefault((q, id(n.ast)), set()).update(classes)

        # a helper method dereferences self.<A> without a test of its own, but every call of it inside the scope sits
        # behind the caller's test of self.<A> (nothing runs in between: the scope is a synchronous call tree)
        for q, items in pending.items():
            g = ctx.prog.functions[q]
            if g.cls is None or g.parent is not None:
                continue
            sites_of_q = []
            for cq in self.scope:
                if cq == q or cq not in ctx.prog.functions:
                    continue
                cf = ctx.prog.functions[cq]
                ccfg = ctx.flow.cfg(cq)
                for cn in ccfg.nodes:
                    for c in ctx.calls(cn):
                        if isinstance(c.func, ast.Attribute) and isinstance(c.func.value, ast.Name) and c.func.value.id == "self" \
                                and c.func.attr == g.name and q in ctx.res.resolve_call(cf, c, record=False):
                            sites_of_q.append((cf, ccfg, cn))
            if not sites_of_q:
                continue
            for n, attr, idx in items:
                ok = True
                for cf, ccfg, cn in sites_of_q:
                    owner = cf
                    while owner.parent is not None:
                        owner = owner.parent
                    if owner.cls is None or not ctx.prog.is_subclass(owner.cls.qualname, g.cls.qualname) and not ctx.prog.is_subclass(g.cls.qualname, owner.cls.qualname):
                        ok = False
                        break
                    if ccfg.find_path(ccfg.entry.id, cn.id, avoid_edges=self._optional_guards(ctx, ccfg, attr)) is not None:
                        ok = False
                        break
                if ok:
                    s0 = self.sites[idx]
                    self.sites[idx] = (s0[0], s0[1], s0[2] + " [tested by every caller in the scope]", s0[3], True)
                    key = (q, id(n.ast))
                    still = {self.sites[i][3] for (m, _a, i) in items if m is n and not self.sites[i][4]}
                    if key in self.table:
                        self.table[key] = {c for c in self.table[key] if c != "AttributeError"} | still
                        if not self.table[key]:
                            del self.table[key]

        for q, param in self.len_facts:
            self._length_fact(ctx, q, param)

    def extra(self, flow: ExcFlow, cfg: CFG, node: Node) -> set[str]:
        if node.ast is None:
            return set()
        return set(self.table.get((cfg.func.qualname, id(node.ast)), ()))

    def suppress_raise(self, flow: ExcFlow, cfg: CFG, node: Node) -> bool:
        return node.ast is not None and (cfg.func.qualname, id(node.ast)) in self.suppressed

    def _length_fact(self, ctx, q: str, param: str) -> None:
        """If every package call site of ``q`` passes a Struct.pack result of one size K for ``param``, raises that are
        only reachable through the outcome ``len(param) != K`` are unreachable."""
        from .loader import StructMethod, walk_own

        prog = ctx.prog
        if q not in prog.functions:
            return
        g = prog.functions[q]
        pos = g.pos_params
        if param not in pos:
            return
        idx = pos.index(param) - (1 if g.cls is not None else 0)
        sizes = set()
        nsites = 0
        for f in prog.package_functions():
            if isinstance(f.node, ast.Lambda):
                continue
            for n in walk_own(f.node):
                if not isinstance(n, ast.Call):
                    continue
                if q not in ctx.res.resolve_call(f, n, record=False):
                    continue
                nsites += 1
                arg = None
                if idx < len(n.args):
                    arg = n.args[idx]
                for kw in n.keywords:
                    if kw.arg == param:
                        arg = kw.value
                if arg is None:
                    sizes.add(None)
                    continue
                cfg = ctx.flow.cfg(f.qualname)
                nodes = [x for x in cfg.nodes if x.ast is not None and any(n is s for e in x.exprs if e is not None for s in walk_expr(e))]
                if not nodes:
                    sizes.add(None)
                    continue
                t = ctx.terms.of(cfg, nodes[0], arg)
                if t[0] == "call" and t[1][0] == "const" and isinstance(t[1][1], StructMethod) and t[1][1].method == "pack":
                    sizes.add(t[1][1].struct.size)
                elif t[0] == "const" and isinstance(t[1], (bytes, bytearray)):
                    sizes.add(len(t[1]))
                else:
                    sizes.add(None)
        if nsites == 0 or None in sizes or len(sizes) != 1:
            self.len_fact_results.append(f"len({param}) in {q}: not established (sites={nsites}, sizes={sizes})")
            return
        k = sizes.pop()
        cfg = ctx.flow.cfg(q)
        infeasible = []
        for n in cfg.nodes:
            if n.kind != "test":
                continue
            e = n.exprs[0]
            if isinstance(e, ast.Compare) and len(e.ops) == 1:
                l = e.left
                if isinstance(l, ast.Call) and isinstance(l.func, ast.Name) and l.func.id == "len" and l.args and _unparse(l.args[0]) == param:
                    c = prog.try_const(e.comparators[0], g.module, None, None)
                    if isinstance(c, int):
                        if isinstance(e.ops[0], ast.NotEq):
                            infeasible += cfg.out_edges(n, ("T",) if c == k else ("F",))
                        elif isinstance(e.ops[0], ast.Eq):
                            infeasible += cfg.out_edges(n, ("F",) if c == k else ("T",))
        feasible = cfg.reachable_from(cfg.entry.id, avoid_edges=infeasible)
        for n in cfg.nodes:
            if n.kind == "raise" and n.id not in feasible:
                self.suppressed.add((q, id(n.ast)))
        self.len_fact_results.append(
            f"len({param}) == {k} at all {nsites} call sites of {q}: {len(self.suppressed)} raise(s) unreachable"
        )

    # ------------------------------------------------------------------ operations
    def _ops(self, ctx, cfg: CFG, n: Node, sub: ast.AST, ops: dict):
        f = cfg.func
        prog: Program = ctx.prog
        owner = f
        while owner.parent is not None:
            owner = owner.parent
        # ---- optional attribute dereference
        if "optional_attr" in ops and isinstance(sub, ast.Attribute) and owner.cls is not None:
            v = sub.value
            if (
                isinstance(v, ast.Attribute)
                and isinstance(v.value, ast.Name)
                and v.value.id == "self"
                and ctx.res.attr_is_optional(owner.cls.qualname, v.attr)
            ):
                only = ops["optional_attr"]
                if only is True or v.attr in only:
                    yield "AttributeError", self._optional_guards(ctx, cfg, v.attr), f"self.{v.attr}.{sub.attr}"
        # ---- ordering comparison with a value read from an Optional field: None < 1 raises TypeError
        if "optional_compare" in ops and isinstance(sub, ast.Compare) and any(isinstance(o, (ast.Lt, ast.LtE, ast.Gt, ast.GtE)) for o in sub.ops):
            T = ctx.terms
            for operand in [sub.left] + list(sub.comparators):
                t = T.of(cfg, n, operand)
                fld = self._optional_field(ctx, cfg, t)
                if fld:
                    yield "TypeError", self._not_none_guards(ctx, cfg, n, operand, t), f"ordering comparison with Optional {fld}"
        # ---- futures
        if "future_set" in ops and isinstance(sub, ast.Call) and isinstance(sub.func, ast.Attribute):
            if sub.func.attr in ("set_result", "set_exception"):
                recv = self._path(ctx, cfg, n, sub.func.value)
                yield INVALID_STATE, self._done_guards(ctx, cfg, recv), f"{recv}.{sub.func.attr}()"
        # ---- indexing
        if "index" in ops:
            names = ops["index"]
            if isinstance(sub, ast.Subscript) and isinstance(sub.ctx, ast.Load) and not isinstance(sub.slice, ast.Slice):
                base = _unparse(sub.value)
                idx = prog.try_const(sub.slice, f.module, owner.cls, None)
                if (names is True or base in names) and isinstance(idx, int):
                    need = idx + 1 if idx >= 0 else -idx
                    yield "IndexError", self._len_guards(ctx, cfg, base, need), f"{base}[{idx}]"
            if (
                isinstance(sub, ast.Call)
                and isinstance(sub.func, ast.Attribute)
                and sub.func.attr == "pop"
                and (names is True or _unparse(sub.func.value) in names)
            ):
                base = _unparse(sub.func.value)
                yield "IndexError", self._len_guards(ctx, cfg, base, 1), f"{base}.pop()"
        # ---- fixed-size unpack of a slice of a listed buffer: struct.error when the buffer is shorter than the slice end
        if "index" in ops and isinstance(sub, ast.Call) and sub.args:
            names = ops["index"]
            a0 = sub.args[-1] if (dotted(sub.func) or "").endswith("struct.unpack") or (dotted(sub.func) or "") == "unpack" else sub.args[0]
            is_unpack = False
            fv = prog.try_const(sub.func, f.module, owner.cls, None) if isinstance(sub.func, (ast.Name, ast.Attribute)) else None
            from .loader import StructMethod as _SM

            if isinstance(fv, _SM) and fv.method == "unpack":
                is_unpack = True
            if (dotted(sub.func) or "").endswith("struct.unpack"):
                is_unpack = True
            if is_unpack and isinstance(a0, ast.Subscript) and isinstance(a0.slice, ast.Slice) and a0.slice.upper is not None:
                base = _unparse(a0.value)
                hi = prog.try_const(a0.slice.upper, f.module, owner.cls, None)
                if (names is True or base in names) and isinstance(hi, int) and hi > 0:
                    yield "struct.error", self._len_guards(ctx, cfg, base, hi), f"unpack({base}[:{hi}])"
        # ---- enum constructors
        if "enum" in ops and isinstance(sub, ast.Call) and len(sub.args) == 1 and not sub.keywords:
            d = dotted(sub.func)
            if d:
                r = prog.resolve_dotted(f.module, d)
                if r in prog.classes and _is_plain_enum(prog, r):
                    yield "ValueError", None, f"{d}(…)"
        if "int" in ops and isinstance(sub, ast.Call) and isinstance(sub.func, ast.Name) and sub.func.id in ("int", "float"):
            if sub.args and prog.try_const(sub.args[0], f.module, owner.cls, _NC) is _NC:
                yield "ValueError", None, f"{sub.func.id}(…)"
        if "dictkey" in ops and isinstance(sub, ast.Subscript) and isinstance(sub.ctx, ast.Load):
            base = _unparse(sub.value)
            names = ops["dictkey"]
            key = prog.try_const(sub.slice, f.module, owner.cls, _NC) if not isinstance(sub.slice, ast.Slice) else _NC
            if (names is True or base in names) and isinstance(key, (str, int)) and not isinstance(key, bool):
                yield "KeyError", self._key_guards(ctx, cfg, base, key), f"{base}[{key!r}]"
        if "decode" in ops and isinstance(sub, ast.Call) and isinstance(sub.func, ast.Attribute) and sub.func.attr == "decode":
            # bytes.decode() of peer data: UnicodeDecodeError (a ValueError) unless errors= is given
            if not any(kw.arg == "errors" for kw in sub.keywords) and len(sub.args) < 2:
                recv = prog.try_const(sub.func.value, f.module, owner.cls, _NC)
                if recv is _NC:
                    yield "UnicodeDecodeError", None, f"{_unparse(sub.func.value)}.decode()"
        if "decimal" in ops and isinstance(sub, ast.Call):
            d = dotted(sub.func)
            if d and prog.resolve_dotted(f.module, d) == "decimal.Decimal" and sub.args:
                if prog.try_const(sub.args[0], f.module, owner.cls, _NC) is _NC:
                    yield "decimal.InvalidOperation", None, "Decimal(…)"
                    yield "TypeError", None, "Decimal(…)"
                    yield "ValueError", None, "Decimal(…)"

    def _optional_field(self, ctx, cfg: CFG, t) -> str | None:
        """t = <self.attr of known class type>.<field annotated Optional> -> 'Class.field'"""
        from .resolve import _ann_types

        if not (isinstance(t, tuple) and len(t) == 3 and t[0] == "attr"):
            return None
        base, fld = t[1], t[2]
        f = cfg.func
        owner = f
        while owner.parent is not None:
            owner = owner.parent
        types = set()
        if base[0] == "attr" and base[1] == ("param", "self") and owner.cls is not None:
            types = ctx.res.attr_type(owner.cls.qualname, base[2])
        for tn in types:
            c = ctx.prog.classes.get(tn)
            if c is None:
                continue
            for cn in ctx.prog.mro(tn):
                cc = ctx.prog.classes.get(cn)
                if cc is not None and fld in cc.annotations:
                    _ty, opt = _ann_types(ctx.prog, cc.module, cc.annotations[fld])
                    if opt:
                        return f"{cc.name}.{fld}"
        return None

    def _not_none_guards(self, ctx, cfg: CFG, node: Node, operand: ast.expr, t) -> list:
        """edges after which the compared value is known not to be None (tests on the same term)"""
        T = ctx.terms
        from .terms import strip_sites

        edges = []
        st = strip_sites(t)
        for m in cfg.nodes:
            if m.kind != "test":
                continue
            e = m.exprs[0]
            tt = strip_sites(T.of(cfg, m, e))
            if tt == st:
                edges += cfg.out_edges(m, ("T",))
            elif tt[0] == "cmp" and tt[1] in (("IsNot",), ("Is",)) and tt[2][0] == st and tt[2][1] == ("const", None):
                edges += cfg.out_edges(m, ("T",) if tt[1] == ("IsNot",) else ("F",))
            elif tt[0] == "call" and tt[1] == ("glob", "isinstance") and len(tt[2]) == 2 and tt[2][0] == st:
                edges += cfg.out_edges(m, ("T",))
        return edges

    # ------------------------------------------------------------------ guards (edges)
    def _optional_guards(self, ctx, cfg: CFG, attr: str) -> list:
        edges = []
        target = f"self.{attr}"
        for n in cfg.nodes:
            if n.kind == "test":
                e = n.exprs[0]
                if isinstance(e, ast.NamedExpr):
                    e = e.value
                if _unparse(e) == target:
                    edges += cfg.out_edges(n, ("T",))
                elif isinstance(e, ast.Compare) and len(e.ops) == 1 and _unparse(e.left) == target:
                    c = e.comparators[0]
                    if isinstance(c, ast.Constant) and c.value is None:
                        if isinstance(e.ops[0], ast.IsNot):
                            edges += cfg.out_edges(n, ("T",))
                        elif isinstance(e.ops[0], ast.Is):
                            edges += cfg.out_edges(n, ("F",))
            elif n.kind == "stmt" and isinstance(n.ast, (ast.Assign, ast.AnnAssign)):
                tgts = n.ast.targets if isinstance(n.ast, ast.Assign) else [n.ast.target]
                val = n.ast.value
                for t in tgts:
                    if _unparse(t) == target and val is not None and not (isinstance(val, ast.Constant) and val.value is None):
                        if isinstance(val, ast.Call):
                            edges += cfg.out_edges(n, ("n",))
        return edges

    @staticmethod
    def _path(ctx, cfg: CFG, n, e) -> str:
        """The expression as a dotted path with local aliases of attributes resolved by data flow
        (`f = self._fut; f.set_result(..)` is `self._fut`), else its text."""
        try:
            p = ctx.expr_path(cfg, n, e)
        except Exception:  # noqa: BLE001 - a term that cannot be built is simply not a path
            p = None
        return p if p and "." in p else _unparse(e)

    def _done_guards(self, ctx, cfg: CFG, recv: str) -> list:
        edges = []
        for n in cfg.nodes:
            if n.kind != "test":
                continue
            e = n.exprs[0]
            if isinstance(e, ast.Call) and isinstance(e.func, ast.Attribute) and e.func.attr == "done" and self._path(ctx, cfg, n, e.func.value) == recv:
                edges += cfg.out_edges(n, ("F",))
        return edges

    def _len_guards(self, ctx, cfg: CFG, base: str, need: int) -> list:
        """Edges after which len(base) >= need is known (no consumption tracking: see C15's own analysis)."""
        edges = []
        f = cfg.func
        for n in cfg.nodes:
            if n.kind != "test":
                continue
            e = n.exprs[0]
            inner = e.value if isinstance(e, ast.NamedExpr) else e
            if need <= 1 and (_unparse(e) == base or (isinstance(e, ast.NamedExpr) and _unparse(e.target) == base)):
                edges += cfg.out_edges(n, ("T",))
                continue
            if isinstance(inner, ast.Compare) and len(inner.ops) == 1:
                l, op, r = inner.left, inner.ops[0], inner.comparators[0]
                if isinstance(l, ast.Name):
                    l = ctx.deref(cfg, n, l)[1]  # `length = len(data)` kept in a local is the same test
                if isinstance(l, ast.Call) and isinstance(l.func, ast.Name) and l.func.id == "len" and l.args and _unparse(l.args[0]) == base:
                    k = ctx.prog.try_const(r, f.module, None, None)
                    if isinstance(k, int):
                        # len(base) <op> k : which outcome implies len >= need ?
                        if isinstance(op, ast.Lt) and k >= need:
                            edges += cfg.out_edges(n, ("F",))
                        elif isinstance(op, ast.LtE) and k + 1 >= need:
                            edges += cfg.out_edges(n, ("F",))
                        elif isinstance(op, ast.GtE) and k >= need:
                            edges += cfg.out_edges(n, ("T",))
                        elif isinstance(op, ast.Gt) and k + 1 >= need:
                            edges += cfg.out_edges(n, ("T",))
                        elif isinstance(op, ast.Eq) and k >= need:
                            edges += cfg.out_edges(n, ("T",))
                        elif isinstance(op, ast.NotEq) and k >= need:
                            edges += cfg.out_edges(n, ("F",))
                        elif isinstance(op, ast.Eq) and k == 0 and need <= 1:
                            edges += cfg.out_edges(n, ("F",))  # not empty: at least one
                        elif isinstance(op, ast.NotEq) and k == 0 and need <= 1:
                            edges += cfg.out_edges(n, ("T",))
        return edges

    def _key_guards(self, ctx, cfg: CFG, base: str, key) -> list:
        edges = []
        f = cfg.func
        for n in cfg.nodes:
            if n.kind != "test":
                continue
            e = n.exprs[0]
            if isinstance(e, ast.Compare) and len(e.ops) == 1 and isinstance(e.ops[0], (ast.In, ast.NotIn)):
                if _unparse(e.comparators[0]) == base and ctx.prog.try_const(e.left, f.module, None, _NC) == key:
                    edges += cfg.out_edges(n, ("T",) if isinstance(e.ops[0], ast.In) else ("F",))
        return edges


class _NCType:
    pass


_NC = _NCType()


def _is_plain_enum(prog: Program, clsname: str) -> bool:
    mro = prog.mro(clsname)
    names = {m.split(".")[-1] for m in mro}
    if names & {"Flag", "IntFlag"}:
        return False
    return bool(names & {"Enum", "IntEnum", "StrEnum", "EnumWithDescription"})
