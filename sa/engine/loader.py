"""Program model: parses the package under analysis (never imports it).

Everything here is computed from source text with ``ast``.  Nothing from the
analysed repository is imported or executed.
"""

from __future__ import annotations

import ast
import hashlib
import os
import struct as _struct
from dataclasses import dataclass, field
from typing import Any, Iterable


class AnalysisError(Exception):
    """The analysis cannot resolve something it needs (=> exit 2, never a pass)."""


class NotConst(Exception):
    pass


PKG = "aiohomekit"

# modules that are parsed but never contribute rule instances
EXCLUDED_MODULES = {"aiohomekit.testing"}


@dataclass
class Module:
    name: str
    path: str
    relpath: str
    tree: ast.Module
    source: str
    is_pkg: bool
    imports: dict[str, str] = field(default_factory=dict)  # local name -> dotted target
    assigns: dict[str, list[ast.expr]] = field(default_factory=dict)  # top-level NAME = expr
    functions: dict[str, "Func"] = field(default_factory=dict)
    classes: dict[str, "Cls"] = field(default_factory=dict)


@dataclass
class Cls:
    qualname: str
    name: str
    module: Module
    node: ast.ClassDef
    bases: list[str] = field(default_factory=list)  # resolved dotted names
    methods: dict[str, "Func"] = field(default_factory=dict)
    assigns: dict[str, list[ast.expr]] = field(default_factory=dict)  # class-level NAME = expr
    annotations: dict[str, ast.expr] = field(default_factory=dict)

    def __hash__(self):
        return hash(self.qualname)


@dataclass
class Func:
    qualname: str
    name: str
    module: Module
    node: ast.FunctionDef | ast.AsyncFunctionDef | ast.Lambda
    cls: Cls | None = None
    parent: "Func | None" = None
    nested: dict[str, "Func"] = field(default_factory=dict)
    decorators: list[str] = field(default_factory=list)

    def __hash__(self):
        return hash(self.qualname)

    @property
    def is_async(self) -> bool:
        return isinstance(self.node, ast.AsyncFunctionDef)

    @property
    def is_generator(self) -> bool:
        for n in walk_own(self.node):
            if isinstance(n, (ast.Yield, ast.YieldFrom)):
                return True
        return False

    @property
    def params(self) -> list[str]:
        a = self.node.args
        names = [x.arg for x in a.posonlyargs + a.args]
        if a.vararg:
            names.append(a.vararg.arg)
        names += [x.arg for x in a.kwonlyargs]
        if a.kwarg:
            names.append(a.kwarg.arg)
        return names

    @property
    def pos_params(self) -> list[str]:
        a = self.node.args
        return [x.arg for x in a.posonlyargs + a.args]

    def loc(self, node: ast.AST | None = None) -> str:
        n = node if node is not None else self.node
        return f"{self.module.relpath}:{getattr(n, 'lineno', 0)}"


def walk_own(fn: ast.AST) -> Iterable[ast.AST]:
    """Walk the body of a function without descending into nested defs/lambdas/classes."""
    stack = list(ast.iter_child_nodes(fn))
    while stack:
        n = stack.pop()
        yield n
        if isinstance(n, (ast.FunctionDef, ast.AsyncFunctionDef, ast.Lambda, ast.ClassDef)):
            continue
        stack.extend(ast.iter_child_nodes(n))


def walk_expr(e: ast.AST) -> Iterable[ast.AST]:
    """Walk an expression, not descending into lambdas / nested defs (comprehensions are entered)."""
    stack = [e]
    while stack:
        n = stack.pop()
        yield n
        if isinstance(n, (ast.FunctionDef, ast.AsyncFunctionDef, ast.Lambda, ast.ClassDef)) and n is not e:
            continue
        stack.extend(ast.iter_child_nodes(n))


def dotted(e: ast.AST) -> str | None:
    """a.b.c -> 'a.b.c' for Name/Attribute chains."""
    parts = []
    while isinstance(e, ast.Attribute):
        parts.append(e.attr)
        e = e.value
    if isinstance(e, ast.Name):
        parts.append(e.id)
        return ".".join(reversed(parts))
    return None


BUILTIN_EXC_PARENTS = {
    "BaseException": None,
    "Exception": "BaseException",
    "GeneratorExit": "BaseException",
    "KeyboardInterrupt": "BaseException",
    "SystemExit": "BaseException",
    "asyncio.CancelledError": "BaseException",
    # CancelledError that does not come from the cancellation of the awaiting caller but from asking a cancelled task
    # for its result()/exception(): a distinct (sub)class so that rules can tell the two origins apart
    "asyncio.CancelledError[task]": "asyncio.CancelledError",
    "ArithmeticError": "Exception",
    "ZeroDivisionError": "ArithmeticError",
    "OverflowError": "ArithmeticError",
    "decimal.DecimalException": "ArithmeticError",
    "decimal.InvalidOperation": "decimal.DecimalException",
    "AssertionError": "Exception",
    "AttributeError": "Exception",
    "LookupError": "Exception",
    "IndexError": "LookupError",
    "KeyError": "LookupError",
    "OSError": "Exception",
    "ConnectionError": "OSError",
    "ConnectionResetError": "ConnectionError",
    "BrokenPipeError": "ConnectionError",
    "FileNotFoundError": "OSError",
    "PermissionError": "OSError",
    "TimeoutError": "OSError",
    "EOFError": "Exception",
    "RuntimeError": "Exception",
    "NotImplementedError": "RuntimeError",
    "RecursionError": "RuntimeError",
    "StopIteration": "Exception",
    "StopAsyncIteration": "Exception",
    "TypeError": "Exception",
    "ValueError": "Exception",
    "UnicodeError": "ValueError",
    "UnicodeDecodeError": "UnicodeError",
    "UnicodeEncodeError": "UnicodeError",
    "json.JSONDecodeError": "ValueError",
    "orjson.JSONDecodeError": "json.JSONDecodeError",
    "binascii.Error": "ValueError",
    "struct.error": "Exception",
    "lark.exceptions.LarkError": "Exception",
    "cryptography.exceptions.InvalidTag": "Exception",
    "cryptography.exceptions.InvalidSignature": "Exception",
    "asyncio.InvalidStateError": "Exception",
    "bleak.exc.BleakError": "Exception",
    "bleak.exc.BleakDBusError": "bleak.exc.BleakError",
    "bleak_retry_connector.BleakNotFoundError": "bleak.exc.BleakError",
    "bleak_retry_connector.BleakConnectionError": "bleak.exc.BleakError",
    "bleak_retry_connector.BleakAbortedError": "bleak.exc.BleakError",
    "aiocoap.error.NetworkError": "Exception",
    "aiocoap.error.Error": "Exception",
}

EXC_ALIASES = {
    "asyncio.TimeoutError": "TimeoutError",
    "asyncio.exceptions.TimeoutError": "TimeoutError",
    "asyncio.exceptions.CancelledError": "asyncio.CancelledError",
    "concurrent.futures.CancelledError": "asyncio.CancelledError",
    "asyncio.exceptions.InvalidStateError": "asyncio.InvalidStateError",
    "json.decoder.JSONDecodeError": "json.JSONDecodeError",
    "socket.error": "OSError",
    "IOError": "OSError",
    "EnvironmentError": "OSError",
    "lark.LarkError": "lark.exceptions.LarkError",
    "decimal.InvalidOperation": "decimal.InvalidOperation",
    "bleak.BleakError": "bleak.exc.BleakError",
    "struct.error": "struct.error",
}


class _Canon(ast.NodeTransformer):
    """Canonical statement forms, applied to every module before anything is indexed, so that rules see ONE spelling:

    * ``t = t <op> e``  ->  ``t <op>= e``  for a name or a plain attribute chain ``t`` (the two spellings denote the same
      update for the numbers / bytes this package updates that way; rules speak of "the increment", not of its spelling).
    * ``K <op> x``  ->  ``x <mirrored op> K``  for a constant-like ``K`` (literal or constant-style name).
    """

    @staticmethod
    def _chain(e) -> bool:
        while isinstance(e, ast.Attribute):
            e = e.value
        return isinstance(e, ast.Name)

    MIRROR = {ast.Eq: ast.Eq, ast.NotEq: ast.NotEq, ast.Lt: ast.Gt, ast.Gt: ast.Lt, ast.LtE: ast.GtE, ast.GtE: ast.LtE}

    @staticmethod
    def _constant_like(e) -> bool:
        """A literal, a negated literal, or a name spelled like a constant (MAX_GSN, TLV.kTLVType_State, HapStatusCode.SUCCESS)."""
        import re

        if isinstance(e, ast.UnaryOp) and isinstance(e.op, (ast.USub, ast.UAdd)):
            e = e.operand
        if isinstance(e, ast.Constant):
            return True
        last = e.attr if isinstance(e, ast.Attribute) else e.id if isinstance(e, ast.Name) else None
        if last is None:
            return False
        base = e
        while isinstance(base, ast.Attribute):
            base = base.value
        if not isinstance(base, ast.Name):
            return False
        if isinstance(e, ast.Attribute) and base.id[:1].isupper():
            return True  # a member of a class / enum: CharacteristicFormats.bool, TLV.M2, PDUStatus.SUCCESS
        return bool(re.fullmatch(r"[A-Z][A-Z0-9_]*|k[A-Z]\w*", last))

    def visit_Compare(self, node: ast.Compare):
        """`K <op> x` -> `x <mirrored op> K` for a constant-like K: comparisons are read with the constant on the right."""
        self.generic_visit(node)
        if len(node.ops) == 1 and type(node.ops[0]) in self.MIRROR and self._constant_like(node.left) and not self._constant_like(node.comparators[0]):
            return ast.copy_location(ast.Compare(left=node.comparators[0], ops=[self.MIRROR[type(node.ops[0])]()], comparators=[node.left]), node)
        return node

    # keyword spellings of builtin calls whose parameters are fixed by the language: (callee kind, name) -> parameter order
    _BUILTIN_KW = {("name", "int"): ("x", "base"), ("attr", "split"): ("sep", "maxsplit"), ("attr", "rsplit"): ("sep", "maxsplit"),
                   ("attr", "decode"): ("encoding", "errors"), ("attr", "encode"): ("encoding", "errors"),
                   ("attr", "to_bytes"): ("length", "byteorder"), ("attr", "from_bytes"): ("bytes", "byteorder")}
    _BUILTIN_DEFAULTS = {("split", "sep"): None, ("rsplit", "sep"): None, ("decode", "encoding"): "utf-8", ("encode", "encoding"): "utf-8"}

    def visit_Call(self, node: ast.Call):
        """`int(line, base=16)` -> `int(line, 16)`, `s.split(maxsplit=2, sep=b" ")` -> `s.split(b" ", 2)` ..: one spelling of the
        arguments of builtins (argument expressions without effects only, since the order of evaluation may change)."""
        self.generic_visit(node)
        # all(E(k) for k in ("a", "b")) over a literal display of constants is `E("a") and E("b")` (any: or) - the same
        # evaluations in the same order, short-circuit included
        if isinstance(node.func, ast.Name) and node.func.id in ("all", "any") and len(node.args) == 1 and not node.keywords and isinstance(node.args[0], (ast.GeneratorExp, ast.ListComp)):
            ge = node.args[0]
            if len(ge.generators) == 1 and not ge.generators[0].ifs and not ge.generators[0].is_async and isinstance(ge.generators[0].target, ast.Name) \
                    and isinstance(ge.generators[0].iter, (ast.Tuple, ast.List)) and 2 <= len(ge.generators[0].iter.elts) <= 6 \
                    and all(isinstance(x, ast.Constant) for x in ge.generators[0].iter.elts) and isinstance(ge, ast.GeneratorExp) \
                    and (isinstance(ge.elt, ast.Compare) or (isinstance(ge.elt, ast.UnaryOp) and isinstance(ge.elt.op, ast.Not))) \
                    and not any(isinstance(x, (ast.Lambda, ast.NamedExpr, ast.GeneratorExp, ast.ListComp, ast.SetComp, ast.DictComp)) for x in ast.walk(ge.elt)):
                import copy as _copy

                var = ge.generators[0].target.id

                def inst(c_):
                    class _S(ast.NodeTransformer):
                        def visit_Name(self, n_):
                            return ast.copy_location(_copy.deepcopy(c_), n_) if n_.id == var and isinstance(n_.ctx, ast.Load) else n_

                    return _S().visit(_copy.deepcopy(ge.elt))

                new = ast.BoolOp(op=ast.And() if node.func.id == "all" else ast.Or(), values=[inst(c_) for c_ in ge.generators[0].iter.elts])
                return ast.fix_missing_locations(ast.copy_location(new, node))
        if not node.keywords or any(k.arg is None for k in node.keywords) or any(isinstance(a, ast.Starred) for a in node.args):
            return node
        key = ("name", node.func.id) if isinstance(node.func, ast.Name) else ("attr", node.func.attr) if isinstance(node.func, ast.Attribute) else None
        order = self._BUILTIN_KW.get(key)
        if order is None or any(k.arg not in order for k in node.keywords):
            return node
        by = {k.arg: k.value for k in node.keywords}
        if any(order.index(a) < len(node.args) for a in by):
            return node
        from .inline import _pure

        if not all(_pure(v) for v in by.values()):
            return node
        args = list(node.args)
        top = max(order.index(a) for a in by)
        for i in range(len(args), top + 1):
            if order[i] in by:
                args.append(by[order[i]])
            elif (key[1], order[i]) in self._BUILTIN_DEFAULTS:
                args.append(ast.copy_location(ast.Constant(value=self._BUILTIN_DEFAULTS[(key[1], order[i])]), node))
            else:
                return node
        node.args, node.keywords = args, []
        return node

    def visit_Try(self, node: ast.Try):
        """`try: x = D[K]  except KeyError: A  [else: B]`  ->  `if K in D: x = D[K]; B  else: A`  for plain D and K.

        The mapping contract (`D[K]` raises KeyError exactly when `K not in D`) makes the two the same question; the
        `in` form is the one whose outcomes the rules read as "item present" / "item absent"."""
        self.generic_visit(node)
        if len(node.body) != 1 or len(node.handlers) != 1 or node.finalbody:
            return node
        st, h = node.body[0], node.handlers[0]
        if not (isinstance(h.type, ast.Name) and h.type.id == "KeyError"):
            return node
        if h.name and any(isinstance(x, ast.Name) and x.id == h.name for b in h.body for x in ast.walk(b)):
            return node
        if isinstance(st, ast.AnnAssign) and st.simple and st.value is not None:
            tgt, val = st.target, st.value
        elif type(st) is ast.Assign and len(st.targets) == 1:
            tgt, val = st.targets[0], st.value
        else:
            return node
        if not (isinstance(tgt, ast.Name) and isinstance(val, ast.Subscript) and not isinstance(val.slice, (ast.Slice, ast.Tuple))):
            return node

        def plain(e) -> bool:
            if isinstance(e, ast.Constant) or isinstance(e, ast.Name):
                return True
            return isinstance(e, ast.Attribute) and plain(e.value)

        if not (plain(val.value) and plain(val.slice)):
            return node
        import copy as _copy

        test = ast.Compare(left=_copy.deepcopy(val.slice), ops=[ast.In()], comparators=[_copy.deepcopy(val.value)])
        new = ast.If(test=test, body=[st] + list(node.orelse), orelse=list(h.body))
        ast.copy_location(new, node)
        ast.copy_location(test, st)
        ast.fix_missing_locations(new)
        return new

    def visit_Assign(self, node: ast.Assign):
        self.generic_visit(node)
        v = node.value
        # `a, self.b = X, Y`  ->  `a = X; self.b = Y` where the split cannot be observed: every target but the last is a
        # plain local that no later value reads (the right-hand sides are all evaluated before any store in the tuple form),
        # and the later values call nothing (a call could see the earlier store through a closure)
        if len(node.targets) == 1 and isinstance(node.targets[0], ast.Tuple) and isinstance(v, ast.Tuple) and len(v.elts) == len(node.targets[0].elts) >= 2 \
                and not any(isinstance(x, ast.Starred) for x in list(v.elts) + list(node.targets[0].elts)):
            tg, vs = node.targets[0].elts, v.elts
            ok = all(isinstance(t, ast.Name) or (isinstance(t, ast.Attribute) and self._chain(t)) for t in tg)
            if ok:
                for i, t in enumerate(tg[:-1]):
                    base = t
                    while isinstance(base, ast.Attribute):
                        base = base.value
                    for later in vs[i + 1:]:
                        # the later value must not be able to see the earlier store: it does not mention the local stored; of the
                        # object whose attribute is stored it reads OTHER attributes at most (no callee receives the object itself,
                        # as an argument or as the receiver of a method), and nothing is suspended
                        fine = set()
                        if isinstance(t, ast.Attribute):
                            funcs = {id(c.func) for c in ast.walk(later) if isinstance(c, ast.Call)}
                            for x in ast.walk(later):
                                if isinstance(x, ast.Attribute) and isinstance(x.ctx, ast.Load) and isinstance(x.value, ast.Name) and x.value.id == base.id \
                                        and id(x) not in funcs and not (t.value is not None and isinstance(t.value, ast.Name) and x.attr == t.attr):
                                    fine.add(id(x.value))
                        for x in ast.walk(later):
                            if (isinstance(x, ast.Name) and x.id == base.id and id(x) not in fine) or isinstance(x, (ast.Await, ast.Yield, ast.YieldFrom, ast.NamedExpr, ast.Lambda)):
                                ok = False
            if ok and len({ast.dump(t) for t in tg}) == len(tg):
                outs = []
                for t, val in zip(tg, vs):
                    r_ = self.visit_Assign(ast.copy_location(ast.Assign(targets=[t], value=val, type_comment=None), node))  # `i = i + 1` of the split is `i += 1`
                    outs.extend(r_ if isinstance(r_, list) else [r_])
                return outs
            # otherwise through temporaries, which is what the tuple form does: every value first, then every store, in order
            if all(isinstance(t, ast.Name) or (isinstance(t, ast.Attribute) and self._chain(t)) for t in tg):
                _Canon._tup = getattr(_Canon, "_tup", 0) + 1
                k = _Canon._tup
                tmps = [f"_tup{k}_{i}" for i in range(len(tg))]
                out = [ast.copy_location(ast.Assign(targets=[ast.Name(id=nm, ctx=ast.Store())], value=val, type_comment=None), val) for nm, val in zip(tmps, vs)]
                out += [ast.copy_location(ast.Assign(targets=[t], value=ast.Name(id=nm, ctx=ast.Load()), type_comment=None), node) for nm, t in zip(tmps, tg)]
                for st_ in out:
                    ast.fix_missing_locations(st_)
                return out
        # `self.buf[:0] = e` (prepend in place) -> `self.buf = e + self.buf` for an attribute chain: the same bytes for every
        # reader of the attribute (a bare local is left alone: there the two differ for an alias of the object)
        if len(node.targets) == 1 and isinstance(node.targets[0], ast.Subscript) and isinstance(node.targets[0].value, ast.Attribute) and self._chain(node.targets[0].value):
            sl = node.targets[0].slice
            if isinstance(sl, ast.Slice) and sl.step is None and isinstance(sl.upper, ast.Constant) and sl.upper.value == 0 and type(sl.upper.value) is int \
                    and (sl.lower is None or (isinstance(sl.lower, ast.Constant) and sl.lower.value == 0)):
                import copy as _copy

                base = node.targets[0].value
                load = _copy.deepcopy(base)
                for x in ast.walk(load):
                    if hasattr(x, "ctx"):
                        x.ctx = ast.Load()
                store = _copy.deepcopy(base)
                store.ctx = ast.Store()
                new = ast.Assign(targets=[store], value=ast.BinOp(left=v, op=ast.Add(), right=load), type_comment=None)
                return ast.fix_missing_locations(ast.copy_location(new, node))
        if len(node.targets) == 1 and isinstance(v, ast.BinOp) and self._chain(node.targets[0]) and self._chain(v.left):
            t = node.targets[0]
            if ast.dump(t).replace("Store()", "Load()") == ast.dump(v.left):
                return ast.copy_location(ast.AugAssign(target=t, op=v.op, value=v.right), node)
        return node


def _canon_ifexp_assign(tree: ast.AST) -> int:
    """`x = a if c else b`  ->  `if c: x = a  else: x = b`  for a plain local / attribute-chain target: ONE spelling of a
    conditional assignment - the statement form, whose test is an edge of the graph and whose two values are two
    definitions (rules then see the same thing whichever way it was written)."""
    import copy as _copy
    from .inline import InlineReturn as _InlineReturn

    done = 0
    for holder in list(ast.walk(tree)):
        for field in ("body", "orelse", "finalbody"):
            b = getattr(holder, field, None)
            if not (isinstance(b, list) and b and isinstance(b[0], ast.stmt)):
                continue
            for i, st in enumerate(b):
                if type(st) is _InlineReturn and isinstance(st.value, ast.IfExp):
                    # the `return a if c else b` of an inlined helper: two returns under the test
                    ie = st.value
                    rs = []
                    for val in (ie.body, ie.orelse):
                        r = _InlineReturn(targets=[_copy.deepcopy(st.targets[0])], value=val, type_comment=None)
                        r.block = st.block
                        rs.append(ast.copy_location(r, val))
                    new = ast.copy_location(ast.If(test=ie.test, body=[rs[0]], orelse=[rs[1]]), st)
                    ast.fix_missing_locations(new)
                    b[i] = new
                    done += 1
                    continue
                if type(st) is ast.Assign and len(st.targets) == 1 and isinstance(st.value, ast.IfExp) and (
                        isinstance(st.targets[0], ast.Name) or (isinstance(st.targets[0], ast.Attribute) and _Canon._chain(st.targets[0]))):
                    ie = st.value
                    t2 = _copy.deepcopy(st.targets[0])
                    a1 = ast.copy_location(ast.Assign(targets=[st.targets[0]], value=ie.body, type_comment=None), ie.body)
                    a2 = ast.copy_location(ast.Assign(targets=[t2], value=ie.orelse, type_comment=None), ie.orelse)
                    new = ast.copy_location(ast.If(test=ie.test, body=[a1], orelse=[a2]), st)
                    ast.fix_missing_locations(new)
                    b[i] = new
                    done += 1
    return done


def _canon_clamps(tree: ast.AST) -> int:
    """`if x >= K: x = K` (no else) is `x = min(x, K)`; `if x <= K: x = K` is `x = max(x, K)` (also the strict forms and the
    mirrored comparison; `if A and x >= K: x = K` is `if A: x = min(x, K)`).  The same number in every case (on a tie the two
    spellings may pick the other of two equal numbers).  Range rules then meet ONE form of a clamp."""
    import copy as _copy

    done = 0
    for holder in list(ast.walk(tree)):
        for field in ("body", "orelse", "finalbody"):
            b = getattr(holder, field, None)
            if not (isinstance(b, list) and b and isinstance(b[0], ast.stmt)):
                continue
            for i, st in enumerate(b):
                if not (type(st) is ast.If and not st.orelse and len(st.body) == 1 and type(st.body[0]) is ast.Assign and len(st.body[0].targets) == 1
                        and isinstance(st.body[0].targets[0], ast.Name)):
                    continue
                x = st.body[0].targets[0].id
                K = st.body[0].value
                test, pre = st.test, None
                if isinstance(test, ast.BoolOp) and isinstance(test.op, ast.And):
                    pre, test = test.values[:-1], test.values[-1]
                if not (isinstance(test, ast.Compare) and len(test.ops) == 1):
                    continue
                l, op, r = test.left, type(test.ops[0]).__name__, test.comparators[0]
                if isinstance(r, ast.Name) and r.id == x and not (isinstance(l, ast.Name) and l.id == x):
                    l, r = r, l
                    op = {"Lt": "Gt", "Gt": "Lt", "LtE": "GtE", "GtE": "LtE"}.get(op, op)
                if not (isinstance(l, ast.Name) and l.id == x and op in ("Lt", "Gt", "LtE", "GtE") and ast.dump(r) == ast.dump(K)):
                    continue
                if any(isinstance(y, (ast.Await, ast.Yield, ast.YieldFrom, ast.NamedExpr, ast.Lambda)) or (isinstance(y, ast.Name) and y.id == x) for y in ast.walk(K)):
                    continue
                fn_ = "min" if op in ("Gt", "GtE") else "max"
                call = ast.Call(func=ast.Name(id=fn_, ctx=ast.Load()), args=[ast.Name(id=x, ctx=ast.Load()), _copy.deepcopy(K)], keywords=[])
                new = ast.Assign(targets=[ast.Name(id=x, ctx=ast.Store())], value=call, type_comment=None)
                ast.copy_location(new, st.body[0])
                if pre:
                    new = ast.If(test=pre[0] if len(pre) == 1 else ast.BoolOp(op=ast.And(), values=list(pre)), body=[new], orelse=[])
                    ast.copy_location(new, st)
                ast.fix_missing_locations(new)
                b[i] = new
                done += 1
                # `x = E` right before the clamp: one statement `x = min(E, K)` (E is evaluated first in both)
                if not pre and i > 0 and type(b[i - 1]) is ast.Assign and len(b[i - 1].targets) == 1 and isinstance(b[i - 1].targets[0], ast.Name) and b[i - 1].targets[0].id == x \
                        and not any(isinstance(y, (ast.Await, ast.Yield, ast.YieldFrom, ast.NamedExpr, ast.Lambda)) for y in ast.walk(b[i - 1].value)):
                    call.args[0] = b[i - 1].value
                    b[i - 1] = ast.copy_location(ast.Pass(), b[i - 1])
    return done


def _canon_bool_temps(tree: ast.AST) -> int:
    """`t = <comparison / and / or / not>` directly followed by an `if` whose test evaluates t first, t bound and read nowhere
    else: the expression is tested where it was computed (`ready = c is None or c.done()` / `if not ready or ..:`)."""
    from .inline import _first_evaluated

    done = 0
    for fn in [n for n in ast.walk(tree) if isinstance(n, (ast.FunctionDef, ast.AsyncFunctionDef))]:
        counts: dict[str, list] = {}
        for n in ast.walk(fn):
            if isinstance(n, ast.Name):
                c = counts.setdefault(n.id, [0, 0])
                c[0 if isinstance(n.ctx, ast.Load) else 1] += 1
        for holder in list(ast.walk(fn)):
            for field in ("body", "orelse", "finalbody"):
                b = getattr(holder, field, None)
                if not (isinstance(b, list) and len(b) >= 2 and isinstance(b[0], ast.stmt)):
                    continue
                i = 0
                while i + 1 < len(b):
                    a, nxt = b[i], b[i + 1]
                    i += 1
                    if not (type(a) is ast.Assign and len(a.targets) == 1 and isinstance(a.targets[0], ast.Name) and type(nxt) is ast.If
                            and isinstance(a.value, (ast.BoolOp, ast.Compare)) or (type(a) is ast.Assign and len(a.targets) == 1 and isinstance(a.targets[0], ast.Name) and type(nxt) is ast.If
                                                                                   and isinstance(a.value, ast.UnaryOp) and isinstance(a.value.op, ast.Not))):
                        continue
                    t = a.targets[0].id
                    if counts.get(t) != [1, 1] or any(isinstance(y, (ast.NamedExpr, ast.Await, ast.Yield, ast.YieldFrom, ast.Lambda)) for y in ast.walk(a.value)):
                        continue
                    go = _first_evaluated(nxt.test, lambda nd: isinstance(nd, ast.Name) and nd.id == t)
                    # _first_evaluated does not descend into and/or: take the first operand chain by hand
                    root, setter = nxt.test, (lambda v, n_=nxt: setattr(n_, "test", v))
                    while isinstance(root, ast.BoolOp) or (isinstance(root, ast.UnaryOp) and isinstance(root.op, ast.Not)):
                        if isinstance(root, ast.BoolOp):
                            root, setter = root.values[0], (lambda v, n_=root: n_.values.__setitem__(0, v))
                        else:
                            root, setter = root.operand, (lambda v, n_=root: setattr(n_, "operand", v))
                    r = go(root, setter)
                    if r is None:
                        continue
                    r[0](a.value)
                    del b[i - 1]
                    i -= 1
                    done += 1
    return done


def _canon_flag_loops(fn: ast.AST) -> int:
    """`while not done and ..:` whose body ends a round with `done = True`: a `break` is put behind that assignment.

    In tail position of the loop body (nothing of the round is executed after it) the assignment makes the next evaluation of
    the loop test fail at its first conjunct, which is what `break` does (no loop `else`); the flag keeps its value.  The loop
    test then never sees a true flag, and the graph has the exit where the code decides it instead of one merge point later."""
    done = 0
    for loop in ast.walk(fn):
        if not (isinstance(loop, ast.While) and not loop.orelse):
            continue
        conj = loop.test.values if isinstance(loop.test, ast.BoolOp) and isinstance(loop.test.op, ast.And) else [loop.test]
        flags: dict[str, bool] = {}  # name -> the truth value that ends the loop
        for i, c in enumerate(conj):
            if any(isinstance(x, (ast.NamedExpr, ast.Call, ast.Await, ast.Yield, ast.YieldFrom)) for e in conj[:i] for x in ast.walk(e)):
                break
            if isinstance(c, ast.Name):
                flags[c.id] = False
            elif isinstance(c, ast.UnaryOp) and isinstance(c.op, ast.Not) and isinstance(c.operand, ast.Name):
                flags[c.operand.id] = True
        if not flags:
            continue

        def tails(block: list):
            if not block:
                return
            st = block[-1]
            if type(st) is ast.Assign and len(st.targets) == 1 and isinstance(st.targets[0], ast.Name) and st.targets[0].id in flags \
                    and isinstance(st.value, ast.Constant) and isinstance(st.value.value, bool) and st.value.value is flags[st.targets[0].id]:
                yield block
            elif type(st) is ast.If:
                yield from tails(st.body)
                yield from tails(st.orelse)
            elif isinstance(st, (ast.With, ast.AsyncWith)):
                yield from tails(st.body)

        for block in list(tails(loop.body)):
            block.append(ast.copy_location(ast.Break(), block[-1]))
            done += 1

        # `done = True; continue`: the jump to the loop test, which fails at the flag - the same `break`, wherever it stands
        def conts(block: list):
            for i, st in enumerate(block):
                if isinstance(st, (ast.For, ast.AsyncFor, ast.While, ast.FunctionDef, ast.AsyncFunctionDef, ast.ClassDef)):
                    continue
                if isinstance(st, ast.Continue) and i > 0:
                    p_ = block[i - 1]
                    if type(p_) is ast.Assign and len(p_.targets) == 1 and isinstance(p_.targets[0], ast.Name) and p_.targets[0].id in flags \
                            and isinstance(p_.value, ast.Constant) and isinstance(p_.value.value, bool) and p_.value.value is flags[p_.targets[0].id]:
                        yield block, i
                for fld in ("body", "orelse", "finalbody"):
                    b_ = getattr(st, fld, None)
                    if isinstance(b_, list) and b_ and isinstance(b_[0], ast.stmt):
                        yield from conts(b_)
                for h_ in getattr(st, "handlers", []) or []:
                    yield from conts(h_.body)

        for block, i in list(conts(loop.body)):
            block[i] = ast.copy_location(ast.Break(), block[i])
            done += 1
    return done


_NEG = {ast.In: ast.NotIn, ast.NotIn: ast.In, ast.Is: ast.IsNot, ast.IsNot: ast.Is, ast.Eq: ast.NotEq, ast.NotEq: ast.Eq}


def negate(e: ast.expr) -> ast.expr:
    """``not e`` in its plainest spelling (truth value only: used where the result is tested, never stored)."""
    if isinstance(e, ast.UnaryOp) and isinstance(e.op, ast.Not):
        return e.operand
    if isinstance(e, ast.Compare) and len(e.ops) == 1 and type(e.ops[0]) in _NEG:
        return ast.copy_location(ast.Compare(left=e.left, ops=[_NEG[type(e.ops[0])]()], comparators=e.comparators), e)
    if isinstance(e, ast.BoolOp):
        return ast.copy_location(ast.BoolOp(op=ast.And() if isinstance(e.op, ast.Or) else ast.Or(), values=[negate(v) for v in e.values]), e)
    return ast.copy_location(ast.UnaryOp(op=ast.Not(), operand=e), e)


def _acc_shape(body: list, acc: str):
    """Loop body that only filters and appends to ``acc``: -> (conditions, appended expression) else None.

        [if C: continue]* ; acc.append(E)            |            if C: <the same shape>
    """
    conds = []
    body = list(body)
    while body:
        st = body[0]
        if isinstance(st, ast.If) and not st.orelse and len(st.body) == 1 and isinstance(st.body[0], ast.Continue) and len(body) > 1:
            conds.append(negate(st.test))
            body = body[1:]
            continue
        if isinstance(st, ast.If) and not st.orelse and len(body) == 1:
            conds.append(st.test)
            body = list(st.body)
            continue
        break
    tmp = None
    if len(body) == 2 and not conds:
        # `x = E ; acc.append(x)`: the element built in a temporary first
        a = body[0]
        if isinstance(a, ast.AnnAssign) and a.simple and a.value is not None and isinstance(a.target, ast.Name):
            tmp = (a.target.id, a.value)
        elif type(a) is ast.Assign and len(a.targets) == 1 and isinstance(a.targets[0], ast.Name):
            tmp = (a.targets[0].id, a.value)
        if tmp is None:
            return None
        body = body[1:]
    if len(body) != 1:
        return None
    st = body[0]
    if not (isinstance(st, ast.Expr) and isinstance(st.value, ast.Call)):
        return None
    c = st.value
    if not (isinstance(c.func, ast.Attribute) and c.func.attr == "append" and isinstance(c.func.value, ast.Name) and c.func.value.id == acc
            and len(c.args) == 1 and not c.keywords and not isinstance(c.args[0], ast.Starred)):
        return None
    if tmp is not None:
        if not (isinstance(c.args[0], ast.Name) and c.args[0].id == tmp[0]):
            return None
        return conds, tmp[1], tmp[0]
    return conds, c.args[0], None


def _canon_acc_loops(fn: ast.AST) -> int:
    """``acc = []`` directly followed by a ``for`` that only filters and appends to ``acc``  ->  ``acc = [E for x in IT if C..]``.

    The two spellings build the same list (same order, same evaluations); rules then meet ONE form, the comprehension.
    Not rewritten when the loop variables are read outside the loop (a comprehension does not leak them), when the body
    holds anything else (temporaries, other effects, break / return / yield), or when ``acc`` occurs inside the loop
    other than as the receiver of the one ``append``."""
    total = 0
    for _round in range(3):  # an inner loop first, then the loop around it
        n_ = _canon_acc_loops_once(fn)
        total += n_
        if not n_:
            break
    return total


def _canon_acc_loops_once(fn: ast.AST) -> int:
    loads: dict[str, int] = {}
    for n in ast.walk(fn):
        if isinstance(n, ast.Name) and isinstance(n.ctx, ast.Load):
            loads[n.id] = loads.get(n.id, 0) + 1
    # reads of a name inside the body of a `for` that binds that very name: they see the loop's binding, whatever the name held before
    rebound: dict[str, int] = {}
    for lp in ast.walk(fn):
        if isinstance(lp, (ast.For, ast.AsyncFor)):
            names = {t.id for t in ast.walk(lp.target) if isinstance(t, ast.Name)}
            for st in lp.body:
                for n in ast.walk(st):
                    if isinstance(n, ast.Name) and isinstance(n.ctx, ast.Load) and n.id in names:
                        rebound[n.id] = rebound.get(n.id, 0) + 1
    done = 0
    for holder in list(ast.walk(fn)):
        for field in ("body", "orelse", "finalbody"):
            b = getattr(holder, field, None)
            if not (isinstance(b, list) and b and isinstance(b[0], ast.stmt)):
                continue
            i = 0
            while i + 1 < len(b):
                a, loop = b[i], b[i + 1]
                i += 1
                if isinstance(a, ast.AnnAssign) and a.simple:
                    tgt, val = a.target, a.value
                elif isinstance(a, ast.Assign) and len(a.targets) == 1:
                    tgt, val = a.targets[0], a.value
                else:
                    continue
                if not (isinstance(tgt, ast.Name) and isinstance(val, ast.List) and not val.elts):
                    continue
                if not (type(loop) is ast.For and not loop.orelse):
                    continue
                shape = _acc_shape(loop.body, tgt.id)
                if shape is None:
                    continue
                conds, elt, tmp = shape
                inner = [loop.iter, elt] + conds
                bad = False
                if tmp is not None and (loads.get(tmp, 0) - rebound.get(tmp, 0) != 1 or any(isinstance(n, ast.Name) and n.id == tmp for e in inner for n in ast.walk(e))):
                    continue  # the temporary is read somewhere else: it has to stay
                inside: dict[str, int] = {}
                for e in inner:
                    for n in ast.walk(e):
                        if isinstance(n, (ast.Yield, ast.YieldFrom, ast.NamedExpr, ast.Lambda)):
                            bad = True
                        if isinstance(n, ast.Name):
                            if n.id == tgt.id:
                                bad = True
                            if isinstance(n.ctx, ast.Load):
                                inside[n.id] = inside.get(n.id, 0) + 1
                tvars = {n.id for n in ast.walk(loop.target) if isinstance(n, ast.Name)}
                if len(tvars) != sum(1 for n in ast.walk(loop.target) if isinstance(n, (ast.Name, ast.Attribute, ast.Subscript))):
                    bad = True  # the loop stores into something that is not a plain local
                if any(loads.get(v, 0) != inside.get(v, 0) for v in tvars):
                    bad = True  # loop variable read outside the loop
                if bad:
                    continue
                comp = ast.ListComp(elt=elt, generators=[ast.comprehension(target=loop.target, iter=loop.iter, ifs=conds, is_async=0)])
                ast.copy_location(comp, loop)
                a.value = comp
                del b[i]
                ast.fix_missing_locations(a)
                done += 1
    return done


class Program:
    def __init__(self, root: str):
        self.root = os.path.abspath(root)
        self.modules: dict[str, Module] = {}
        self.functions: dict[str, Func] = {}
        self.classes: dict[str, Cls] = {}
        self.func_of_node: dict[int, Func] = {}
        self._const_cache: dict[tuple, Any] = {}
        self._mro_cache: dict[str, list[str]] = {}
        self._subclasses: dict[str, set[str]] | None = None
        self.digest = ""
        self._load()

    # ------------------------------------------------------------------ loading
    def _load(self) -> None:
        pkgdir = os.path.join(self.root, PKG)
        if not os.path.isdir(pkgdir):
            raise AnalysisError(f"package directory not found: {pkgdir}")
        h = hashlib.sha256()
        paths = []
        for dp, dn, fn in os.walk(pkgdir):
            dn[:] = sorted(d for d in dn if d != "__pycache__")
            for f in sorted(fn):
                if f.endswith(".py"):
                    paths.append(os.path.join(dp, f))
        for p in paths:
            rel = os.path.relpath(p, self.root)
            modname = rel[:-3].replace(os.sep, ".")
            is_pkg = False
            if modname.endswith(".__init__"):
                modname = modname[: -len(".__init__")]
                is_pkg = True
            with open(p, encoding="utf-8") as fh:
                src = fh.read()
            h.update(rel.encode() + b"\0" + src.encode() + b"\0")
            try:
                tree = ast.parse(src, filename=p)
            except SyntaxError as e:  # pragma: no cover
                raise AnalysisError(f"cannot parse {rel}: {e}")
            m = Module(modname, p, rel, tree, src, is_pkg)
            self.modules[modname] = m
        self.digest = h.hexdigest()
        # normalisation of the parsed package, before anything is indexed: private helpers the rules do not name are
        # inlined into their callers (engine/inline.py), then canonical statement forms (_Canon)
        from .inline import inline_package, known_names

        rules_dir = os.path.join(os.path.dirname(os.path.dirname(os.path.abspath(__file__))), "rules")
        spec_dir = os.path.join(os.path.dirname(rules_dir), "spec")
        keep = known_names([os.path.join(d, f) for d in (rules_dir, spec_dir) if os.path.isdir(d) for f in sorted(os.listdir(d)) if f.endswith(".py")])
        self.inline_stats = {"inlined_calls": 0, "helpers_removed": [], "helpers_inlined": []}
        cm_stats = {}
        if os.environ.get("VERIF_SA_NO_FLAGLOOP") != "1":
            cm_stats["flag_loops"] = sum(_canon_flag_loops(m.tree) for mn, m in self.modules.items() if not mn.startswith(PKG + ".testing") and mn != PKG + ".testing")
        if os.environ.get("VERIF_SA_NO_DISPATCH") != "1":
            from .dispatch import spell_out_dispatch

            cm_stats.update(spell_out_dispatch({mn: m.tree for mn, m in self.modules.items() if not mn.startswith(PKG + ".testing") and mn != PKG + ".testing"}))
        if os.environ.get("VERIF_SA_NO_PARTIAL") != "1":
            from .partials import partials_as_closures

            cm_stats.update(partials_as_closures({mn: (m.tree, m.is_pkg) for mn, m in self.modules.items() if not mn.startswith(PKG + ".testing") and mn != PKG + ".testing"}))
        if os.environ.get("VERIF_SA_NO_CTXMGR") != "1":
            from .ctxmgr import inline_context_managers

            cm_stats.update(inline_context_managers({mn: m.tree for mn, m in self.modules.items() if not mn.startswith(PKG + ".testing") and mn != PKG + ".testing"}))
        if os.environ.get("VERIF_SA_NO_GENLOOP") != "1":
            from .genloop import inline_generator_loops

            cm_stats.update(inline_generator_loops({mn: m.tree for mn, m in self.modules.items() if not mn.startswith(PKG + ".testing") and mn != PKG + ".testing"}))
        if os.environ.get("VERIF_SA_NO_INLINE") != "1":
            self.inline_stats = inline_package({mn: m.tree for mn, m in self.modules.items() if not mn.startswith(PKG + ".testing") and mn != PKG + ".testing"}, keep)
        self.inline_stats.update(cm_stats)
        if os.environ.get("VERIF_SA_NO_UNROLL") != "1":
            from .unroll import unroll_package

            self.inline_stats.update(unroll_package({mn: (m.tree, m.is_pkg) for mn, m in self.modules.items() if not mn.startswith(PKG + ".testing") and mn != PKG + ".testing"}))
        if os.environ.get("VERIF_SA_NO_ALIAS") != "1":
            from .aliases import inline_stable_aliases

            self.inline_stats.update(inline_stable_aliases({mn: m.tree for mn, m in self.modules.items() if not mn.startswith(PKG + ".testing") and mn != PKG + ".testing"}))
        for m in self.modules.values():
            m.tree = _Canon().visit(m.tree)
            if os.environ.get("VERIF_SA_NO_CLAMP") != "1" and not (m.name == PKG + ".testing" or m.name.startswith(PKG + ".testing.")):
                self.inline_stats["clamps"] = self.inline_stats.get("clamps", 0) + _canon_clamps(m.tree)
                self.inline_stats["bool_temps"] = self.inline_stats.get("bool_temps", 0) + _canon_bool_temps(m.tree)
            if os.environ.get("VERIF_SA_NO_IFEXP") != "1" and not (m.name == PKG + ".testing" or m.name.startswith(PKG + ".testing.")):
                self.inline_stats["ifexp_assigns"] = self.inline_stats.get("ifexp_assigns", 0) + _canon_ifexp_assign(m.tree)
            if os.environ.get("VERIF_SA_NO_ACCLOOP") != "1" and not (m.name == PKG + ".testing" or m.name.startswith(PKG + ".testing.")):
                for fn in [n for n in ast.walk(m.tree) if isinstance(n, (ast.FunctionDef, ast.AsyncFunctionDef))]:
                    self.inline_stats["acc_loops"] = self.inline_stats.get("acc_loops", 0) + _canon_acc_loops(fn)
        for m in self.modules.values():
            self._index_module(m)
        for c in self.classes.values():
            c.bases = [self._resolve_base(c, b) for b in c.node.bases]

    def _abs_import(self, m: Module, node: ast.ImportFrom) -> str:
        if node.level == 0:
            return node.module or ""
        base = m.name.split(".")
        if not m.is_pkg:
            base = base[:-1]
        if node.level > 1:
            base = base[: -(node.level - 1)]
        if node.module:
            base = base + node.module.split(".")
        return ".".join(base)

    def _index_module(self, m: Module) -> None:
        def visit_body(body, cls: Cls | None, parent: Func | None, prefix: str):
            for st in body:
                if isinstance(st, ast.Import):
                    if cls is None and parent is None:
                        for a in st.names:
                            if a.asname:
                                m.imports[a.asname] = a.name
                            else:
                                m.imports[a.name.split(".")[0]] = a.name.split(".")[0]
                elif isinstance(st, ast.ImportFrom):
                    if cls is None and parent is None:
                        base = self._abs_import(m, st)
                        for a in st.names:
                            m.imports[a.asname or a.name] = f"{base}.{a.name}" if base else a.name
                elif isinstance(st, (ast.FunctionDef, ast.AsyncFunctionDef)):
                    self._index_func(m, st, cls, parent, prefix)
                elif isinstance(st, ast.ClassDef):
                    qn = f"{prefix}.{st.name}"
                    c = Cls(qn, st.name, m, st)
                    self.classes[qn] = c
                    if cls is None and parent is None:
                        m.classes[st.name] = c
                    visit_body(st.body, c, None, qn)
                elif isinstance(st, ast.Assign):
                    tgt = cls.assigns if cls is not None else m.assigns
                    if parent is None:
                        for t in st.targets:
                            if isinstance(t, ast.Name):
                                tgt.setdefault(t.id, []).append(st.value)
                            elif isinstance(t, ast.Tuple) and isinstance(st.value, ast.Tuple) and len(t.elts) == len(
                                st.value.elts
                            ):
                                for te, ve in zip(t.elts, st.value.elts):
                                    if isinstance(te, ast.Name):
                                        tgt.setdefault(te.id, []).append(ve)
                elif isinstance(st, ast.AnnAssign):
                    if parent is None and isinstance(st.target, ast.Name):
                        if cls is not None:
                            cls.annotations[st.target.id] = st.annotation
                        if st.value is not None:
                            tgt = cls.assigns if cls is not None else m.assigns
                            tgt.setdefault(st.target.id, []).append(st.value)
                elif isinstance(st, (ast.If, ast.Try)) and parent is None:
                    # module/class level conditionals (TYPE_CHECKING, version checks, optional imports)
                    for sub in _sub_bodies(st):
                        visit_body(sub, cls, parent, prefix)

        visit_body(m.tree.body, None, None, m.name)

    def _index_func(self, m: Module, node, cls: Cls | None, parent: Func | None, prefix: str) -> Func:
        if parent is not None:
            qn = f"{parent.qualname}.<locals>.{node.name}"
        else:
            qn = f"{prefix}.{node.name}"
        decs = []
        for d in node.decorator_list:
            decs.append(ast.unparse(d))
        # property setters share a name with the getter: keep the getter under the plain name
        if qn in self.functions and any(d.endswith(".setter") for d in decs):
            qn = qn + ".<setter>"
        f = Func(qn, node.name, m, node, cls if parent is None else parent.cls, parent, {}, decs)
        self.functions[qn] = f
        self.func_of_node[id(node)] = f
        if parent is not None:
            parent.nested[node.name] = f
        elif cls is not None:
            if not qn.endswith(".<setter>"):
                cls.methods[node.name] = f
        else:
            m.functions[node.name] = f
        # nested defs (any depth inside statements of this function)
        for n in walk_own(node):
            if isinstance(n, (ast.FunctionDef, ast.AsyncFunctionDef)):
                self._index_func(m, n, cls, f, prefix)
        return f

    def _resolve_base(self, c: Cls, b: ast.expr) -> str:
        if isinstance(b, ast.Subscript):
            b = b.value
        d = dotted(b)
        if d is None:
            return ast.unparse(b)
        return self.resolve_dotted(c.module, d)

    # ------------------------------------------------------------- name resolution
    def resolve_dotted(self, m: Module, name: str, _depth: int = 0) -> str:
        """Resolve a dotted name used in module ``m`` to a canonical dotted name.

        Package-internal names are followed through re-exports to their definition.
        """
        if _depth > 12:
            return name
        parts = name.split(".")
        head = parts[0]
        if head in m.classes:
            return ".".join([m.classes[head].qualname] + parts[1:])
        if head in m.functions:
            return ".".join([m.functions[head].qualname] + parts[1:])
        if head in m.assigns and head not in m.imports:
            # alias like  DecryptionError = InvalidTag
            vals = m.assigns[head]
            if len(vals) == 1:
                d = dotted(vals[0])
                if d and d.split(".")[0] != head:
                    r = self.resolve_dotted(m, d, _depth + 1)
                    if r in self.classes or r in self.functions or (
                        not r.startswith(PKG + ".") and d.split(".")[0] in m.imports
                    ):
                        return ".".join([r] + parts[1:])
            return ".".join([m.name + "." + head] + parts[1:])
        if head in m.imports:
            target = m.imports[head]
            full = ".".join([target] + parts[1:])
            return self.canonical(full, _depth + 1)
        return name

    def canonical(self, full: str, _depth: int = 0) -> str:
        """Follow re-exports inside the package: a.b.Name -> defining module's qualname."""
        if _depth > 12:
            return full
        if not full.startswith(PKG):
            return EXC_ALIASES.get(full, full)
        if full in self.classes or full in self.functions or full in self.modules:
            return full
        parts = full.split(".")
        # longest module prefix
        for i in range(len(parts), 0, -1):
            mn = ".".join(parts[:i])
            if mn in self.modules:
                rest = parts[i:]
                if not rest:
                    return mn
                mod = self.modules[mn]
                r = self.resolve_dotted(mod, ".".join(rest), _depth + 1)
                if r == ".".join(rest):
                    return full
                return r
        return full

    def resolve_in_func(self, f: Func, name: str) -> str:
        return self.resolve_dotted(f.module, name)

    # ------------------------------------------------------------- classes / MRO
    def mro(self, clsname: str) -> list[str]:
        if clsname in self._mro_cache:
            return self._mro_cache[clsname]
        out = [clsname]
        c = self.classes.get(clsname)
        if c is not None:
            for b in c.bases:
                for x in self.mro(b):
                    if x not in out:
                        out.append(x)
        self._mro_cache[clsname] = out
        return out

    def subclasses(self, clsname: str) -> set[str]:
        if self._subclasses is None:
            sub: dict[str, set[str]] = {}
            for c in self.classes.values():
                for b in self.mro(c.qualname)[1:]:
                    sub.setdefault(b, set()).add(c.qualname)
            self._subclasses = sub
        return self._subclasses.get(clsname, set())

    def lookup_method(self, clsname: str, meth: str, after: str | None = None) -> Func | None:
        mro = self.mro(clsname)
        if after is not None and after in mro:
            mro = mro[mro.index(after) + 1 :]
        for cn in mro:
            c = self.classes.get(cn)
            if c is not None and meth in c.methods:
                return c.methods[meth]
        return None

    def is_subclass(self, a: str, b: str) -> bool:
        """Exception/class hierarchy test with the frozen table of external classes."""
        a = EXC_ALIASES.get(a, a)
        b = EXC_ALIASES.get(b, b)
        if a == b:
            return True
        seen = set()
        work = [a]
        while work:
            x = work.pop()
            if x in seen:
                continue
            seen.add(x)
            if x == b:
                return True
            c = self.classes.get(x)
            if c is not None:
                work.extend(EXC_ALIASES.get(p, p) for p in c.bases)
            elif x in BUILTIN_EXC_PARENTS:
                p = BUILTIN_EXC_PARENTS[x]
                if p:
                    work.append(p)
        return False

    def known_class(self, a: str) -> bool:
        a = EXC_ALIASES.get(a, a)
        return a in self.classes or a in BUILTIN_EXC_PARENTS

    # ------------------------------------------------------------- accessors
    def func(self, qualname: str) -> Func:
        f = self.functions.get(qualname)
        if f is None:
            raise AnalysisError(f"anchor function vanished: {qualname}")
        return f

    def cls(self, qualname: str) -> Cls:
        c = self.classes.get(qualname)
        if c is None:
            raise AnalysisError(f"anchor class vanished: {qualname}")
        return c

    def module(self, name: str) -> Module:
        m = self.modules.get(name)
        if m is None:
            raise AnalysisError(f"anchor module vanished: {name}")
        return m

    def package_functions(self) -> list[Func]:
        return [f for f in self.functions.values() if f.module.name not in EXCLUDED_MODULES]

    # ------------------------------------------------------------- constants
    def const_of(self, qualified: str) -> Any:
        """Value of a module- or class-level constant given its canonical dotted name."""
        key = ("q", qualified)
        if key in self._const_cache:
            v = self._const_cache[key]
            if v is _IN_PROGRESS:
                raise NotConst(qualified)
            if isinstance(v, NotConst):
                raise v
            return v
        self._const_cache[key] = _IN_PROGRESS
        try:
            v = self._const_of(qualified)
        except NotConst as e:
            self._const_cache[key] = e
            raise
        self._const_cache[key] = v
        return v

    def _const_of(self, qualified: str) -> Any:
        parts = qualified.split(".")
        # class attribute?
        for i in range(len(parts) - 1, 0, -1):
            owner = ".".join(parts[:i])
            if owner in self.classes and i == len(parts) - 1:
                attr = parts[-1]
                for cn in self.mro(owner):
                    c = self.classes.get(cn)
                    if c is not None and attr in c.assigns:
                        vals = c.assigns[attr]
                        if len(vals) != 1:
                            raise NotConst(qualified)
                        return self.eval_const(vals[0], c.module, c)
                raise NotConst(qualified)
            if owner in self.modules and i == len(parts) - 1:
                mod = self.modules[owner]
                attr = parts[-1]
                if attr in mod.assigns:
                    vals = mod.assigns[attr]
                    if len(vals) != 1:
                        raise NotConst(qualified)
                    return self.eval_const(vals[0], mod, None)
                raise NotConst(qualified)
        raise NotConst(qualified)

    def eval_const(self, e: ast.expr, m: Module, cls: Cls | None = None) -> Any:
        """Safe folding of literal-ish expressions.  Raises NotConst otherwise."""
        ev = lambda x: self.eval_const(x, m, cls)  # noqa: E731
        if isinstance(e, ast.Constant):
            return e.value
        if isinstance(e, (ast.Tuple, ast.List)):
            vals = [ev(x) for x in e.elts]
            return tuple(vals) if isinstance(e, ast.Tuple) else vals
        if isinstance(e, ast.Set):
            return frozenset(ev(x) for x in e.elts)
        if isinstance(e, ast.Dict):
            if any(k is None for k in e.keys):
                raise NotConst("dict unpack")
            return {_hashable(ev(k)): ev(v) for k, v in zip(e.keys, e.values)}
        if isinstance(e, ast.UnaryOp):
            v = ev(e.operand)
            if isinstance(e.op, ast.USub):
                return -v
            if isinstance(e.op, ast.UAdd):
                return +v
            if isinstance(e.op, ast.Not):
                return not v
            if isinstance(e.op, ast.Invert):
                return ~v
        if isinstance(e, ast.BinOp):
            l, r = ev(e.left), ev(e.right)
            try:
                if isinstance(e.op, ast.Add):
                    return l + r
                if isinstance(e.op, ast.Sub):
                    return l - r
                if isinstance(e.op, ast.Mult):
                    if isinstance(l, int) and isinstance(r, int) or (
                        isinstance(l, (bytes, str, list, tuple)) and isinstance(r, int) and r < 4096
                    ):
                        return l * r
                    if isinstance(l, (int, float)) and isinstance(r, (int, float)):
                        return l * r
                if isinstance(e.op, ast.BitOr):
                    return l | r
                if isinstance(e.op, ast.BitAnd):
                    return l & r
                if isinstance(e.op, ast.LShift) and isinstance(r, int) and r < 8192:
                    return l << r
                if isinstance(e.op, ast.RShift):
                    return l >> r
                if isinstance(e.op, ast.Pow) and isinstance(l, int) and isinstance(r, int) and 0 <= r < 8192:
                    return l**r
                if isinstance(e.op, ast.FloorDiv):
                    return l // r
                if isinstance(e.op, ast.Div):
                    return l / r
                if isinstance(e.op, ast.Mod) and isinstance(l, int):
                    return l % r
            except NotConst:
                raise
            except Exception as ex:
                raise NotConst(str(ex))
            raise NotConst("binop")
        if isinstance(e, ast.Name):
            if cls is not None:
                for cn in self.mro(cls.qualname):
                    c = self.classes.get(cn)
                    if c is not None and e.id in c.assigns:
                        return self.const_of(f"{cn}.{e.id}")
            if e.id in m.assigns and e.id not in m.imports:
                return self.const_of(f"{m.name}.{e.id}")
            if e.id in m.imports:
                return self.const_of(self.resolve_dotted(m, e.id))
            if e.id in ("True", "False", "None"):
                return {"True": True, "False": False, "None": None}[e.id]
            raise NotConst(e.id)
        if isinstance(e, ast.Attribute):
            d = dotted(e)
            if d is not None:
                r = self.resolve_dotted(m, d)
                if r.startswith(PKG + "."):
                    try:
                        return self.const_of(r)
                    except NotConst:
                        pass
                # Struct(...).size / .pack
                if isinstance(e.value, ast.Name) or isinstance(e.value, ast.Attribute):
                    try:
                        base = ev(e.value)
                    except NotConst:
                        base = None
                    if isinstance(base, StructConst):
                        if e.attr == "size":
                            return base.size
                        if e.attr in ("pack", "unpack", "unpack_from", "pack_into"):
                            return StructMethod(base, e.attr)
                    if isinstance(base, EnumMember) and e.attr == "value":
                        return base.value
                # enum member access Cls.MEMBER handled through const_of above
            elif isinstance(e.value, ast.Call):
                base = ev(e.value)
                if isinstance(base, StructConst):
                    if e.attr == "size":
                        return base.size
                    if e.attr in ("pack", "unpack", "unpack_from", "pack_into"):
                        return StructMethod(base, e.attr)
            raise NotConst(ast.unparse(e))
        if isinstance(e, ast.Call):
            fn = dotted(e.func)
            rfn = self.resolve_dotted(m, fn) if fn else None
            if rfn in ("struct.Struct",) and len(e.args) == 1 and not e.keywords:
                fmt = ev(e.args[0])
                if isinstance(fmt, str):
                    return StructConst(fmt)
            if rfn == "functools.partial" and e.args and not e.keywords:
                f0 = ev(e.args[0])
                rest = tuple(ev(a) for a in e.args[1:])
                return PartialConst(f0, rest)
            if rfn == "bytes" and len(e.args) == 1 and not e.keywords:
                v = ev(e.args[0])
                if isinstance(v, (list, tuple)) and all(isinstance(x, int) and 0 <= x < 256 for x in v):
                    return bytes(v)
                if isinstance(v, (bytes, bytearray)):
                    return bytes(v)
                if isinstance(v, int) and 0 <= v < 65536:
                    return bytes(v)
            if rfn == "bytearray" and len(e.args) == 1 and not e.keywords:
                v = ev(e.args[0])
                if isinstance(v, (bytes, bytearray)):
                    return bytes(v)
            if rfn == "int" and 1 <= len(e.args) <= 2 and not e.keywords:
                v = ev(e.args[0])
                base = ev(e.args[1]) if len(e.args) == 2 else 10
                try:
                    if isinstance(v, (bytes, str)):
                        return int(v, base)
                    if isinstance(v, (int, float)) and len(e.args) == 1:
                        return int(v)
                except Exception as ex:
                    raise NotConst(str(ex))
            if rfn in ("len",) and len(e.args) == 1:
                v = ev(e.args[0])
                try:
                    return len(v)
                except Exception as ex:
                    raise NotConst(str(ex))
            if rfn in ("frozenset", "set", "tuple", "list") and len(e.args) <= 1:
                v = ev(e.args[0]) if e.args else ()
                try:
                    return {"frozenset": frozenset, "set": frozenset, "tuple": tuple, "list": list}[rfn](v)
                except Exception as ex:
                    raise NotConst(str(ex))
            if isinstance(e.func, ast.Attribute):
                # b"..".fromhex / bytes.fromhex / "..".encode() / x.to_bytes(...)
                if e.func.attr == "fromhex" and dotted(e.func.value) == "bytes" and len(e.args) == 1:
                    v = ev(e.args[0])
                    try:
                        return bytes.fromhex(v)
                    except Exception as ex:
                        raise NotConst(str(ex))
                if e.func.attr == "encode" and len(e.args) <= 1:
                    v = ev(e.func.value)
                    if isinstance(v, str):
                        return v.encode(*[ev(a) for a in e.args])
                if e.func.attr == "to_bytes":
                    v = ev(e.func.value)
                    args = [ev(a) for a in e.args]
                    kw = {k.arg: ev(k.value) for k in e.keywords if k.arg}
                    try:
                        return int(v).to_bytes(*args, **kw)
                    except Exception as ex:
                        raise NotConst(str(ex))
                if e.func.attr == "join" and len(e.args) == 1:
                    v = ev(e.func.value)
                    a = ev(e.args[0])
                    try:
                        return v.join(a)
                    except Exception as ex:
                        raise NotConst(str(ex))
            # enum member constructor / class-level call: not constant
            raise NotConst(ast.unparse(e)[:40])
        if isinstance(e, ast.JoinedStr):
            out = []
            for v in e.values:
                if isinstance(v, ast.Constant):
                    out.append(str(v.value))
                else:
                    raise NotConst("fstring")
            return "".join(out)
        if isinstance(e, ast.Subscript):
            base = ev(e.value)
            if isinstance(e.slice, ast.Slice):
                lo = ev(e.slice.lower) if e.slice.lower else None
                hi = ev(e.slice.upper) if e.slice.upper else None
                st = ev(e.slice.step) if e.slice.step else None
                try:
                    return base[lo:hi:st]
                except Exception as ex:
                    raise NotConst(str(ex))
            idx = ev(e.slice)
            try:
                return base[idx]
            except Exception as ex:
                raise NotConst(str(ex))
        if isinstance(e, ast.IfExp):
            raise NotConst("ifexp")
        raise NotConst(type(e).__name__)

    def try_const(self, e: ast.expr, m: Module, cls: Cls | None = None, default: Any = None) -> Any:
        try:
            return self.eval_const(e, m, cls)
        except NotConst:
            return default


class _InProgress:
    pass


_IN_PROGRESS = _InProgress()


def _hashable(v):
    if isinstance(v, list):
        return tuple(_hashable(x) for x in v)
    if isinstance(v, bytearray):
        return bytes(v)
    return v


@dataclass(frozen=True)
class StructConst:
    fmt: str

    @property
    def size(self) -> int:
        return _struct.calcsize(self.fmt)


@dataclass(frozen=True)
class StructMethod:
    struct: StructConst
    method: str


@dataclass(frozen=True)
class PartialConst:
    func: Any
    args: tuple


@dataclass(frozen=True)
class EnumMember:
    cls: str
    name: str
    value: Any


def _sub_bodies(st: ast.stmt) -> list[list[ast.stmt]]:
    out = []
    for fld in ("body", "orelse", "finalbody"):
        b = getattr(st, fld, None)
        if b:
            out.append(b)
    if isinstance(st, ast.Try):
        for h in st.handlers:
            out.append(h.body)
    return out


# ---------------------------------------------------------------------- temporaries
def single_defs(fnode) -> dict[str, ast.expr]:
    """Locals of a function that are bound exactly once, by a plain ``name = <expr>`` statement (not a parameter, not
    global/nonlocal, not a loop / with / except / walrus target, not augmented).  Such a name is a *temporary*: every
    use of it denotes the assigned expression, so shape rules look through it (`expand`)."""
    if isinstance(fnode, ast.Lambda):
        return {}
    params = {a.arg for a in fnode.args.posonlyargs + fnode.args.args + fnode.args.kwonlyargs}
    if fnode.args.vararg:
        params.add(fnode.args.vararg.arg)
    if fnode.args.kwarg:
        params.add(fnode.args.kwarg.arg)
    stores: dict[str, int] = {}
    plain: dict[str, ast.expr] = {}
    banned = set(params)
    for n in walk_own(fnode):
        if isinstance(n, (ast.Global, ast.Nonlocal)):
            banned.update(n.names)
        elif isinstance(n, ast.Name) and isinstance(n.ctx, (ast.Store, ast.Del)):
            stores[n.id] = stores.get(n.id, 0) + 1
        elif isinstance(n, ast.ExceptHandler) and n.name:
            banned.add(n.name)
        elif isinstance(n, (ast.FunctionDef, ast.AsyncFunctionDef, ast.ClassDef)) and n is not fnode:
            banned.add(n.name)
        if isinstance(n, ast.Assign) and len(n.targets) == 1 and isinstance(n.targets[0], ast.Name):
            plain[n.targets[0].id] = n.value
        elif isinstance(n, ast.AugAssign) and isinstance(n.target, ast.Name):
            banned.add(n.target.id)
    return {k: v for k, v in plain.items() if stores.get(k) == 1 and k not in banned}


def expand(fnode, e: ast.AST, depth: int = 12, only=None):
    """Copy of expression ``e`` with every temporary of the enclosing function (see `single_defs`) replaced by the
    expression it was assigned, recursively.  ``only``: optional predicate on the name."""
    import copy

    defs = single_defs(fnode)

    class _Sub(ast.NodeTransformer):
        def __init__(self, d):
            self.d = d

        def visit_Name(self, n):
            if isinstance(n.ctx, ast.Load) and n.id in defs and self.d > 0 and (only is None or only(n.id)):
                return _Sub(self.d - 1).visit(copy.deepcopy(defs[n.id]))
            return n

        def visit_Lambda(self, n):
            return n

    return _Sub(depth).visit(copy.deepcopy(e))
