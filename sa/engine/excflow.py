"""Exception flow: which nodes are raise sites, with which classes; escape sets as a least fix-point.

A node gets exception edges only if it is a *raise site*: an explicit ``raise``, an ``await``
(CancelledError, plus what the awaited package coroutine lets escape), a call to a package function
whose escape set is non-empty, a generator ``send``/``next``, an entry of the frozen external table,
or - only under a rule-supplied *profile* - a listed partial operation.
"""

from __future__ import annotations

import ast
from typing import Callable

from .cfg import CFG, Node, resolve_exc_classes
from .loader import EXC_ALIASES, PKG, Func, Program, dotted, walk_expr
from .resolve import Resolver

CANCELLED = "asyncio.CancelledError"

# external callables that raise on peer-controlled data (frozen, printed as trusted base)
EXTERNAL_RAISES: dict[str, tuple[str, ...]] = {
    "cryptography.hazmat.primitives.asymmetric.ed25519.Ed25519PublicKey.verify": (
        "cryptography.exceptions.InvalidSignature",
    ),
    "chacha20poly1305_reuseable.ChaCha20Poly1305Reusable.decrypt": ("cryptography.exceptions.InvalidTag",),
    "orjson.loads": ("orjson.JSONDecodeError",),
    "commentjson.loads": ("lark.exceptions.LarkError",),
    "json.loads": ("json.JSONDecodeError",),
}
# method names that raise when called on values of (unknown) external type, by attribute name
EXTERNAL_METHOD_RAISES: dict[str, tuple[str, ...]] = {
    "verify": ("cryptography.exceptions.InvalidSignature",),
}

AWAIT_WRAPPERS = {"asyncio.shield", "asyncio.wait_for", "asyncio.tasks.shield"}
TIMEOUT_CMS = {"asyncio.timeout", "async_timeout.timeout", "asyncio.timeouts.timeout"}
INTERRUPT_CMS = {"async_interrupt.interrupt"}


class Profile:
    """Rule-supplied extension of the raise-site definition (partial operations)."""

    name = "default"

    def extra(self, flow: "ExcFlow", cfg: CFG, node: Node) -> set[str]:
        return set()

    def suppress_raise(self, flow: "ExcFlow", cfg: CFG, node: Node) -> bool:
        """An explicit raise proven unreachable by a rule-checked fact (never assumed)."""
        return False


class ExcFlow:
    def __init__(self, prog: Program, resolver: Resolver | None = None, profile: Profile | None = None):
        self.prog = prog
        self.res = resolver or Resolver(prog)
        self.profile = profile or Profile()
        self.escapes: dict[str, frozenset[str]] = {}
        self.cfgs: dict[str, CFG] = {}
        self.iterations = 0
        self._computed = False
        self.noreturn: set[str] = set()

    # ------------------------------------------------------------------ fix-point
    def compute(self, roots: list[str] | None = None) -> None:
        if self._computed:
            return
        funcs = [f for f in self.prog.functions.values()]
        for f in funcs:
            self.escapes.setdefault(f.qualname, frozenset())
        changed = True
        it = 0
        dirty = {f.qualname for f in funcs}
        callers: dict[str, set[str]] = {}
        while dirty:
            it += 1
            if it > 40:
                break
            nxt: set[str] = set()
            for f in funcs:
                if f.qualname not in dirty:
                    continue
                self._cur_callees: set[str] = set()
                cfg = CFG(self.prog, f, self._raises, self._noreturn)
                self.cfgs[f.qualname] = cfg
                for c in self._cur_callees:
                    callers.setdefault(c, set()).add(f.qualname)
                esc = frozenset(cfg.escapes())
                nr = cfg.exit.id not in cfg.reachable_from(cfg.entry.id)
                if esc != self.escapes[f.qualname] or nr != (f.qualname in self.noreturn):
                    self.escapes[f.qualname] = esc
                    if nr:
                        self.noreturn.add(f.qualname)
                    else:
                        self.noreturn.discard(f.qualname)
                    nxt |= callers.get(f.qualname, set())
                    nxt.add(f.qualname)
            dirty = nxt
        self.iterations = it
        self._computed = True

    def cfg(self, qualname: str) -> CFG:
        self.compute()
        if qualname not in self.cfgs:
            f = self.prog.func(qualname)
            self.cfgs[qualname] = CFG(self.prog, f, self._raises, self._noreturn)
        return self.cfgs[qualname]

    def esc(self, qualname: str) -> frozenset[str]:
        self.compute()
        return self.escapes.get(qualname, frozenset())

    def _package_generators(self) -> list[str]:
        gens = getattr(self, "_gens", None)
        if gens is None:
            gens = [
                f.qualname
                for f in self.prog.package_functions()
                if not isinstance(f.node, ast.Lambda) and not f.is_async and f.is_generator and f.module.name == "aiohomekit.protocol"
            ]
            self._gens = gens
        return gens

    def _noreturn(self, cfg: CFG, node: Node) -> bool:
        """A simple statement whose top-level call can only reach functions without a normal exit."""
        st = node.ast
        call = None
        if isinstance(st, ast.Expr) and isinstance(st.value, ast.Call):
            call = st.value
        elif isinstance(st, ast.Expr) and isinstance(st.value, ast.Await) and isinstance(st.value.value, ast.Call):
            call = st.value.value
        if call is None:
            return False
        callees = self.res.resolve_call(cfg.func, call, record=False)
        if hasattr(self, "_cur_callees"):
            self._cur_callees.update(c for c in callees if c in self.prog.functions)
        return bool(callees) and all(c in self.noreturn for c in callees)

    # ------------------------------------------------------------------ raise sites
    def _callee_escapes(self, name: str) -> set[str]:
        if hasattr(self, "_cur_callees"):
            self._cur_callees.add(name)
        return set(self.escapes.get(name, ()))

    def _with_additions(self, cfg: CFG, node: Node) -> set[str]:
        """Classes that an await inside certain context managers may additionally raise."""
        out: set[str] = set()
        for kind, st, part in node.frames:
            if kind != "with" or part != "body":
                continue
            for item in st.items:
                ce = item.context_expr
                if isinstance(ce, ast.Call):
                    d = dotted(ce.func)
                    if not d:
                        continue
                    r = self.prog.resolve_dotted(cfg.func.module, d)
                    if r in TIMEOUT_CMS or r.endswith("asyncio_timeout"):
                        out.add("TimeoutError")
                    elif r in INTERRUPT_CMS and len(ce.args) >= 2:
                        out |= set(resolve_exc_classes(self.prog, cfg.func, ce.args[1]))
        return out

    def _awaited_classes(self, cfg: CFG, node: Node, aw: ast.Await) -> set[str]:
        f = cfg.func
        out = {CANCELLED} | self._with_additions(cfg, node)
        v = aw.value
        out |= self._awaitable_classes(cfg, v)
        return out

    def _awaitable_classes(self, cfg: CFG, v: ast.expr) -> set[str]:
        f = cfg.func
        p = self.prog
        out: set[str] = set()
        if isinstance(v, ast.Call):
            d = dotted(v.func)
            r = p.resolve_dotted(f.module, d) if d else None
            if r in AWAIT_WRAPPERS and v.args:
                return self._awaitable_classes(cfg, v.args[0])
            if r in ("asyncio.gather", "asyncio.wait"):
                for a in v.args:
                    if isinstance(a, ast.Starred):
                        continue
                    out |= self._awaitable_classes(cfg, a)
                return out
            for cal in self.res.resolve_call(f, v, record=False):
                if cal in p.functions:
                    out |= self._callee_escapes(cal)
                elif cal in EXTERNAL_RAISES:
                    out |= set(EXTERNAL_RAISES[cal])
            return out
        # awaiting a task stored on self
        owner = f
        while owner.parent is not None:
            owner = owner.parent
        if isinstance(v, ast.Attribute) and isinstance(v.value, ast.Name) and owner.cls is not None:
            t = self.res.task_attr(owner.cls.qualname, v.attr)
            if t:
                return self._callee_escapes(t)
        # awaiting a plain future: what the owning class may set on its futures
        if owner.cls is not None:
            out |= {EXC_ALIASES.get(x, x) for x in self.res.class_future_excs(owner.cls.qualname)}
        return out

    def _explicit_raise(self, cfg: CFG, node: Node, handler_stack) -> set[str]:
        st: ast.Raise = node.ast
        f = cfg.func
        if st.exc is None:
            return self._reraised(cfg, handler_stack)
        e = st.exc
        if isinstance(e, ast.Call):
            e = e.func
        if isinstance(e, ast.Name) and handler_stack:
            # `raise ex` where ex is the variable of an enclosing handler
            for hid in reversed(handler_stack):
                h = cfg.nodes[hid].ast
                if h.name == e.id:
                    return self._reraised(cfg, [hid])
        d = dotted(e)
        if d is None:
            # `raise TABLE.get(code, DefaultError)(stage)` / `raise TABLE[code](stage)` over a module-level dict of classes
            if isinstance(e, (ast.Call, ast.Subscript)):
                tc = self._lookup_classes(f, e)
                if tc:
                    return tc
            return {"Exception"}
        r = self.prog.resolve_dotted(f.module, d)
        r = EXC_ALIASES.get(r, r)
        if r in self.prog.classes or self.prog.known_class(r):
            return {r}
        if r in self.prog.functions and isinstance(st.exc, ast.Call):
            # raise make_error(...): the classes the factory returns (and whatever it raises itself)
            g = self.prog.functions[r]
            out: set[str] = set()
            from .loader import walk_own as _walk_own

            for x in _walk_own(g.node):
                if isinstance(x, ast.Return) and x.value is not None:
                    v = x.value.func if isinstance(x.value, ast.Call) else x.value
                    dd = dotted(v)
                    rr = self.prog.resolve_dotted(g.module, dd) if dd else None
                    rr = EXC_ALIASES.get(rr, rr) if rr else None
                    if rr and (rr in self.prog.classes or self.prog.known_class(rr)):
                        out.add(rr)
                    else:
                        out.add("Exception")
            out |= self._callee_escapes(r)
            return out or {"Exception"}
        # raising a local variable: a class looked up in a module-level table of exception classes
        # (`if exc := TABLE.get(code): raise exc(stage)`), else an unknown Exception subclass (a stored exception)
        if isinstance(e, ast.Name) and not e.id[:1].isupper():
            tc = self._table_classes(f, e.id)
            return tc if tc else {"Exception"}
        return {r}

    def _lookup_classes(self, f, v) -> set[str]:
        """classes a look-up `TABLE.get(k)` / `TABLE.get(k, Default)` / `TABLE[k]` in a module-level dict of classes can give"""
        tab, dflt = None, None
        if isinstance(v, ast.Call) and isinstance(v.func, ast.Attribute) and v.func.attr == "get" and 1 <= len(v.args) <= 2 and not v.keywords:
            tab = v.func.value
            dflt = v.args[1] if len(v.args) == 2 else None
        elif isinstance(v, ast.Subscript):
            tab = v.value
        d = dotted(tab) if tab is not None else None
        if d is None:
            return set()
        r = self.prog.resolve_dotted(f.module, d)
        parts = r.rsplit(".", 1)
        if not (len(parts) == 2 and parts[0] in self.prog.modules and parts[1] in self.prog.modules[parts[0]].assigns):
            return set()
        lits = self.prog.modules[parts[0]].assigns[parts[1]]
        if len(lits) != 1 or not isinstance(lits[0], ast.Dict):
            return set()
        m = self.prog.modules[parts[0]]
        out: set[str] = set()
        cells = [(m, dv) for dv in lits[0].values] + ([(f.module, dflt)] if dflt is not None and not (isinstance(dflt, ast.Constant) and dflt.value is None) else [])
        for mod_, dv in cells:
            dd = dotted(dv)
            rr = self.prog.resolve_dotted(mod_, dd) if dd else None
            rr = EXC_ALIASES.get(rr, rr) if rr else None
            if not rr or not (rr in self.prog.classes or self.prog.known_class(rr)):
                return set()
            out.add(rr)
        return out

    def _table_classes(self, f, name: str, _depth: int = 0) -> set[str]:
        from .loader import walk_own as _walk_own

        vals = []
        out: set[str] = set()
        for x in _walk_own(f.node):
            if isinstance(x, ast.Assign) and len(x.targets) == 1 and isinstance(x.targets[0], ast.Name) and x.targets[0].id == name:
                vals.append(x.value)
            elif isinstance(x, ast.Assign) and len(x.targets) == 1 and isinstance(x.targets[0], (ast.Tuple, ast.List)) \
                    and any(isinstance(t, ast.Name) and t.id == name for t in x.targets[0].elts):
                # `code, exc = (K, SomeError)`: one row of a table loop the loader spelled out (engine/unroll.py)
                tg = x.targets[0].elts
                if not (isinstance(x.value, (ast.Tuple, ast.List)) and len(x.value.elts) == len(tg)):
                    return set()
                cell = x.value.elts[[i for i, t in enumerate(tg) if isinstance(t, ast.Name) and t.id == name][0]]
                dd = dotted(cell)
                rr = self.prog.resolve_dotted(f.module, dd) if dd else None
                rr = EXC_ALIASES.get(rr, rr) if rr else None
                if not (rr and (rr in self.prog.classes or self.prog.known_class(rr))):
                    return set()
                out.add(rr)
            elif isinstance(x, ast.NamedExpr) and x.target.id == name:
                vals.append(x.value)
            elif isinstance(x, (ast.For, ast.AsyncFor)) and any(isinstance(t, ast.Name) and t.id == name for t in ast.walk(x.target)):
                # `for code, exc in TABLE: ... raise exc(stage)`: the class-valued entries of the rows of a module-level table
                rows = self._module_table(f, x.iter)
                if rows is None:
                    return set()
                for row in rows:
                    for cell in (row.elts if isinstance(row, (ast.Tuple, ast.List)) else [row]):
                        dd = dotted(cell)
                        rr = self.prog.resolve_dotted(f.module, dd) if dd else None
                        rr = EXC_ALIASES.get(rr, rr) if rr else None
                        if rr and (rr in self.prog.classes or self.prog.known_class(rr)):
                            out.add(rr)
                if not out:
                    return set()
        if out and not vals:
            return out
        if not vals:
            return out
        for v in list(vals):
            # an instance built in place (`err = SomeError("..")` - the result of an inlined error factory)
            if isinstance(v, ast.Call):
                dd = dotted(v.func)
                rr = self.prog.resolve_dotted(f.module, dd) if dd else None
                rr = EXC_ALIASES.get(rr, rr) if rr else None
                if rr and (rr in self.prog.classes or self.prog.known_class(rr)) and not (isinstance(v.func, ast.Attribute) and v.func.attr == "get"):
                    out.add(rr)
                    vals.remove(v)
                    continue
                # `exc_class(message)` where exc_class is a local that holds a class (the parameter of an inlined error factory)
                if isinstance(v.func, ast.Name) and v.func.id != name and not v.func.id[:1].isupper() and _depth < 4:
                    sub = self._table_classes(f, v.func.id, _depth + 1)
                    if sub:
                        out |= sub
                        vals.remove(v)
                        continue
            if isinstance(v, ast.Constant) and v.value is None:
                vals.remove(v)  # the initial `result = None` of an inlined helper
                continue
            # a plain name: a class itself, or another local that holds one (`cls = candidate` inside a spelled-out table loop)
            if isinstance(v, (ast.Name, ast.Attribute)):
                dd = dotted(v)
                rr = self.prog.resolve_dotted(f.module, dd) if dd else None
                rr = EXC_ALIASES.get(rr, rr) if rr else None
                if rr and (rr in self.prog.classes or self.prog.known_class(rr)):
                    out.add(rr)
                    vals.remove(v)
                    continue
                if isinstance(v, ast.Name) and v.id != name and _depth < 4:
                    sub = self._table_classes(f, v.id, _depth + 1)
                    if not sub:
                        return set()
                    out |= sub
                    vals.remove(v)
                    continue
                return set()
        for v in vals:
            sub = self._lookup_classes(f, v)
            if not sub:
                return set()
            out |= sub
        return out

    def _module_table(self, f, it: ast.AST):
        """Rows of a module-level tuple/list literal named by ``it`` (also `.items()` of a dict literal: values) or None."""
        d = dotted(it)
        if d is None and isinstance(it, ast.Call) and isinstance(it.func, ast.Attribute) and it.func.attr in ("items", "values") and not it.args:
            d = dotted(it.func.value)
        if d is None:
            return None
        r = self.prog.resolve_dotted(f.module, d)
        parts = r.rsplit(".", 1)
        if not (len(parts) == 2 and parts[0] in self.prog.modules and parts[1] in self.prog.modules[parts[0]].assigns):
            return None
        lits = self.prog.modules[parts[0]].assigns[parts[1]]
        if len(lits) != 1:
            return None
        if isinstance(lits[0], (ast.Tuple, ast.List)):
            return list(lits[0].elts)
        if isinstance(lits[0], ast.Dict):
            return list(lits[0].values)
        return None

    def _reraised(self, cfg: CFG, handler_stack) -> set[str]:
        if not handler_stack:
            return {"Exception"}
        h = cfg.nodes[handler_stack[-1]]
        if h.incoming_exc:
            return set(h.incoming_exc)
        return set(h.handler_classes or ["BaseException"])

    def _raises(self, cfg: CFG, node: Node, handler_stack) -> set[str]:
        if node.kind in ("handler", "entry", "exit", "xexit", "loop_head", "funcdef", "with_exit"):
            return set()
        f = cfg.func
        p = self.prog
        out: set[str] = set()
        if node.kind == "raise" and not self.profile.suppress_raise(self, cfg, node):
            out |= self._explicit_raise(cfg, node, handler_stack)
        if node.kind == "with_enter" and isinstance(node.ast, ast.AsyncWith):
            # entering an asynchronous context manager suspends (locks, semaphores)
            for e in node.exprs:
                if isinstance(e, ast.Call):
                    d = dotted(e.func)
                    r = p.resolve_dotted(f.module, d) if d else ""
                    if r in TIMEOUT_CMS or r in INTERRUPT_CMS or r.endswith("asyncio_timeout"):
                        continue
                out.add(CANCELLED)
        if node.kind == "for" and isinstance(node.ast, ast.AsyncFor):
            out.add(CANCELLED)
        awaited_calls: set[int] = set()
        for e in node.exprs:
            for sub in walk_expr(e):
                if isinstance(sub, ast.Await):
                    out |= self._awaited_classes(cfg, node, sub)
                    if isinstance(sub.value, ast.Call):
                        awaited_calls.add(id(sub.value))
                        d = dotted(sub.value.func)
                        r = p.resolve_dotted(f.module, d) if d else None
                        if r in AWAIT_WRAPPERS or r in ("asyncio.gather", "asyncio.wait"):
                            for a in sub.value.args:
                                if isinstance(a, ast.Call):
                                    awaited_calls.add(id(a))
        for e in node.exprs:
            for sub in walk_expr(e):
                if not isinstance(sub, ast.Call) or id(sub) in awaited_calls:
                    continue
                out |= self._call_classes(cfg, node, sub)
        out |= self.profile.extra(self, cfg, node)
        return {EXC_ALIASES.get(x, x) for x in out}

    def _call_classes(self, cfg: CFG, node: Node, call: ast.Call) -> set[str]:
        f = cfg.func
        p = self.prog
        out: set[str] = set()
        callees = self.res.resolve_call(f, call, record=False)
        for cal in callees:
            if cal in p.functions:
                g = p.functions[cal]
                if g.is_async or g.is_generator:
                    continue  # creating a coroutine / generator object does not run it
                out |= self._callee_escapes(cal)
            elif cal in EXTERNAL_RAISES:
                out |= set(EXTERNAL_RAISES[cal])
            elif cal.startswith("<result-of>"):
                # method on the result of a package function: generator protocol
                rest = cal[len("<result-of>") :]
                prod, _, meth = rest.rpartition(".")
                g = p.functions.get(prod)
                if g is not None and g.is_generator and meth in ("send", "__next__", "throw"):
                    out |= self._callee_escapes(prod)
                    out.add("StopIteration")
            elif cal.startswith("?.") or cal.startswith("?local") or cal.startswith("?param"):
                meth = cal.split(".")[-1]
                if meth in EXTERNAL_METHOD_RAISES:
                    out |= set(EXTERNAL_METHOD_RAISES[meth])

            else:
                meth = cal.split(".")[-1]
                if meth in EXTERNAL_METHOD_RAISES and "Ed25519PublicKey" in cal:
                    out |= set(EXTERNAL_METHOD_RAISES[meth])
        # Task.result() / Task.exception() on a task stored on self: re-raises the task's exception (result) and raises
        # CancelledError when the task was cancelled - without any cancellation of the caller
        if isinstance(call.func, ast.Attribute) and call.func.attr in ("result", "exception") and not call.args:
            v = call.func.value
            owner = f
            while owner.parent is not None:
                owner = owner.parent
            if isinstance(v, ast.Name) and not isinstance(f.node, ast.Lambda):
                # a local alias of the task attribute: `t = self._connector; ... t.exception()`
                from .loader import single_defs

                d = single_defs(f.node).get(v.id)
                if isinstance(d, ast.Attribute):
                    v = d
            if isinstance(v, ast.Attribute) and isinstance(v.value, ast.Name) and v.value.id == "self" and owner.cls is not None:
                t = self.res.task_attr(owner.cls.qualname, v.attr)
                if t:
                    out.add("asyncio.CancelledError[task]")
                    if call.func.attr == "result":
                        out |= self._callee_escapes(t)
        # generator protocol on a generator handed in from outside (parameter): any protocol generator may be behind it
        if (
            isinstance(call.func, ast.Attribute)
            and call.func.attr == "send"
            and isinstance(call.func.value, ast.Name)
            and len(call.args) == 1
            and not call.keywords
            and call.func.value.id in f.params
            and not any(c in p.functions or c.startswith("<result-of>") for c in callees)
        ):
            out.add("StopIteration")
            for g in self._package_generators():
                out |= self._callee_escapes(g)
        # next(gen) / gen.send through a local variable holding a generator
        if isinstance(call.func, ast.Name) and call.func.id == "next" and call.args:
            a = call.args[0]
            if isinstance(a, ast.Name):
                for t in self.res.local_types(f).get(a.id, ()):  # type: ignore[arg-type]
                    if t.startswith("<result-of>"):
                        prod = t[len("<result-of>") :]
                        g = p.functions.get(prod)
                        if g is not None and g.is_generator:
                            out |= self._callee_escapes(prod)
                            if len(call.args) == 1:
                                out.add("StopIteration")
        return out
