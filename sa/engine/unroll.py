"""Loops over a constant table are read as the statements they stand for.

    REQUIRED = ((TLV.kTLVType_PublicKey, "no public key"), (TLV.kTLVType_Salt, "no salt"))
    for key, complaint in REQUIRED:
        if key not in reply:
            raise InvalidError(complaint)

is the same program as the two ``if`` statements it replaced.  Before anything is indexed, a ``for`` statement whose iterable
is a literal display, or a module-level name bound exactly once to a display (tuple / list / dict, also through
``.items() / .keys() / .values()``), with at most ``MAX_ROWS`` rows of plain elements, is replaced by one copy of its body
per row, each preceded by the assignment ``<target> = <row>``.  ``continue`` jumps to the end of its copy and ``break`` to
the end of the whole block (the machinery of inlined helpers: InlineBlock / InlineReturn); a loop ``else`` follows the
copies.  Rules then meet ONE form - the straight-line one - whether the code spells the cases out or keeps them in a table.

Nothing is evaluated: rows are syntax.  Row elements must be constants, names or attribute chains (they are evaluated at the
place of the copy instead of at import time, which is the same value for names that are bound once); for a table that lives
in another module only constants are accepted, because a name there may mean something else here.
"""

from __future__ import annotations

import ast
import copy

from .inline import InlineBlock, InlineReturn

MAX_ROWS = 12
COL_SHIFT = 100000


def _plain(e: ast.expr, names_ok: bool) -> bool:
    if isinstance(e, ast.Constant):
        return True
    if isinstance(e, ast.UnaryOp) and isinstance(e.op, (ast.USub, ast.UAdd)) and isinstance(e.operand, ast.Constant):
        return True
    if isinstance(e, (ast.Tuple, ast.List)):
        return all(_plain(x, names_ok) for x in e.elts)
    if names_ok:
        if isinstance(e, ast.Name):
            return True
        if isinstance(e, ast.Attribute):
            return _plain(e.value, names_ok)
    return False


def _module_tables(tree: ast.Module) -> dict[str, ast.expr]:
    """module-level names bound exactly once, at top level, to a display, and never mutated by name in the module"""
    stores: dict[str, int] = {}
    for x in ast.walk(tree):
        if isinstance(x, ast.Name) and isinstance(x.ctx, (ast.Store, ast.Del)):
            stores[x.id] = stores.get(x.id, 0) + 1
        elif isinstance(x, (ast.Global, ast.Nonlocal)):
            for n in x.names:
                stores[n] = stores.get(n, 0) + 2
        elif isinstance(x, (ast.FunctionDef, ast.AsyncFunctionDef, ast.ClassDef)):
            stores[x.name] = stores.get(x.name, 0) + 1
        elif isinstance(x, ast.arg):
            stores[x.arg] = stores.get(x.arg, 0) + 1
        elif isinstance(x, ast.alias):
            nm = (x.asname or x.name).split(".")[0]
            stores[nm] = stores.get(nm, 0) + 1
    mutated: set[str] = set()
    for x in ast.walk(tree):
        if isinstance(x, ast.Call) and isinstance(x.func, ast.Attribute) and isinstance(x.func.value, ast.Name) and x.func.attr in (
            "append", "extend", "insert", "pop", "remove", "clear", "sort", "reverse", "update", "setdefault", "popitem", "add", "discard",
        ):
            mutated.add(x.func.value.id)
        if isinstance(x, (ast.Subscript, ast.Attribute)) and isinstance(x.ctx, (ast.Store, ast.Del)) and isinstance(x.value, ast.Name):
            mutated.add(x.value.id)
        if isinstance(x, ast.AugAssign) and isinstance(x.target, ast.Name):
            mutated.add(x.target.id)
    out = {}
    for st in tree.body:
        if isinstance(st, ast.Assign) and len(st.targets) == 1:
            t, v = st.targets[0], st.value
        elif isinstance(st, ast.AnnAssign) and st.value is not None:
            t, v = st.target, st.value
        else:
            continue
        if isinstance(t, ast.Name) and isinstance(v, (ast.Tuple, ast.List, ast.Dict)) and stores.get(t.id) == 1 and t.id not in mutated:
            out[t.id] = v
    return out


def _local_tables(fn) -> dict[str, ast.expr]:
    """locals of one function (nested functions excluded) bound exactly once, by a plain assignment of a tuple / list
    display, never rebound, deleted, changed in place or captured by a nested function"""
    stores: dict[str, int] = {}
    cand: dict[str, ast.expr] = {}
    bad: set[str] = {a.arg for a in fn.args.args + fn.args.kwonlyargs + fn.args.posonlyargs}
    stack = list(fn.body)
    while stack:
        x = stack.pop()
        if isinstance(x, (ast.FunctionDef, ast.AsyncFunctionDef, ast.ClassDef, ast.Lambda)):
            for y in ast.walk(x):
                if isinstance(y, ast.Name):
                    bad.add(y.id)
            continue
        if isinstance(x, ast.Name) and isinstance(x.ctx, (ast.Store, ast.Del)):
            stores[x.id] = stores.get(x.id, 0) + 1
        if isinstance(x, ast.Assign) and len(x.targets) == 1 and isinstance(x.targets[0], ast.Name) and isinstance(x.value, (ast.Tuple, ast.List)):
            cand[x.targets[0].id] = x.value
        if isinstance(x, ast.Call) and isinstance(x.func, ast.Attribute) and isinstance(x.func.value, ast.Name) and x.func.attr in (
                "append", "extend", "insert", "pop", "remove", "clear", "sort", "reverse"):
            bad.add(x.func.value.id)
        if isinstance(x, (ast.Subscript, ast.Attribute)) and isinstance(x.ctx, (ast.Store, ast.Del)) and isinstance(x.value, ast.Name):
            bad.add(x.value.id)
        if isinstance(x, ast.AugAssign) and isinstance(x.target, ast.Name):
            bad.add(x.target.id)
        if isinstance(x, (ast.Global, ast.Nonlocal)):
            bad.update(x.names)
        stack.extend(ast.iter_child_nodes(x))
    return {k: v for k, v in cand.items() if stores.get(k) == 1 and k not in bad}


def _imports(modname: str, is_pkg: bool, tree: ast.Module) -> dict[str, tuple[str, str]]:
    """local name -> (module, name) for `from <package module> import NAME [as local]` at top level"""
    out = {}
    for st in tree.body:
        if not isinstance(st, ast.ImportFrom):
            continue
        if st.level == 0:
            mod = st.module or ""
        else:
            base = modname.split(".")
            if not is_pkg:
                base = base[:-1]
            if st.level > 1:
                base = base[: -(st.level - 1)]
            mod = ".".join(base + (st.module.split(".") if st.module else []))
        for a in st.names:
            out[a.asname or a.name] = (mod, a.name)
    return out


class _Unroller:
    def __init__(self, trees: dict[str, tuple[ast.Module, bool]]):
        self.trees = trees
        self.tables = {mn: _module_tables(t) for mn, (t, _p) in trees.items()}
        self.count = 0
        self.sites: list[str] = []
        self.local_tables: dict[str, ast.expr] = {}
        self.fn_stores: set[str] = set()

    # ---- rows of an iterable, as syntax
    def _display(self, modname: str, imports, e: ast.expr, shadowed: set[str]):
        """-> (display node, defined in this module?) or None"""
        if isinstance(e, (ast.Tuple, ast.List, ast.Dict)):
            return e, True
        if isinstance(e, ast.Name) and e.id in self.local_tables:
            # a local of the enclosing function bound exactly once to a display and never changed in place (typically the
            # parameter of an inlined helper: `check(reply, required=((K1, "..."), (K2, "...")))`)
            return self.local_tables[e.id], True
        if isinstance(e, ast.Name) and e.id not in shadowed:
            if e.id in self.tables[modname]:
                return self.tables[modname][e.id], True
            if e.id in imports:
                mod, nm = imports[e.id]
                if mod in self.tables and nm in self.tables[mod]:
                    return self.tables[mod][nm], False
        return None

    def _rows(self, modname: str, imports, it: ast.expr, shadowed: set[str]):
        # zip(T1, T2, ..) / enumerate(T) over constant tables: the rows are the tuples these produce
        if isinstance(it, ast.Call) and isinstance(it.func, ast.Name) and it.func.id in ("zip", "enumerate") and it.func.id not in shadowed and it.args \
                and not any(isinstance(a, ast.Starred) for a in it.args) and all(k.arg == "strict" for k in it.keywords):
            cols = [self._rows(modname, imports, a, shadowed) for a in it.args]
            if any(c is None for c in cols):
                return None
            if it.func.id == "enumerate":
                if len(cols) != 1 or it.keywords:
                    return None
                return [ast.Tuple(elts=[ast.Constant(value=i), r], ctx=ast.Load()) for i, r in enumerate(cols[0])]
            if it.keywords and len({len(c) for c in cols}) != 1:
                return None  # strict=True with tables of different length raises
            return [ast.Tuple(elts=list(r), ctx=ast.Load()) for r in zip(*cols)]
        how = None
        if isinstance(it, ast.Call) and isinstance(it.func, ast.Attribute) and it.func.attr in ("items", "keys", "values") and not it.args and not it.keywords:
            how, it = it.func.attr, it.func.value
        d = self._display(modname, imports, it, shadowed)
        if d is None:
            return None
        disp, local = d
        if isinstance(disp, ast.Dict):
            if any(k is None for k in disp.keys):
                return None
            if how == "items":
                rows = [ast.Tuple(elts=[k, v], ctx=ast.Load()) for k, v in zip(disp.keys, disp.values)]
            elif how == "values":
                rows = list(disp.values)
            else:
                rows = list(disp.keys)
        else:
            if how is not None or any(isinstance(x, ast.Starred) for x in disp.elts):
                return None
            rows = list(disp.elts)
        if not 1 <= len(rows) <= MAX_ROWS:
            return None
        if not all(_plain(r, local) for r in rows):
            return None
        return rows

    # ---- one loop
    def _unroll(self, loop: ast.For, rows) -> ast.stmt:
        self.count += 1
        n = self.count
        outer = InlineBlock(test=ast.Constant(value=True), body=[], orelse=[])
        ast.copy_location(outer, loop)
        dummy = f"_unr{n}_jump"

        def jump(node, block):
            r = InlineReturn(targets=[ast.Name(id=dummy, ctx=ast.Store())], value=ast.Constant(value=None), type_comment=None)
            r.block = block
            return ast.copy_location(r, node)

        class _Jumps(ast.NodeTransformer):
            def __init__(self, blk):
                self.blk = blk

            def visit_Continue(self, node):
                return jump(node, self.blk)

            def visit_Break(self, node):
                return jump(node, outer)

            # break / continue of an inner loop, and nested scopes, are not ours
            def visit_For(self, node):
                node.orelse = [self.visit(x) for x in node.orelse]
                return node

            visit_AsyncFor = visit_For
            visit_While = visit_For

            def visit_FunctionDef(self, node):
                return node

            visit_AsyncFunctionDef = visit_FunctionDef
            visit_ClassDef = visit_FunctionDef
            visit_Lambda = visit_FunctionDef

        for j, row in enumerate(rows):
            blk = InlineBlock(test=ast.Constant(value=True), body=[], orelse=[])
            ast.copy_location(blk, loop)
            bind = ast.Assign(targets=[copy.deepcopy(loop.target)], value=copy.deepcopy(row), type_comment=None)
            ast.copy_location(bind, loop.target)
            for x in ast.walk(bind.value):
                ast.copy_location(x, loop.target) if not hasattr(x, "lineno") else None
            body = [_Jumps(blk).visit(st) for st in _copy_body(loop.body)]
            # a loop variable bound to a constant of the row (and not assigned in the body) is read as that constant: the
            # copy of the body then says `if val in ("y", "yes"): x = 1`, not `if val in words: x = truth`
            subst = {}
            pairs = [(loop.target, row)]
            while pairs:
                t_, r_ = pairs.pop()
                if isinstance(t_, ast.Name):
                    if _plain(r_, False) or (isinstance(r_, ast.Name) and r_.id not in self.fn_stores):
                        subst[t_.id] = r_
                elif isinstance(t_, (ast.Tuple, ast.List)) and isinstance(r_, (ast.Tuple, ast.List)) and len(t_.elts) == len(r_.elts) \
                        and not any(isinstance(x, ast.Starred) for x in t_.elts):
                    pairs.extend(zip(t_.elts, r_.elts))
            stored = {x.id for st in loop.body for x in ast.walk(st) if isinstance(x, ast.Name) and isinstance(x.ctx, (ast.Store, ast.Del))}
            stored |= {x.target.id for st in loop.body for x in ast.walk(st) if isinstance(x, ast.NamedExpr) and isinstance(x.target, ast.Name)}
            subst = {k: v for k, v in subst.items() if k not in stored}
            if subst:
                class _Sub(ast.NodeTransformer):
                    def visit_Name(self, nd):
                        if isinstance(nd.ctx, ast.Load) and nd.id in subst:
                            return ast.copy_location(copy.deepcopy(subst[nd.id]), nd)
                        return nd

                    def visit_Lambda(self, nd):
                        return nd

                    visit_FunctionDef = visit_AsyncFunctionDef = visit_ClassDef = visit_Lambda

                    def generic_visit(self, nd):
                        blk_ = getattr(nd, "block", None)
                        r = super().generic_visit(nd)
                        if blk_ is not None:
                            r.block = blk_
                        return r

                body = [_Sub().visit(st) for st in body]
            blk.body = [bind] + body
            ast.fix_missing_locations(blk)
            for x in ast.walk(blk):
                if isinstance(getattr(x, "col_offset", None), int):
                    x.col_offset += COL_SHIFT * j
            outer.body.append(blk)
        outer.body += loop.orelse
        ast.fix_missing_locations(outer)
        return outer

    # ---- walk
    def _next_lookup(self, modname, imports, st: ast.stmt, shadowed: set[str]):
        """`x = next((E for T in TABLE if C), DEFAULT)` over a constant table  ->  the loop it abbreviates
        (`for T in TABLE: if C: x = E; break` / `else: x = DEFAULT`), which is then spelled out row by row."""
        if not (type(st) is ast.Assign and len(st.targets) == 1 and isinstance(st.targets[0], ast.Name) and isinstance(st.value, ast.Call)
                and isinstance(st.value.func, ast.Name) and st.value.func.id == "next" and len(st.value.args) == 2 and not st.value.keywords
                and isinstance(st.value.args[0], ast.GeneratorExp) and len(st.value.args[0].generators) == 1):
            return None
        ge = st.value.args[0]
        g = ge.generators[0]
        if g.is_async or self._rows(modname, imports, g.iter, shadowed) is None or not _plain(st.value.args[1], True):
            return None
        self.count += 1
        pre = f"_nx{self.count}_"
        names = {x.id for x in ast.walk(g.target) if isinstance(x, ast.Name)}

        class _Ren(ast.NodeTransformer):
            def visit_Name(self, n):
                if n.id in names:
                    return ast.copy_location(ast.Name(id=pre + n.id, ctx=n.ctx), n)
                return n

        self.count -= 1
        tgt = _Ren().visit(copy.deepcopy(g.target))
        hit = [ast.Assign(targets=[copy.deepcopy(st.targets[0])], value=_Ren().visit(copy.deepcopy(ge.elt)), type_comment=None), ast.Break()]
        inner: list = hit
        for c in reversed(g.ifs):
            inner = [ast.If(test=_Ren().visit(copy.deepcopy(c)), body=inner, orelse=[])]
        loop = ast.For(target=tgt, iter=g.iter, body=inner,
                       orelse=[ast.Assign(targets=[copy.deepcopy(st.targets[0])], value=st.value.args[1], type_comment=None)], type_comment=None)
        ast.copy_location(loop, st)
        ast.fix_missing_locations(loop)
        return loop

    def _body(self, modname, imports, body: list, shadowed: set[str]) -> list:
        out = []
        for st in body:
            nl = self._next_lookup(modname, imports, st, shadowed)
            if nl is not None:
                st = nl
            if type(st) is ast.For:
                rows = self._rows(modname, imports, st.iter, shadowed)
                if rows is not None:
                    st = self._unroll(st, rows)
                    self.sites.append(f"{modname}:{st.lineno}")
            self._children(modname, imports, st, shadowed)
            out.append(st)
        return out

    def _children(self, modname, imports, st: ast.AST, shadowed: set[str]) -> None:
        if isinstance(st, (ast.FunctionDef, ast.AsyncFunctionDef)):
            # nothing to do in a function without a `for` statement or a `next(..)` look-up (most functions): skip the walks
            if not any(isinstance(x, (ast.For,)) or (isinstance(x, ast.Call) and isinstance(x.func, ast.Name) and x.func.id == "next") for x in ast.walk(st)):
                return
            sh = set(shadowed)
            for x in ast.walk(st):
                if isinstance(x, ast.Name) and isinstance(x.ctx, (ast.Store, ast.Del)):
                    sh.add(x.id)
                elif isinstance(x, ast.arg):
                    sh.add(x.arg)
            saved, saved_st = self.local_tables, self.fn_stores
            self.local_tables = _local_tables(st)
            self.fn_stores = sh
            st.body = self._body(modname, imports, st.body, sh)
            self.local_tables, self.fn_stores = saved, saved_st
            return
        for field in ("body", "orelse", "finalbody"):
            b = getattr(st, field, None)
            if isinstance(b, list) and b and isinstance(b[0], ast.stmt):
                setattr(st, field, self._body(modname, imports, b, shadowed))
        for h in getattr(st, "handlers", []) or []:
            h.body = self._body(modname, imports, h.body, shadowed)
        for c in getattr(st, "cases", []) or []:
            c.body = self._body(modname, imports, c.body, shadowed)

    def run(self) -> dict:
        for mn, (tree, is_pkg) in self.trees.items():
            imports = _imports(mn, is_pkg, tree)
            # only inside functions: module-level code runs once, at import
            for x in ast.walk(tree):
                if isinstance(x, ast.ClassDef) or x is tree:
                    for st in x.body:
                        if isinstance(st, (ast.FunctionDef, ast.AsyncFunctionDef)):
                            self._children(mn, imports, st, set())
        return {"unrolled_loops": self.count, "unrolled_at": self.sites}


def _copy_body(body: list) -> list:
    """Deep copy of a statement list.  InlineReturn.block (the jump target of an inlined `return`) is not a syntax field:
    it is re-pointed at the copied block when that block lies inside the copied statements, and kept when it encloses them."""
    holder = ast.Module(body=body, type_ignores=[])
    saved = [(x, x.block) for x in ast.walk(holder) if isinstance(x, InlineReturn) and hasattr(x, "block")]
    for x, _b in saved:
        del x.block
    try:
        cp = copy.deepcopy(holder)
    finally:
        for x, b in saved:
            x.block = b
    o_nodes, c_nodes = list(ast.walk(holder)), list(ast.walk(cp))
    assert len(o_nodes) == len(c_nodes)
    twin = {id(o): c for o, c in zip(o_nodes, c_nodes)}
    for o, c in zip(o_nodes, c_nodes):
        if isinstance(o, InlineReturn) and hasattr(o, "block"):
            c.block = twin.get(id(o.block), o.block)
    return cp.body


def unroll_package(trees: dict[str, tuple[ast.Module, bool]]) -> dict:
    return _Unroller(trees).run()
