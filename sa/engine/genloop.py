"""`for T in helper(..): BODY` over a simple generator helper is read as the helper's body with BODY at its `yield`.

    def _entries(data):
        for c in data.get("characteristics", []):
            if not isinstance(c, dict) or "aid" not in c:
                continue
            yield (c["aid"], c["iid"]), c

    for key, c in _entries(reply):
        BODY

is the same program as the helper's loop with `key, c = (c["aid"], c["iid"]), c; BODY` where the `yield` stands: the consumer's
body runs while the generator is suspended there.  Before anything is indexed such a `for` statement (no `else`) is replaced by
the helper's parameters bound to the arguments and the helper's body, locals renamed, the `yield` statement replaced by a block
holding `T = <yielded value>` and BODY; a `continue` of BODY jumps to the end of that block (the generator is resumed), a
`break` of BODY to the end of everything (the generator is abandoned).

Only where this is exact: a synchronous generator function of the same module or method of the same class called on `self`,
one `yield` with a value, as an expression statement, not `yield from`, not inside `try` / `with` (abandoning the generator
then runs nothing), no `return <value>`, no nested function around the `yield`; plain arguments.
"""

from __future__ import annotations

import ast
import copy

from .ctxmgr import _Pass as _CmPass, _mentioned_elsewhere, _own, _strip_doc
from .inline import InlineBlock, InlineReturn, _Renamer

COL_BASE = 700


def _yield_site(body: list):
    """(statement list, index) of the single `yield <value>` expression statement, searched through if / for / while bodies only"""
    found = []

    def go(stmts):
        for i, st in enumerate(stmts):
            if isinstance(st, ast.Expr) and isinstance(st.value, ast.Yield) and st.value.value is not None:
                found.append((stmts, i))
            elif isinstance(st, (ast.If, ast.For, ast.While)):
                go(st.body)
                go(st.orelse)

    go(body)
    return found[0] if len(found) == 1 else None


def _eligible(fn) -> bool:
    if not isinstance(fn, ast.FunctionDef) or fn.decorator_list and not all(isinstance(d, ast.Name) and d.id == "staticmethod" for d in fn.decorator_list):
        return False
    if fn.args.kwarg is not None:
        return False
    ys = [x for x in _own(fn) if isinstance(x, (ast.Yield, ast.YieldFrom))]
    if len(ys) != 1 or isinstance(ys[0], ast.YieldFrom):
        return False
    if any(isinstance(x, ast.Return) and x.value is not None for x in _own(fn)):
        return False
    if any(isinstance(x, (ast.Await, ast.AsyncFor, ast.AsyncWith)) for x in _own(fn)):
        return False
    return _yield_site(_strip_doc(fn.body)) is not None


class _Pass(_CmPass):
    def _instantiate_loop(self, fn, call: ast.Call, is_method: bool, loop: ast.For):
        self.count += 1
        k = self.count
        prefix = f"_gen{k}_"
        b = self._bind(fn, call, is_method, prefix, loop.body)
        if b is None:
            self.count -= 1
            return None
        binds, mapping, subst = b
        for x in _own(fn):
            if isinstance(x, ast.Name) and isinstance(x.ctx, (ast.Store, ast.Del)) and x.id not in mapping:
                mapping[x.id] = prefix + x.id
            elif isinstance(x, ast.ExceptHandler) and x.name and x.name not in mapping:
                mapping[x.name] = prefix + x.name
        # a parameter the helper assigns to cannot be substituted in place
        for p in list(subst):
            if any(isinstance(x, ast.Name) and x.id == p and isinstance(x.ctx, (ast.Store, ast.Del)) for x in _own(fn)):
                self.count -= 1
                return None
        body = copy.deepcopy(_strip_doc(fn.body))
        ren = _Renamer(mapping)
        body = [ren.visit(st) for st in body]

        class _Subst(ast.NodeTransformer):
            def visit_Name(self, n):
                if isinstance(n.ctx, ast.Load) and n.id in subst:
                    return ast.copy_location(copy.deepcopy(subst[n.id]), n)
                return n

        body = [_Subst().visit(st) for st in body]
        for st in body:
            for x in ast.walk(st):
                if isinstance(getattr(x, "col_offset", None), int):
                    x.col_offset += 1000 * (COL_BASE + k)
        outer = InlineBlock(test=ast.Constant(value=True), body=[], orelse=[])
        ast.copy_location(outer, loop)
        dummy = f"_gen{k}_jump"

        def jump(node, block):
            r = InlineReturn(targets=[ast.Name(id=dummy, ctx=ast.Store())], value=ast.Constant(value=None), type_comment=None)
            r.block = block
            return ast.copy_location(r, node)

        # a bare `return` of the helper ends the iteration: the end of everything
        class _Rets(ast.NodeTransformer):
            def visit_Return(self, node):
                return jump(node, outer)

            def visit_FunctionDef(self, node):
                return node

            visit_AsyncFunctionDef = visit_ClassDef = visit_Lambda = visit_FunctionDef

        body = [_Rets().visit(st) for st in body]
        stmts, i = _yield_site(body)
        y = stmts[i].value
        blk = InlineBlock(test=ast.Constant(value=True), body=[], orelse=[])
        ast.copy_location(blk, loop)

        class _Jumps(ast.NodeTransformer):
            def visit_Continue(self, node):
                return jump(node, blk)

            def visit_Break(self, node):
                return jump(node, outer)

            def visit_For(self, node):  # break / continue of an inner loop of BODY are not ours
                node.orelse = [self.visit(x) for x in node.orelse]
                return node

            visit_AsyncFor = visit_While = visit_For

            def visit_FunctionDef(self, node):
                return node

            visit_AsyncFunctionDef = visit_ClassDef = visit_Lambda = visit_FunctionDef

        assign = ast.copy_location(ast.Assign(targets=[loop.target], value=y.value, type_comment=None), loop)
        blk.body = [assign] + [_Jumps().visit(st) for st in loop.body]
        stmts[i] = blk
        outer.body = binds + body
        ast.fix_missing_locations(outer)
        return outer

    def _stmt(self, modname, funcs, methods, cls, st):
        if isinstance(st, ast.ClassDef):
            st.body = self._body(modname, funcs, methods, st.name, st.body)
            return st
        for f in ("body", "orelse", "finalbody"):
            b = getattr(st, f, None)
            if isinstance(b, list) and b and isinstance(b[0], ast.stmt):
                setattr(st, f, self._body(modname, funcs, methods, cls, b))
        for h in getattr(st, "handlers", []) or []:
            h.body = self._body(modname, funcs, methods, cls, h.body)
        if type(st) is ast.For and not st.orelse and isinstance(st.iter, ast.Call):
            call = st.iter
            fn, is_method = None, False
            if isinstance(call.func, ast.Name):
                fn = funcs.get(call.func.id)
            elif isinstance(call.func, ast.Attribute) and isinstance(call.func.value, ast.Name) and call.func.value.id == "self" and cls is not None:
                fn, is_method = methods.get((cls, call.func.attr)), True
                if fn is not None and fn.decorator_list:
                    is_method = False  # a static method called on self: no receiver parameter
            if fn is not None and not any(isinstance(x, (ast.Yield, ast.YieldFrom)) for b_ in st.body for x in ast.walk(b_)):
                new = self._instantiate_loop(fn, call, is_method, st)
                if new is not None:
                    self.sites.append(f"{modname}:{st.lineno}")
                    return new
        return st

    def run(self) -> dict:
        for mn, tree in self.trees.items():
            funcs = {st.name: st for st in tree.body if _eligible(st)}
            methods = {(c.name, st.name): st for c in tree.body if isinstance(c, ast.ClassDef) for st in c.body if _eligible(st)}
            if not funcs and not methods:
                continue
            tree.body = self._body(mn, funcs, methods, None, tree.body)
            for name, fn in list(funcs.items()):
                uses = sum(1 for x in ast.walk(tree) if isinstance(x, ast.Name) and x.id == name and isinstance(x.ctx, ast.Load))
                if uses == 0 and fn in tree.body and not _mentioned_elsewhere(self.trees, mn, name):
                    tree.body.remove(fn)
            for (cname, name), fn in list(methods.items()):
                uses = sum(1 for t in self.trees.values() for x in ast.walk(t) if isinstance(x, ast.Attribute) and x.attr == name)
                if uses == 0:
                    for c in tree.body:
                        if isinstance(c, ast.ClassDef) and c.name == cname and fn in c.body and len(c.body) > 1:
                            c.body.remove(fn)
        return {"generator_loops_inlined": self.count, "generator_loops_at": self.sites}


def inline_generator_loops(trees: dict[str, ast.Module]) -> dict:
    return _Pass(trees).run()
