"""`functools.partial(f, a, ..)` over a package function is read as the closure it stands for.

    derive = partial(hkdf_derive, shared_secret)

is, for every call `derive(salt, info)` / `derive(salt, info, length=16)`, the nested function

    def derive(salt, info, length=32):
        return hkdf_derive(shared_secret, salt, info, length=length)

that the code had before.  Before anything is indexed, inside function bodies, a call `partial(F, a1, .., k=v ..)` whose F
is a plain function of the package with a simple signature (no positional-only parameters, `*args`, `**kwargs`) and whose
bound arguments are plain (names, attribute chains, constants) is replaced by the name of a nested function defined right
before the statement: the bound arguments are copied into temporaries there (partial evaluates them once, at creation), the
remaining parameters keep their names and defaults, parameters with a default are passed by keyword.  Rules then meet ONE
form of "a function of the remaining arguments with these values fixed" - a closure of the enclosing function.

partial over classes, bound methods and anything not resolved syntactically is left alone.
"""

from __future__ import annotations

import ast
import copy


def _plain(e) -> bool:
    if isinstance(e, (ast.Constant, ast.Name)):
        return True
    if isinstance(e, ast.Attribute):
        return _plain(e.value)
    return False


def _imports(modname: str, is_pkg: bool, tree: ast.Module) -> dict[str, tuple[str, str]]:
    out = {}
    for st in tree.body:
        if not isinstance(st, ast.ImportFrom):
            continue
        if st.level == 0:
            mod = st.module or ""
        else:
            base = modname.split(".")
            if not is_pkg:
                base = base[:-1]
            if st.level > 1:
                base = base[: -(st.level - 1)]
            mod = ".".join(base + (st.module.split(".") if st.module else []))
        for a in st.names:
            out[a.asname or a.name] = (mod, a.name)
    return out


class _Pass:
    def __init__(self, trees: dict[str, tuple[ast.Module, bool]]):
        self.trees = trees
        self.count = 0
        self.funcs = {mn: {st.name: st for st in t.body if isinstance(st, ast.FunctionDef) and not st.decorator_list} for mn, (t, _p) in trees.items()}

    def _target(self, modname, imports, partial_names: set[str], e: ast.Call):
        f = e.func
        is_partial = (isinstance(f, ast.Name) and f.id in partial_names) or (
            isinstance(f, ast.Attribute) and f.attr == "partial" and isinstance(f.value, ast.Name) and f.value.id == "functools")
        if not is_partial or not e.args or not isinstance(e.args[0], ast.Name):
            return None
        name = e.args[0].id
        fn = self.funcs[modname].get(name)
        mod, nm, hops = modname, name, 0
        imps = imports
        while fn is None and nm in imps and hops < 4:
            mod, nm = imps[nm]  # re-exported through a package __init__: follow the import
            hops += 1
            fn = self.funcs.get(mod, {}).get(nm)
            if fn is None and mod in self.trees:
                imps = _imports(mod, self.trees[mod][1], self.trees[mod][0])
            else:
                break
        if fn is None:
            return None
        a = fn.args
        if a.posonlyargs or a.vararg or a.kwarg:
            return None
        if any(isinstance(x, ast.Starred) for x in e.args) or any(k.arg is None for k in e.keywords):
            return None
        if not all(_plain(x) for x in e.args[1:]) or not all(_plain(k.value) for k in e.keywords):
            return None
        params = [x.arg for x in a.args]
        if len(e.args) - 1 > len(params):
            return None
        kw_bound = {k.arg for k in e.keywords}
        allp = params + [x.arg for x in a.kwonlyargs]
        if not kw_bound <= set(allp) or kw_bound & set(params[: len(e.args) - 1]):
            return None
        ndef = len(a.defaults)
        no_default = set(params[: len(params) - ndef])
        rest = params[len(e.args) - 1:]
        seen_kw = False
        for p_ in rest:
            if p_ in kw_bound:
                seen_kw = True
            elif seen_kw and p_ in no_default:
                return None
        return fn

    def _make(self, fn, e: ast.Call, at: ast.stmt):
        self.count += 1
        k = self.count
        a = fn.args
        params = [x.arg for x in a.args]
        defaults = dict(zip(params[len(params) - len(a.defaults):], a.defaults))
        for x, d in zip(a.kwonlyargs, a.kw_defaults):
            if d is not None:
                defaults[x.arg] = d
        nbound = len(e.args) - 1
        pre, call_args, call_kw = [], [], []
        for i, x in enumerate(e.args[1:]):
            tmp = f"_part{k}_a{i}"
            pre.append(ast.Assign(targets=[ast.Name(id=tmp, ctx=ast.Store())], value=copy.deepcopy(x), type_comment=None))
            call_args.append(ast.Name(id=tmp, ctx=ast.Load()))
        kw_bound = {}
        for kw in e.keywords:
            tmp = f"_part{k}_k_{kw.arg}"
            pre.append(ast.Assign(targets=[ast.Name(id=tmp, ctx=ast.Store())], value=copy.deepcopy(kw.value), type_comment=None))
            kw_bound[kw.arg] = tmp
        new_args = ast.arguments(posonlyargs=[], args=[], vararg=None, kwonlyargs=[], kw_defaults=[], kwarg=None, defaults=[])
        for p in params[nbound:]:
            if p in kw_bound:
                call_kw.append(ast.keyword(arg=p, value=ast.Name(id=kw_bound[p], ctx=ast.Load())))
            elif p in defaults:
                new_args.args.append(ast.arg(arg=p))
                new_args.defaults.append(copy.deepcopy(defaults[p]))
                call_kw.append(ast.keyword(arg=p, value=ast.Name(id=p, ctx=ast.Load())))
            else:
                new_args.args.append(ast.arg(arg=p))
                call_args.append(ast.Name(id=p, ctx=ast.Load()))
        for x in a.kwonlyargs:
            if x.arg in kw_bound:
                call_kw.append(ast.keyword(arg=x.arg, value=ast.Name(id=kw_bound[x.arg], ctx=ast.Load())))
            else:
                new_args.kwonlyargs.append(ast.arg(arg=x.arg))
                new_args.kw_defaults.append(copy.deepcopy(defaults.get(x.arg)))
                call_kw.append(ast.keyword(arg=x.arg, value=ast.Name(id=x.arg, ctx=ast.Load())))
        fname = f"_part{k}_{fn.name}"
        body = [ast.Return(value=ast.Call(func=copy.deepcopy(e.args[0]), args=call_args, keywords=call_kw))]
        fd = ast.FunctionDef(name=fname, args=new_args, body=body, decorator_list=[], returns=None, type_comment=None, type_params=[])
        for st in pre + [fd]:
            ast.copy_location(st, at)
            ast.fix_missing_locations(st)
            for x in ast.walk(st):
                if isinstance(getattr(x, "col_offset", None), int):
                    x.col_offset += 1000 * (700 + k)
        return pre + [fd], ast.copy_location(ast.Name(id=fname, ctx=ast.Load()), e)

    def _body(self, modname, imports, pnames, body: list) -> list:
        out = []
        for st in body:
            for f in ("body", "orelse", "finalbody"):
                b = getattr(st, f, None)
                if isinstance(b, list) and b and isinstance(b[0], ast.stmt):
                    setattr(st, f, self._body(modname, imports, pnames, b) if not isinstance(st, ast.ClassDef) else [self._cls(modname, imports, pnames, x) for x in b])
            for h in getattr(st, "handlers", []) or []:
                h.body = self._body(modname, imports, pnames, h.body)
            if isinstance(st, (ast.Assign, ast.AnnAssign, ast.Return, ast.Expr)) and getattr(st, "value", None) is not None:
                pre_all = []

                class _R(ast.NodeTransformer):
                    def visit_Lambda(s_, n):
                        return n

                    def visit_Call(s_, n):
                        s_.generic_visit(n)
                        fn = self._target(modname, imports, pnames, n)
                        if fn is None:
                            return n
                        pre, name = self._make(fn, n, st)
                        pre_all.extend(pre)
                        return name

                st.value = _R().visit(st.value)
                out.extend(pre_all)
            out.append(st)
        return out

    def _cls(self, modname, imports, pnames, st):
        if isinstance(st, (ast.FunctionDef, ast.AsyncFunctionDef)):
            st.body = self._body(modname, imports, pnames, st.body)
        return st

    def run(self) -> dict:
        for mn, (tree, is_pkg) in self.trees.items():
            imports = _imports(mn, is_pkg, tree)
            pnames = {loc for loc, (mod, nm) in imports.items() if mod == "functools" and nm == "partial"}
            has_attr = any(isinstance(x, ast.Attribute) and x.attr == "partial" for x in ast.walk(tree))
            if not pnames and not has_attr:
                continue
            for st in tree.body:
                if isinstance(st, (ast.FunctionDef, ast.AsyncFunctionDef)):
                    st.body = self._body(mn, imports, pnames, st.body)
                elif isinstance(st, ast.ClassDef):
                    st.body = [self._cls(mn, imports, pnames, x) for x in st.body]
        return {"partials_as_closures": self.count}


def partials_as_closures(trees: dict[str, tuple[ast.Module, bool]]) -> dict:
    return _Pass(trees).run()
