"""Shared context handed to every rule module: program model, CFGs, terms, query helpers."""

from __future__ import annotations

import ast
from typing import Callable, Iterable

from .cfg import CFG, Node
from .excflow import ExcFlow, Profile
from .loader import PKG, AnalysisError, Func, Program, dotted, expand, single_defs, walk_expr, walk_own  # noqa: F401 (re-exported)
from .report import Checker, norm_stmt
from .resolve import Resolver
from .terms import Terms

TRUSTED_BASE = [
    "Python's ast module parses the files the interpreter would run (same interpreter: /venv/bin/python)",
    "third-party behaviour is trusted and not analysed: cryptography, chacha20poly1305(_reuseable), orjson, "
    "commentjson, asyncio, bleak, zeroconf, aiocoap, aiohappyeyeballs, async_interrupt",
    "raise sites are: explicit raise, await (CancelledError + escapes of the awaited package coroutine), calls to "
    "package functions with a non-empty escape set, generator send/next, the frozen table of external raisers "
    "(Ed25519 verify -> InvalidSignature, AEAD decrypt -> InvalidTag, orjson/commentjson/json loads); other external "
    "calls, logging and attribute access are assumed not to raise unless a rule enables a partial-operation profile",
    "calls into user-registered callbacks are assumed not to raise except where a rule demands isolation",
    "package decorators (operation_lock, restore_connection_and_resume, ...) are treated as transparent wrappers",
]


class Context:
    def __init__(self, prog: Program, ck: Checker, inline_depth: int = 3):
        self.prog = prog
        self.ck = ck
        self.res = Resolver(prog)
        import os as _os

        if _os.environ.get("VERIF_SA_NO_KWPOS") != "1" and not getattr(prog, "_kwpos_done", False):
            from .kwargs import positionalise_keywords

            prog.inline_stats["keywords_positioned"] = positionalise_keywords(prog, self.res)
            prog._kwpos_done = True
            self.res = Resolver(prog)  # nothing of the first resolver's caches is kept
        self.flow = ExcFlow(prog, self.res)
        self.flow.compute()
        self.terms = Terms(prog, self.res, self.flow, inline_depth=inline_depth)
        self._profiles: dict[str, ExcFlow] = {}
        self.inline_depth = inline_depth

    # ------------------------------------------------------------------ access
    def func(self, q: str) -> Func:
        return self.prog.func(q)

    def cfg(self, q: str) -> CFG:
        self.prog.func(q)
        return self.flow.cfg(q)

    def flow_with(self, profile: Profile) -> ExcFlow:
        fl = self._profiles.get(profile.name)
        if fl is None:
            fl = ExcFlow(self.prog, self.res, profile)
            fl.compute()
            self._profiles[profile.name] = fl
        return fl

    def stats(self) -> dict:
        nodes = sum(len(c.nodes) for c in self.flow.cfgs.values())
        edges = sum(sum(len(n.succ) for n in c.nodes) for c in self.flow.cfgs.values())
        return {
            "files_parsed": len(self.prog.modules),
            "functions_in_model": len(self.prog.functions),
            "classes_in_model": len(self.prog.classes),
            "cfg_nodes": nodes,
            "cfg_edges": edges,
            "escape_fixpoint_iterations": self.flow.iterations,
            "inline_depth_bound": self.inline_depth,
            "inline_depth_reached": self.terms.max_depth_reached,
            "source_digest": self.prog.digest[:16],
        }

    # ------------------------------------------------------------------ AST queries on CFG nodes
    def calls(self, node: Node) -> Iterable[ast.Call]:
        for e in node.exprs:
            if e is None:
                continue
            for sub in walk_expr(e):
                if isinstance(sub, ast.Call):
                    yield sub

    def callee_names(self, f: Func, call: ast.Call) -> list[str]:
        return self.res.resolve_call(f, call, record=False)

    def nodes_calling(self, cfg: CFG, pred: Callable[[ast.Call, list[str]], bool]) -> list[tuple[Node, ast.Call]]:
        out = []
        for n in cfg.nodes:
            for c in self.calls(n):
                names = self.callee_names(cfg.func, c)
                if pred(c, names):
                    out.append((n, c))
        return out

    def nodes_calling_name(self, cfg: CFG, *suffixes: str) -> list[tuple[Node, ast.Call]]:
        """Nodes containing a call whose resolved callee (or attribute name) ends with one of the suffixes."""

        def pred(c, names):
            for nm in names:
                for s in suffixes:
                    if nm == s or nm.endswith("." + s):
                        return True
            if isinstance(c.func, ast.Attribute) and c.func.attr in suffixes:
                return True
            return False

        return self.nodes_calling(cfg, pred)

    def const(self, f: Func, e: ast.expr, default=None):
        owner = f
        while owner.parent is not None:
            owner = owner.parent
        return self.prog.try_const(e, f.module, owner.cls, default)

    def resolve_name(self, f: Func, e: ast.expr) -> str | None:
        d = dotted(e)
        if d is None:
            return None
        return self.prog.resolve_dotted(f.module, d)

    # ------------------------------------------------------------------ gate machinery
    def normal_out(self, cfg: CFG, n: Node) -> list[tuple]:
        return cfg.out_edges(n, ("n", "T", "F"))

    def edges(self, cfg: CFG, n: Node, label: str) -> list[tuple]:
        return cfg.out_edges(n, (label,))

    def must_pass(
        self,
        rule: str,
        cfg: CFG,
        target: Node | int,
        gate_name: str,
        pass_edges: list[tuple],
        start: int | None = None,
        desc: str | None = None,
        avoid_nodes=(),
    ) -> bool:
        """Every path start(=entry) -> target must traverse one of ``pass_edges``."""
        tid = target if isinstance(target, int) else target.id
        src = cfg.entry.id if start is None else start
        f = cfg.func
        tnode = cfg.nodes[tid]
        d = desc or f"{f.qualname.split('.', 1)[1]}: every path to `{tnode.text()}` passes {gate_name}"
        path = cfg.find_path(src, tid, avoid_edges=pass_edges, avoid_nodes=avoid_nodes)
        loc = f"{f.module.relpath}:{tnode.lineno}"
        if path is None:
            self.ck.holds(rule, d, loc)
            return True
        why = "gate not present in the function" if not pass_edges else "a path avoids it"
        op = self._opaque_gate_on(cfg, path, tid)
        if op is not None:
            # the witness path goes through an outcome of a test whose value the analysis does not read (the result of a
            # predicate taken from a table, of next()/any()/all() over a generator expression ..) and whose other outcome
            # cannot reach the target: that test may well BE the gate, written in a way that is not followed - not decided
            self.ck.unknown(rule, f"{f.qualname[len(f.module.name) + 1:]}: `{tnode.text()[:70]}` is reached without passing {gate_name} as the analysis reads it, but through "
                                  f"`{op.text()[:70]}`, a test whose value is not read (a predicate held in a variable / next / any / all over a generator): not decided", loc)
            return False
        self.ck.violated(
            rule,
            f"{f.module.name}:{f.qualname[len(f.module.name) + 1:]}:{gate_name}->{norm_stmt(tnode.text())}",
            f"{f.qualname[len(f.module.name) + 1:]}: `{tnode.text()}` reachable without passing {gate_name} ({why})",
            loc,
            cfg.render_path(path),
            d,
        )
        return False

    def param_never_passed(self, f: Func, pname: str) -> bool:
        """``pname`` is a parameter of f with a default, and no call in the package that may reach f passes it (positionally,
        by keyword, or through * / **): inside f it always has its default.  (Calls from outside the package are not seen:
        a public function's new optional parameter is treated as unused until somebody in the package uses it.)"""
        key = (f.qualname, pname)
        cache = self.__dict__.setdefault("_pnp_cache", {})
        if key in cache:
            return cache[key]
        cache[key] = False
        if isinstance(f.node, ast.Lambda) or pname not in f.pos_params:
            kwonly = [a.arg for a in getattr(f.node.args, "kwonlyargs", [])] if not isinstance(f.node, ast.Lambda) else []
            if pname not in kwonly:
                return False
            pi = None
            has_default = f.node.args.kw_defaults[kwonly.index(pname)] is not None
        else:
            pi = f.pos_params.index(pname)
            has_default = pi >= len(f.pos_params) - len(f.node.args.defaults)
        if not has_default:
            return False
        off = 1 if (f.cls is not None and "staticmethod" not in f.decorators) else 0
        short = f.name if f.name != "__init__" else (f.cls.qualname.rsplit(".", 1)[-1] if f.cls is not None else f.name)
        for g in self.prog.package_functions():
            if isinstance(g.node, ast.Lambda):
                continue
            for c in ast.walk(g.node):
                if not isinstance(c, ast.Call):
                    continue
                nm = c.func.attr if isinstance(c.func, ast.Attribute) else c.func.id if isinstance(c.func, ast.Name) else None
                if nm not in (short, f.name, "super"):
                    continue
                if f.qualname not in self.callee_names(g, c) and not (nm == short and f.name == "__init__"):
                    continue
                if any(k.arg in (pname, None) for k in c.keywords) or any(isinstance(a, ast.Starred) for a in c.args):
                    return False
                if pi is not None and len(c.args) > pi - off:
                    return False
        cache[key] = True
        return True

    def _opaque_gate_on(self, cfg: CFG, path, tid: int):
        """the first test node on ``path`` that is a gate for ``tid`` (one of its outcomes cannot reach it) and tests a value
        the term language does not read"""
        from .terms import contains, strip_sites

        def opaque(t) -> bool:
            def bad(s_):
                if not isinstance(s_, tuple) or not s_:
                    return False
                if s_[0] == "unknown":
                    return True
                if s_[0] == "call" and len(s_) >= 3:
                    fn = s_[1]
                    if fn in (("glob", "next"), ("glob", "any"), ("glob", "all"), ("glob", "filter")) and s_[2] and isinstance(s_[2][0], tuple) and s_[2][0][:1] in (("comp",), ("call",)):
                        return True
                    # a call of something that is not a named function / method / class: a callable held in a variable
                    if isinstance(fn, tuple) and fn[:1] in (("cvar",), ("each",), ("iter",), ("lparam",), ("loopvar",)):
                        return True
                return False

            return contains(t, bad)

        for hop in path or []:
            n = cfg.nodes[hop[0]]
            if n.kind != "test" or not n.exprs or n.exprs[0] is None:
                continue
            outs = [(d_, l_) for (d_, l_, _x) in n.succ if l_ in ("T", "F")]
            if len(outs) != 2:
                continue
            if all(d_ == tid or tid in cfg.reachable_from(d_) for d_, _l in outs):
                continue
            try:
                t = strip_sites(self.terms.of(cfg, n, n.exprs[0]))
            except Exception:  # noqa: BLE001
                continue
            if opaque(t):
                return n
        return None

    def deref(self, cfg: CFG, node: Node, expr: ast.AST, depth: int = 6):
        """Follow a Name through its unique reaching plain assignment to (defining node, defining expression).
        Anything else (several reaching definitions, a loop/with/unpack target, a parameter) is returned unchanged."""
        du = self.terms.du(cfg)
        cur_node, cur = node, expr
        for _ in range(depth):
            if not isinstance(cur, ast.Name):
                break
            rd = du.reaching(cur_node.id, cur.id)
            if len(rd) != 1 or rd[0][1].kind != "assign" or rd[0][1].path:
                break
            cur_node, cur = cfg.nodes[rd[0][0]], rd[0][1].value
        return cur_node, cur

    def call_path(self, cfg: CFG, node: Node, call: ast.Call) -> str | None:
        """Dotted path of the called function with local aliases resolved by data flow: for
        `t = self.transport; t.close()` -> "self.transport.close"; globals come back fully qualified.
        None when the callee is not a plain attribute chain (a phi of two aliases, a call result ...)."""
        return term_path(self.terms.of(cfg, node, call.func))

    def expr_path(self, cfg: CFG, node: Node, e: ast.AST) -> str | None:
        return term_path(self.terms.of(cfg, node, e))

    def fkey(self, f: Func) -> str:
        return f"{f.module.name}:{f.qualname[len(f.module.name) + 1:]}"

    def loc(self, f: Func, n) -> str:
        return f"{f.module.relpath}:{getattr(n, 'lineno', 0)}"


def term_path(t) -> str | None:
    from .terms import strip_sites

    t = strip_sites(t)
    if t[0] == "param":
        return t[1]
    if t[0] == "glob":
        return t[1]
    if t[0] == "attr":
        base = term_path(t[1])
        return None if base is None else f"{base}.{t[2]}"
    return None


# ---------------------------------------------------------------------- small AST predicates
def is_membership(e: ast.expr):
    """``K in D`` / ``K not in D`` -> (K, D, positive) else None."""
    if isinstance(e, ast.Compare) and len(e.ops) == 1 and isinstance(e.ops[0], (ast.In, ast.NotIn)):
        return e.left, e.comparators[0], isinstance(e.ops[0], ast.In)
    return None


_MIRROR = {"Eq": "Eq", "NotEq": "NotEq", "Lt": "Gt", "Gt": "Lt", "LtE": "GtE", "GtE": "LtE", "Is": "Is", "IsNot": "IsNot"}


def compare_parts(e: ast.expr, left=None):
    """Single comparison -> (left, opname, right) else None.  With ``left`` (a predicate on an operand) the comparison is
    returned oriented so that the operand satisfying it stands on the left (`a < b` read as `b > a` when needed): rules
    say WHICH operand they mean instead of relying on the side it was written on."""
    if isinstance(e, ast.Compare) and len(e.ops) == 1:
        l, op, r = e.left, type(e.ops[0]).__name__, e.comparators[0]
        if left is not None and not left(l) and left(r) and op in _MIRROR:
            return r, _MIRROR[op], l
        return l, op, r
    return None


def names_in(e: ast.AST) -> set[str]:
    return {n.id for n in ast.walk(e) if isinstance(n, ast.Name)}


def sync_closure(ctx: "Context", roots: list[str], max_funcs: int = 400) -> list[str]:
    """Package functions that run synchronously inside the roots (resolved calls; coroutines/generators
    that are merely created - tasks - are not entered)."""
    seen: list[str] = []
    work = list(roots)
    while work and len(seen) < max_funcs:
        q = work.pop()
        if q in seen or q not in ctx.prog.functions:
            continue
        seen.append(q)
        f = ctx.prog.functions[q]
        if isinstance(f.node, ast.Lambda):
            continue
        for n in walk_own(f.node):
            if isinstance(n, ast.Call):
                for cal in ctx.res.resolve_call(f, n, record=False):
                    g = ctx.prog.functions.get(cal)
                    if g is not None and not g.is_async and not g.is_generator and cal not in seen:
                        work.append(cal)
            elif isinstance(n, ast.Attribute) and isinstance(n.ctx, ast.Load):
                # properties of self
                owner = f
                while owner.parent is not None:
                    owner = owner.parent
                if owner.cls is not None and isinstance(n.value, ast.Name) and n.value.id == "self":
                    m = ctx.prog.lookup_method(owner.cls.qualname, n.attr)
                    if m is not None and "property" in m.decorators and m.qualname not in seen:
                        work.append(m.qualname)
    return seen
