"""Shared context handed to every rule module: program model, CFGs, terms, query helpers."""

from __future__ import annotations

import ast
from typing import Callable, Iterable

from .cfg import CFG, Node
from .excflow import ExcFlow, Profile
from .loader import PKG, AnalysisError, Func, Program, dotted, expand, single_defs, walk_expr, walk_own  # noqa: F401 (re-exported)
from .report import Checker, norm_stmt
from .resolve import Resolver
from .terms import Terms

TRUSTED_BASE = [
    "Python's ast module parses the files the interpreter would run (same interpreter: /venv/bin/python)",
    "third-party behaviour is trusted and not analysed: cryptography, chacha20poly1305(_reuseable), orjson, "
    "commentjson, asyncio, bleak, zeroconf, aiocoap, aiohappyeyeballs, async_interrupt",
    "raise sites are: explicit raise, await (CancelledError + escapes of the awaited package coroutine), calls to "
    "package functions with a non-empty escape set, generator send/next, the frozen table of external raisers "
    "(Ed25519 verify -> InvalidSignature, AEAD decrypt -> InvalidTag, orjson/commentjson/json loads); other external "
    "calls, logging and attribute access are assumed not to raise unless a rule enables a partial-operation profile",
    "calls into user-registered callbacks are assumed not to raise except where a rule demands isolation",
    "package decorators (operation_lock, restore_connection_and_resume, ...) are treated as transparent wrappers",
]


class Context:
    def __init__(self, prog: Program, ck: Checker, inline_depth: int = 3):
        self.prog = prog
        self.ck = ck
        self.res = Resolver(prog)
        import os as _os

        if _os.environ.get("VERIF_SA_NO_KWPOS") != "1" and not getattr(prog, "_kwpos_done", False):
            from .kwargs import positionalise_keywords

            prog.inline_stats["keywords_positioned"] = positionalise_keywords(prog, self.res)
            prog._kwpos_done = True
            self.res = Resolver(prog)  # nothing of the first resolver's caches is kept
        self.flow = ExcFlow(prog, self.res)
        self.flow.compute()
        self.terms = Terms(prog, self.res, self.flow, inline_depth=inline_depth)
        self._profiles: dict[str, ExcFlow] = {}
        self.inline_depth = inline_depth

    # ------------------------------------------------------------------ access
    def func(self, q: str) -> Func:
        return self.prog.func(q)

    def cfg(self, q: str) -> CFG:
        self.prog.func(q)
        return self.flow.cfg(q)

    def flow_with(self, profile: Profile) -> ExcFlow:
        fl = self._profiles.get(profile.name)
        if fl is None:
            fl = ExcFlow(self.prog, self.res, profile)
            fl.compute()
            self._profiles[profile.name] = fl
        return fl

    def stats(self) -> dict:
        nodes = sum(len(c.nodes) for c in self.flow.cfgs.values())
        edges = sum(sum(len(n.succ) for n in c.nodes) for c in self.flow.cfgs.values())
        return {
            "files_parsed": len(self.prog.modules),
            "functions_in_model": len(self.prog.functions),
            "classes_in_model": len(self.prog.classes),
            "cfg_nodes": nodes,
            "cfg_edges": edges,
            "escape_fixpoint_iterations": self.flow.iterations,
            "inline_depth_bound": self.inline_depth,
            "inline_depth_reached": self.terms.max_depth_reached,
            "source_digest": self.prog.digest[:16],
        }

    # ------------------------------------------------------------------ AST queries on CFG nodes
    def calls(self, node: Node) -> Iterable[ast.Call]:
        for e in node.exprs:
            if e is None:
                continue
            for sub in walk_expr(e):
                if isinstance(sub, ast.Call):
                    yield sub

    def callee_names(self, f: Func, call: ast.Call) -> list[str]:
        return self.res.resolve_call(f, call, record=False)

    def nodes_calling(self, cfg: CFG, pred: Callable[[ast.Call, list[str]], bool]) -> list[tuple[Node, ast.Call]]:
        out = []
        for n in cfg.nodes:
            for c in self.calls(n):
                names = self.callee_names(cfg.func, c)
                if pred(c, names):
                    out.append((n, c))
        return out

    def nodes_calling_name(self, cfg: CFG, *suffixes: str) -> list[tuple[Node, ast.Call]]:
        """Nodes containing a call whose resolved callee (or attribute name) ends with one of the suffixes."""

        def pred(c, names):
            for nm in names:
                for s in suffixes:
                    if nm == s or nm.endswith("." + s):
                        return True
            if isinstance(c.func, ast.Attribute) and c.func.attr in suffixes:
                return True
            return False

        return self.nodes_calling(cfg, pred)

    def const(self, f: Func, e: ast.expr, default=None):
        owner = f
        while owner.parent is not None:
            owner = owner.parent
        return self.prog.try_const(e, f.module, owner.cls, default)

    def resolve_name(self, f: Func, e: ast.expr) -> str | None:
        d = dotted(e)
        if d is None:
            return None
        return self.prog.resolve_dotted(f.module, d)

    # ------------------------------------------------------------------ gate machinery
    def normal_out(self, cfg: CFG, n: Node) -> list[tuple]:
        return cfg.out_edges(n, ("n", "T", "F"))

    def edges(self, cfg: CFG, n: Node, label: str) -> list[tuple]:
        return cfg.out_edges(n, (label,))

    def must_pass(
        self,
        rule: str,
        cfg: CFG,
        target: Node | int,
        gate_name: str,
        pass_edges: list[tuple],
        start: int | None = None,
        desc: str | None = None,
        avoid_nodes=(),
    ) -> bool:
        """Every path start(=entry) -> target must traverse one of ``pass_edges``."""
        tid = target if isinstance(target, int) else target.id
        src = cfg.entry.id if start is None else start
        f = cfg.func
        tnode = cfg.nodes[tid]
        d = desc or f"{f.qualname.split('.', 1)[1]}: every path to `{tnode.text()}` passes {gate_name}"
        path = cfg.find_path(src, tid, avoid_edges=pass_edges, avoid_nodes=avoid_nodes)
        loc = f"{f.module.relpath}:{tnode.lineno}"
        if path is None:
            self.ck.holds(rule, d, loc)
            return True
        why = "gate not present in the function" if not pass_edges else "a path avoids it"
        self.ck.violated(
            rule,
            f"{f.module.name}:{f.qualname[len(f.module.name) + 1:]}:{gate_name}->{norm_stmt(tnode.text())}",
            f"{f.qualname[len(f.module.name) + 1:]}: `{tnode.text()}` reachable without passing {gate_name} ({why})",
            loc,
            cfg.render_path(path),
            d,
        )
        return False

    def deref(self, cfg: CFG, node: Node, expr: ast.AST, depth: int = 6):
        """Follow a Name through its unique reaching plain assignment to (defining node, defining expression).
        Anything else (several reaching definitions, a loop/with/unpack target, a parameter) is returned unchanged."""
        du = self.terms.du(cfg)
        cur_node, cur = node, expr
        for _ in range(depth):
            if not isinstance(cur, ast.Name):
                break
            rd = du.reaching(cur_node.id, cur.id)
            if len(rd) != 1 or rd[0][1].kind != "assign" or rd[0][1].path:
                break
            cur_node, cur = cfg.nodes[rd[0][0]], rd[0][1].value
        return cur_node, cur

    def call_path(self, cfg: CFG, node: Node, call: ast.Call) -> str | None:
        """Dotted path of the called function with local aliases resolved by data flow: for
        `t = self.transport; t.close()` -> "self.transport.close"; globals come back fully qualified.
        None when the callee is not a plain attribute chain (a phi of two aliases, a call result ...)."""
        return term_path(self.terms.of(cfg, node, call.func))

    def expr_path(self, cfg: CFG, node: Node, e: ast.AST) -> str | None:
        return term_path(self.terms.of(cfg, node, e))

    def fkey(self, f: Func) -> str:
        return f"{f.module.name}:{f.qualname[len(f.module.name) + 1:]}"

    def loc(self, f: Func, n) -> str:
        return f"{f.module.relpath}:{getattr(n, 'lineno', 0)}"


def term_path(t) -> str | None:
    from .terms import strip_sites

    t = strip_sites(t)
    if t[0] == "param":
        return t[1]
    if t[0] == "glob":
        return t[1]
    if t[0] == "attr":
        base = term_path(t[1])
        return None if base is None else f"{base}.{t[2]}"
    return None


# ---------------------------------------------------------------------- small AST predicates
def is_membership(e: ast.expr):
    """``K in D`` / ``K not in D`` -> (K, D, positive) else None."""
    if isinstance(e, ast.Compare) and len(e.ops) == 1 and isinstance(e.ops[0], (ast.In, ast.NotIn)):
        return e.left, e.comparators[0], isinstance(e.ops[0], ast.In)
    return None


_MIRROR = {"Eq": "Eq", "NotEq": "NotEq", "Lt": "Gt", "Gt": "Lt", "LtE": "GtE", "GtE": "LtE", "Is": "Is", "IsNot": "IsNot"}


def compare_parts(e: ast.expr, left=None):
    """Single comparison -> (left, opname, right) else None.  With ``left`` (a predicate on an operand) the comparison is
    returned oriented so that the operand satisfying it stands on the left (`a < b` read as `b > a` when needed): rules
    say WHICH operand they mean instead of relying on the side it was written on."""
    if isinstance(e, ast.Compare) and len(e.ops) == 1:
        l, op, r = e.left, type(e.ops[0]).__name__, e.comparators[0]
        if left is not None and not left(l) and left(r) and op in _MIRROR:
            return r, _MIRROR[op], l
        return l, op, r
    return None


def names_in(e: ast.AST) -> set[str]:
    return {n.id for n in ast.walk(e) if isinstance(n, ast.Name)}


def sync_closure(ctx: "Context", roots: list[str], max_funcs: int = 400) -> list[str]:
    """Package functions that run synchronously inside the roots (resolved calls; coroutines/generators
    that are merely created - tasks - are not entered)."""
    seen: list[str] = []
    work = list(roots)
    while work and len(seen) < max_funcs:
        q = work.pop()
        if q in seen or q not in ctx.prog.functions:
            continue
        seen.append(q)
        f = ctx.prog.functions[q]
        if isinstance(f.node, ast.Lambda):
            continue
        for n in walk_own(f.node):
            if isinstance(n, ast.Call):
                for cal in ctx.res.resolve_call(f, n, record=False):
                    g = ctx.prog.functions.get(cal)
                    if g is not None and not g.is_async and not g.is_generator and cal not in seen:
                        work.append(cal)
            elif isinstance(n, ast.Attribute) and isinstance(n.ctx, ast.Load):
                # properties of self
                owner = f
                while owner.parent is not None:
                    owner = owner.parent
                if owner.cls is not None and isinstance(n.value, ast.Name) and n.value.id == "self":
                    m = ctx.prog.lookup_method(owner.cls.qualname, n.attr)
                    if m is not None and "property" in m.decorators and m.qualname not in seen:
                        work.append(m.qualname)
    return seen
