"""Entry point:  python -m sa.main C04 [--tier quick|thorough] [--only RULE] [--explain] [--repo DIR]"""

from __future__ import annotations

import argparse
import importlib
import os
import sys
import traceback


def main(argv=None) -> int:
    ap = argparse.ArgumentParser()
    ap.add_argument("prop")
    ap.add_argument("--tier", default=os.environ.get("VERIF_TIER", "quick"))
    ap.add_argument("--only", default=None)
    ap.add_argument("--explain", action="store_true")
    ap.add_argument("--replay", default=None)
    ap.add_argument("--repo", default=os.environ.get("VERIF_REPO", "/repo"))
    args = ap.parse_args(argv)
    prop = args.prop.upper()
    tier = "thorough" if args.tier == "thorough" else "quick"
    try:
        seed = int(os.environ.get("VERIF_SEED", "0") or 0)
    except ValueError:
        seed = 0
    from sa.engine.loader import AnalysisError, Program
    from sa.engine.report import Checker
    from sa.engine.context import Context, TRUSTED_BASE

    only = args.only
    explain = args.explain
    if args.replay:
        import json

        with open(args.replay) as fh:
            only = json.load(fh).get("rule")
        explain = True
    try:
        mod = importlib.import_module(f"sa.rules.{prop.lower()}")
    except ModuleNotFoundError:
        print(f"ANALYSIS-ERROR property={prop}: no rule module")
        return 2
    scratch = os.path.abspath(args.repo) != "/repo"
    ck = Checker(prop, tier, seed, only, explain, scratch=scratch)
    try:
        prog = Program(args.repo)
        ctx = Context(prog, ck, inline_depth=6 if tier == "thorough" else 3)
        ctx.tier = tier
        ctx.seed = seed
        mod.run(ctx)
        if tier == "thorough" and hasattr(mod, "run_thorough"):
            mod.run_thorough(ctx)
        ck.stats.update(ctx.stats())
        rc = ck.finish(mod.EXPLANATION, TRUSTED_BASE + list(getattr(mod, "TRUSTED", [])))
    except AnalysisError as e:
        print(f"ANALYSIS-ERROR property={prop}: {e}")
        return 2
    except Exception:  # noqa: BLE001 - a crash of the analyser is never a verdict
        tb = traceback.format_exc()
        print(f"ANALYSIS-ERROR property={prop}: analyser crashed")
        print(tb)
        return 2
    return rc


if __name__ == "__main__":
    sys.exit(main())
