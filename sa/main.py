"""Entry point:  python -m sa.main C04 [--tier quick|thorough] [--only RULE] [--explain] [--repo DIR]"""

from __future__ import annotations

import argparse
import importlib
import os
import sys
import traceback


def main(argv=None) -> int:
    ap = argparse.ArgumentParser()
    ap.add_argument("prop")
    ap.add_argument("--tier", default=os.environ.get("VERIF_TIER", "quick"))
    ap.add_argument("--only", default=None)
    ap.add_argument("--explain", action="store_true")
    ap.add_argument("--replay", default=None)
    ap.add_argument("--repo", default=os.environ.get("VERIF_REPO", "/repo"))
    args = ap.parse_args(argv)
    prop = args.prop.upper()
    tier = "thorough" if args.tier == "thorough" else "quick"
    try:
        seed = int(os.environ.get("VERIF_SEED", "0") or 0)
    except ValueError:
        seed = 0
    from sa.engine.loader import AnalysisError, Program
    from sa.engine.report import Checker
    from sa.engine.context import Context, TRUSTED_BASE

    only = args.only
    explain = args.explain
    if args.replay:
        import json

        with open(args.replay) as fh:
            only = json.load(fh).get("rule")
        explain = True
    try:
        mod = importlib.import_module(f"sa.rules.{prop.lower()}")
    except ModuleNotFoundError:
        print(f"ANALYSIS-ERROR property={prop}: no rule module")
        return 2
    scratch = os.path.abspath(args.repo) != "/repo"
    ck = Checker(prop, tier, seed, only, explain, scratch=scratch)
    try:
        prog = Program(args.repo)
        ctx = Context(prog, ck, inline_depth=6 if tier == "thorough" else 3)
        ctx.tier = tier
        ctx.seed = seed
        mod.run(ctx)
        if tier == "thorough" and hasattr(mod, "run_thorough"):
            mod.run_thorough(ctx)
        if tier == "thorough" and only is None and not any(i.status == "VIOLATED" for i in ck.instances):
            # self-test of the checker, both ways (DESIGN section 6): seeded breaking variants must be reported by the
            # obligation they name, behaviour-preserving twins must stay silent.  Scratch copies only, analysed never run.
            from sa.selftest import run_selftest

            st = run_selftest(prop, args.repo, seed=seed, verbose=False)
            killed = [v for v in st["variants"] if v[1] == "killed"]
            skipped = [v for v in st["variants"] if v[1] == "skipped"]
            survived = [v for v in st["variants"] if v[1] == "SURVIVED"]
            noisy = [t for t in st["twins"] if t[1] == "NOISY"]
            ck.extra_coverage["selftest"] = {
                "baseline": st["baseline"],
                "variants_applied": len(st["variants"]) - len(skipped),
                "variants_killed": len(killed),
                "variants_skipped": [v[0] for v in skipped],
                "variants_survived": [v[0] for v in survived],
                "twins": [{"kind": t[0], "result": t[1]} for t in st["twins"]],
                "variant_samples": [{"name": v[0], "expected_rule": v[3], "fired": v[2]} for v in killed[:8]],
            }
            for v in survived:
                ck.unknown("selftest", f"seeded breaking variant not detected: {v[0]!r} (expected {v[3]}): {v[2][:200]}")
            for t in noisy:
                ck.unknown("selftest", f"behaviour-preserving twin `{t[0]}` raised an alarm: {t[2][:200]}")
        ck.stats.update(ctx.stats())
        rc = ck.finish(mod.EXPLANATION, TRUSTED_BASE + list(getattr(mod, "TRUSTED", [])))
    except AnalysisError as e:
        print(f"ANALYSIS-ERROR property={prop}: {e}")
        return 2
    except Exception:  # noqa: BLE001 - a crash of the analyser is never a verdict
        tb = traceback.format_exc()
        print(f"ANALYSIS-ERROR property={prop}: analyser crashed")
        print(tb)
        return 2
    return rc


if __name__ == "__main__":
    sys.exit(main())
