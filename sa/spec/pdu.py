"""Frozen HAP PDU layouts (C17).

Written from the HomeKit Accessory Protocol specification R2, chapter 7.3.3 "HAP PDU format" (HAP-BLE) and 7.3.3.5
"HAP PDU fragmentation scheme", chapter 5.5.2/6.5.2 (ChaCha20-Poly1305: 16-byte authentication tag appended to every
separately encrypted message) and from the HAP-over-Thread (CoAP) transport, which carries the same PDUs back to back
with the body length inside the fixed header - not from the code under analysis.

A layout is ``(byte order, field codes)`` in the notation of :mod:`struct`; the tuples next to them name the fields.
"""

LITTLE = "<"

# --- HAP-BLE (7.3.3.1 control field, 7.3.3.2 request, 7.3.3.3 response, 7.3.3.5 continuation) --------------------
# control field: bit 7 = fragmentation (0 first fragment / unfragmented, 1 continuation), bits 6-5 reserved,
# bit 4 = instance-id size (0 = 16 bit), bits 3-1 = PDU type (000 request, 001 response), bit 0 = control length
CONTROL_FRAGMENT_BIT = 0x80
CONTROL_TYPE_MASK = 0x0E
CONTROL_TYPE_REQUEST = 0x00
CONTROL_TYPE_RESPONSE = 0x02

BLE_REQUEST_HEADER = (LITTLE, ("B", "B", "B", "H"))
BLE_REQUEST_FIELDS = ("control", "opcode", "tid", "iid")
BLE_RESPONSE_HEADER = (LITTLE, ("B", "B", "B"))
BLE_RESPONSE_FIELDS = ("control", "tid", "status")
BLE_BODY_LENGTH = (LITTLE, ("H",))  # present only when there is a body; counts the whole body, not the fragment
BLE_CONTINUATION_HEADER = (LITTLE, ("B", "B"))
BLE_CONTINUATION_FIELDS = ("control", "tid")

# every fragment of a secure session is sealed on its own: ciphertext = plaintext + 16-byte Poly1305 tag
AEAD_TAG_LENGTH = 16

# --- HAP over CoAP/Thread: PDUs concatenated in one payload, body length is part of the fixed header ---------------
COAP_REQUEST_HEADER = (LITTLE, ("B", "B", "B", "H", "H"))
COAP_REQUEST_FIELDS = ("control", "opcode", "tid", "iid", "body_length")
COAP_RESPONSE_HEADER = (LITTLE, ("B", "B", "B", "H"))
COAP_RESPONSE_FIELDS = ("control", "tid", "status", "body_length")

# a wire status is one byte; the decoder's own per-item error kinds must lie outside that range
WIRE_STATUS_MAX = 0xFF
