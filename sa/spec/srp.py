"""SRP group oracle, computed - not copied from the repository.

RFC 3526 section 4 (3072-bit MODP group, also RFC 5054 appendix A):
    p = 2^3072 - 2^3008 - 1 + 2^64 * ( floor(2^2942 * pi) + 1690314 ),  generator 2 in IKE, 5 in RFC 5054.
pi is obtained with Machin's formula  pi = 16*atan(1/5) - 4*atan(1/239)  in integer (fixed point) arithmetic with
guard bits, so nothing but Python integers is involved.
"""

from __future__ import annotations

import hashlib
from functools import lru_cache

GENERATOR = 5
KEY_LENGTH = 384


def _atan_inv(x: int, one: int) -> int:
    """atan(1/x) * one, by the alternating series"""
    total = term = one // x
    x2 = x * x
    n = 1
    sign = -1
    while term:
        term //= x2
        n += 2
        total += sign * (term // n)
        sign = -sign
    return total


@lru_cache(maxsize=None)
def pi_floor_times_2pow(bits: int) -> int:
    """floor(2^bits * pi)"""
    guard = 64
    one = 1 << (bits + guard)
    pi = 16 * _atan_inv(5, one) - 4 * _atan_inv(239, one)
    return pi >> guard


@lru_cache(maxsize=None)
def modulus_3072() -> int:
    return (1 << 3072) - (1 << 3008) - 1 + (1 << 64) * (pi_floor_times_2pow(2942) + 1690314)


def k_value(n: int, g: int) -> int:
    nb = n.to_bytes((n.bit_length() + 7) // 8, "big")
    gb = g.to_bytes(len(nb), "big")
    return int.from_bytes(hashlib.sha512(nb + gb).digest(), "big")
