"""Frozen wire form of the controller's HTTP requests (C09).

Written from the repository README ("Contributing": compact JSON, only the headers iOS sends with their casing and
order, a full message per write), RFC 7230 (CRLF line ends, ``Host`` with bracketed IPv6 literal) and HAP R2 6.7.2 /
6.7.4 (``/characteristics?id=<aid>.<iid>,...``; write items ``aid, iid, value``; event registration ``aid, iid, ev``;
MIME types of 6.x / 5.x) - not from the code under analysis.
"""

CRLF = "\r\n"
HTTP_VERSION_SUFFIX = " HTTP/1.1"
HEADER_SEPARATOR = ": "
ENTITY_HEADERS = ("Content-Length", "Content-Type")  # order and casing as sent by iOS
CONTENT_TYPES = {"JSON": "application/hap+json", "TLV": "application/pairing+tlv8"}
HOST_PLAIN = ("Host: ",)  # f"Host: {h}"
HOST_BRACKETED = ("Host: [", "]")  # f"Host: [{h}]" for IPv6 literals
UTF8_NAMES = {"utf-8", "utf8", "UTF-8", "UTF8", "utf_8"}

# orjson option flags that may be combined in the compact encoder (none of them changes whitespace)
ORJSON_ALLOWED_FLAGS = {"orjson.OPT_NON_STR_KEYS"}

CHARACTERISTICS_TARGET = "/characteristics"
READ_URL_PREFIX = "/characteristics?id="
ID_SEPARATOR = ","
AID_IID_SEPARATOR = "."
PAYLOAD_KEY = "characteristics"
WRITE_ITEM_KEYS = ("aid", "iid", "value")
SUBSCRIBE_ITEM_KEYS = ("aid", "iid", "ev")
