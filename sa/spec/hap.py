"""Frozen specification tables (written from the HAP specification R2, not from the repository)."""

# HAP R2 table 5-6 "TLV Values" (pairing TLV types)
TLV_METHOD = 0
TLV_IDENTIFIER = 1
TLV_SALT = 2
TLV_PUBLIC_KEY = 3
TLV_PROOF = 4
TLV_ENCRYPTED_DATA = 5
TLV_STATE = 6
TLV_ERROR = 7
TLV_RETRY_DELAY = 8
TLV_CERTIFICATE = 9
TLV_SIGNATURE = 10
TLV_PERMISSIONS = 11
TLV_FRAGMENT_DATA = 12
TLV_FRAGMENT_LAST = 13
TLV_SESSION_ID = 14
TLV_SEPARATOR = 255

# methods (table 5-3)
METHOD_PAIR_SETUP = 0
METHOD_PAIR_SETUP_WITH_AUTH = 1
METHOD_PAIR_VERIFY = 2
METHOD_ADD_PAIRING = 3
METHOD_REMOVE_PAIRING = 4
METHOD_LIST_PAIRINGS = 5
METHOD_RESUME = 6

# states M1..M6 as one-byte values
M = {k: bytes([k]) for k in range(1, 7)}

# HAP R2 table 5-5 "Error Codes" -> exception class documented by the library
ERROR_TABLE = {
    0x02: "AuthenticationError",
    0x03: "BackoffError",
    0x04: "MaxPeersError",
    0x05: "MaxTriesError",
    0x06: "UnavailableError",
    0x07: "BusyError",
}
ERROR_DEFAULT = "InvalidError"

# HKDF-SHA-512 labels (salt, info) by role - HAP R2 5.6.5/5.6.6/5.7/6.5.2/5.9, HAP-BLE 7.4.7.3, CoAP (Thread) events
HKDF_LABELS = {
    "setup-encrypt": (b"Pair-Setup-Encrypt-Salt", b"Pair-Setup-Encrypt-Info"),
    "setup-controller-sign": (b"Pair-Setup-Controller-Sign-Salt", b"Pair-Setup-Controller-Sign-Info"),
    "setup-accessory-sign": (b"Pair-Setup-Accessory-Sign-Salt", b"Pair-Setup-Accessory-Sign-Info"),
    "verify-encrypt": (b"Pair-Verify-Encrypt-Salt", b"Pair-Verify-Encrypt-Info"),
    "control-write": (b"Control-Salt", b"Control-Write-Encryption-Key"),  # controller -> accessory
    "control-read": (b"Control-Salt", b"Control-Read-Encryption-Key"),  # accessory -> controller
    "event-read": (b"Event-Salt", b"Event-Read-Encryption-Key"),
    "resume-session-id": (b"Pair-Verify-ResumeSessionID-Salt", b"Pair-Verify-ResumeSessionID-Info"),
}
RESUME_REQUEST_INFO = b"Pair-Resume-Request-Info"
RESUME_RESPONSE_INFO = b"Pair-Resume-Response-Info"
RESUME_SHARED_SECRET_INFO = b"Pair-Resume-Shared-Secret-Info"
BROADCAST_KEY_INFO = b"Broadcast-Encryption-Key"

NONCE_PREFIX = b"\x00\x00\x00\x00"
NONCES = {
    "PS-Msg04": NONCE_PREFIX + b"PS-Msg04",
    "PS-Msg05": NONCE_PREFIX + b"PS-Msg05",
    "PS-Msg06": NONCE_PREFIX + b"PS-Msg06",
    "PV-Msg02": NONCE_PREFIX + b"PV-Msg02",
    "PV-Msg03": NONCE_PREFIX + b"PV-Msg03",
    "PR-Msg01": NONCE_PREFIX + b"PR-Msg01",
    "PR-Msg02": NONCE_PREFIX + b"PR-Msg02",
}

# HAP 6.5.2 session security
FRAME_MAX_PLAINTEXT = 1024
FRAME_LENGTH_BYTES = 2
FRAME_TAG_BYTES = 16
