"""Frozen layout of HAP-BLE encrypted broadcast notifications (C18).

Written from the HAP specification R2 (7.4.2.2 "Encrypted Notification Advertisement", 7.4.7.3 "Broadcast Encryption
Key Generation", 7.4.7.4 "Broadcast Encryption", 7.4.1.8 characteristic formats over BLE) and RFC 7539 2.8 (AEAD
construction) - not from the code under analysis.
"""

# manufacturer data (company id 0x004C): TY | STL | advertising id (6) | encrypted payload (12) | truncated tag (4)
APPLE_COMPANY_ID = 76
NOTIFICATION_TYPE = 0x11
ADV_ID_SLICE = (2, 8)  # bytes [2:8]
PAYLOAD_START = 8  # bytes [8:]  (ciphertext followed by the truncated tag)

# AEAD: ChaCha20-Poly1305 keyed with the broadcast key, nonce = GSN, AAD = advertising id, tag truncated to 4 bytes
TAG_BYTES = 4
NONCE_STRUCT = "<LQ"  # 4 zero bytes (L = 0) followed by the 64-bit little-endian counter
NONCE_PREFIX_VALUE = 0
MAC_LENGTH_STRUCT = "<Q"  # RFC 7539 2.8: len(aad) then len(ciphertext), each 64-bit little-endian
STREAM_COUNTER = 1  # block 0 of the key stream is the Poly1305 one-time key, the text starts at block 1

# plaintext: GSN (2, little-endian) | IID (2, little-endian) | value (8)
GSN_SLICE = (0, 2)
IID_SLICE = (2, 4)
VALUE_SLICE = (4, 12)
BYTE_ORDER = "little"
BLE_AID = 1  # a HAP-BLE accessory exposes exactly one accessory object, instance id 1

# broadcast key = HKDF-SHA-512(session shared secret, salt = controller LTPK, info = this label), 32 bytes
BROADCAST_KEY_INFO = b"Broadcast-Encryption-Key"
BROADCAST_KEY_SALT_FIELD = "iOSDeviceLTPK"

# characteristic format -> (struct code without byte-order prefix, size); value field is 8 bytes, little-endian
VALUE_FORMATS = {
    "bool": ("?", 1),
    "uint8": ("B", 1),
    "uint16": ("H", 2),
    "uint32": ("I", 4),
    "uint64": ("Q", 8),
    "int": ("i", 4),
    "float": ("f", 4),  # 32-bit IEEE 754 on BLE
}
STRING_FORMAT = "string"  # UTF-8
STRING_CODECS = {"utf-8", "utf8", "UTF-8", "UTF8", "utf_8"}
# byte-order prefixes that mean little-endian on every supported host ("" / "@" / "=" are native = little-endian on
# x86 and ARM, which is recorded as an assumption); ">" and "!" are wrong.
LITTLE_ENDIAN_PREFIXES = ("", "<", "=", "@")
