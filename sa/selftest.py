"""Self-test of the checker, both ways (DESIGN section 6, step 2).

For every seeded *breaking variant* of a rule module (``VARIANTS``) the current tree is copied to a scratch
directory outside /repo and /verif, the edit is applied, the copy is **analysed - never executed -** and the
expected obligation must be reported as VIOLATED.  Generic *passing twins* (whole-file ``ast.unparse``
re-formatting, renaming of every local of the anchor functions, logging statements inserted after every
simple statement) must stay silent.  A variant whose ``old`` text is no longer present is counted as skipped.
"""

from __future__ import annotations

import ast
import importlib
import io
import os
import shutil
import sys
import tempfile
from concurrent.futures import ProcessPoolExecutor
from contextlib import redirect_stdout


def _copy_tree(repo: str) -> str:
    d = tempfile.mkdtemp(prefix="verif-selftest-")
    shutil.copytree(os.path.join(repo, "aiohomekit"), os.path.join(d, "aiohomekit"),
                    ignore=shutil.ignore_patterns("__pycache__", "*.pyc"))
    return d


def _analyse(prop: str, root: str, tier: str = "quick"):
    from sa.engine.context import Context
    from sa.engine.loader import AnalysisError, Program
    from sa.engine.report import Checker

    mod = importlib.import_module(f"sa.rules.{prop.lower()}")
    ck = Checker(prop, tier, 0, None, False, scratch=True)
    buf = io.StringIO()
    try:
        with redirect_stdout(buf):
            prog = Program(root)
            ctx = Context(prog, ck)
            ctx.tier = tier
            ctx.seed = 0
            mod.run(ctx)
            if tier == "thorough" and hasattr(mod, "run_thorough"):
                mod.run_thorough(ctx)
    except AnalysisError as e:
        return {"status": "analysis-error", "detail": str(e), "rules": []}
    except Exception as e:  # noqa: BLE001
        import traceback

        return {"status": "crash", "detail": traceback.format_exc()[-800:], "rules": []}
    viol = sorted({i.rule for i in ck.instances if i.status == "VIOLATED"})
    known = sorted({i.rule for i in ck.instances if i.status == "KNOWN-FINDING"})
    unk = sorted({i.rule + ": " + i.message for i in ck.instances if i.status == "UNKNOWN"})
    keys = sorted({i.key for i in ck.instances if i.status == "VIOLATED"})
    return {"status": "violated" if viol else ("unknown" if unk else "clean"), "rules": viol, "known": known, "unknown": unk, "keys": keys}


# ---------------------------------------------------------------------- twins
class _RenameLocals(ast.NodeTransformer):
    """Rename every local variable (not parameters, not globals/nonlocals) of every function in a module."""

    def __init__(self, suffix: str):
        self.suffix = suffix

    def _rename_in(self, fn):
        assigned = set()
        banned = set()
        for n in ast.walk(fn):
            if isinstance(n, (ast.Global, ast.Nonlocal)):
                banned.update(n.names)
        params = {a.arg for a in fn.args.posonlyargs + fn.args.args + fn.args.kwonlyargs}
        if fn.args.vararg:
            params.add(fn.args.vararg.arg)
        if fn.args.kwarg:
            params.add(fn.args.kwarg.arg)

        def own(n):
            stack = list(ast.iter_child_nodes(n))
            while stack:
                x = stack.pop()
                yield x
                if isinstance(x, (ast.FunctionDef, ast.AsyncFunctionDef, ast.Lambda, ast.ClassDef)):
                    continue
                stack.extend(ast.iter_child_nodes(x))

        nested_uses = set()
        for n in own(fn):
            if isinstance(n, ast.Name) and isinstance(n.ctx, ast.Store):
                assigned.add(n.id)
            if isinstance(n, ast.ExceptHandler) and n.name:
                banned.add(n.name)
            if isinstance(n, (ast.FunctionDef, ast.AsyncFunctionDef, ast.Lambda, ast.ClassDef)):
                for m in ast.walk(n):
                    if isinstance(m, ast.Name):
                        nested_uses.add(m.id)
                if hasattr(n, "name"):
                    banned.add(n.name)
            if isinstance(n, (ast.ListComp, ast.SetComp, ast.DictComp, ast.GeneratorExp)):
                for g in n.generators:
                    for m in ast.walk(g.target):
                        if isinstance(m, ast.Name):
                            banned.add(m.id)
        todo = assigned - params - banned - nested_uses
        if not todo:
            return
        for n in own(fn):
            if isinstance(n, ast.Name) and n.id in todo:
                n.id = n.id + self.suffix

    def visit_FunctionDef(self, node):
        self.generic_visit(node)
        self._rename_in(node)
        return node

    visit_AsyncFunctionDef = visit_FunctionDef


class _AddLogging(ast.NodeTransformer):
    """Insert a harmless logging call after every simple statement of every function body."""

    def _pad(self, body):
        out = []
        for st in body:
            out.append(st)
            if isinstance(st, (ast.Assign, ast.AugAssign, ast.AnnAssign, ast.Expr)) and not (
                isinstance(st, ast.Expr) and isinstance(st.value, ast.Constant)
            ) and not any(isinstance(x, (ast.Yield, ast.YieldFrom)) for x in ast.walk(st)):
                out.append(ast.parse("logging.getLogger('twin').debug('twin')").body[0])
        return out

    def generic_visit(self, node):
        super().generic_visit(node)
        if isinstance(node, (ast.FunctionDef, ast.AsyncFunctionDef)):
            node.body = self._pad(node.body)
        return node


def _twin_transform(root: str, files: list[str], kind: str, seed: int) -> None:
    for rel in files:
        p = os.path.join(root, rel)
        if not os.path.exists(p):
            continue
        src = open(p, encoding="utf-8").read()
        tree = ast.parse(src)
        if kind == "unparse":
            pass
        elif kind == "rename":
            tree = _RenameLocals(f"_tw{seed}").visit(tree)
        elif kind == "logging":
            tree = _AddLogging().visit(tree)
            # make sure `logging` is importable in the module (analysis only needs the name to resolve)
            tree.body.insert(1 if (tree.body and isinstance(tree.body[0], ast.Expr)) else 0, ast.parse("import logging").body[0])
            # `from __future__` imports must stay first
            fut = [s for s in tree.body if isinstance(s, ast.ImportFrom) and s.module == "__future__"]
            for s in fut:
                tree.body.remove(s)
            doc = [tree.body[0]] if tree.body and isinstance(tree.body[0], ast.Expr) and isinstance(tree.body[0].value, ast.Constant) else []
            rest = tree.body[len(doc):]
            tree.body = doc + fut + rest
        ast.fix_missing_locations(tree)
        open(p, "w", encoding="utf-8").write(ast.unparse(tree) + "\n")


def _run_variant(args):
    prop, repo, v = args
    d = _copy_tree(repo)
    try:
        edits = v.get("edits") or [(v["file"], v["old"], v["new"])]
        for rel, old, new in edits:
            p = os.path.join(d, rel)
            if not os.path.exists(p):
                return (v["name"], "skipped", "file missing", v["expect"])
            src = open(p, encoding="utf-8").read()
            if src.count(old) < 1:
                return (v["name"], "skipped", "anchor text not present", v["expect"])
            src = src.replace(old, new, 1)
            try:
                ast.parse(src)
            except SyntaxError as e:
                return (v["name"], "skipped", f"variant does not parse: {e}", v["expect"])
            open(p, "w", encoding="utf-8").write(src)
        r = _analyse(prop, d)
        exp = v["expect"]
        exps = exp if isinstance(exp, (list, tuple)) else [exp]
        if r["status"] == "violated" and any(e in r["rules"] for e in exps):
            return (v["name"], "killed", ",".join(r["rules"]), exp)
        return (v["name"], "SURVIVED", f"{r['status']} {r.get('rules')} {r.get('unknown', '')} {r.get('detail', '')}", exp)
    finally:
        shutil.rmtree(d, ignore_errors=True)


def _run_twin(args):
    prop, repo, kind, files, seed = args
    d = _copy_tree(repo)
    try:
        _twin_transform(d, files, kind, seed)
        r = _analyse(prop, d)
        if r["status"] == "clean":
            return (kind, "silent", "")
        return (kind, "NOISY", f"{r['status']} {r.get('rules')} {r.get('keys', '')} {r.get('unknown', '')} {r.get('detail', '')}")
    finally:
        shutil.rmtree(d, ignore_errors=True)


def run_selftest(prop: str, repo: str, seed: int = 0, jobs: int = 16, verbose: bool = True) -> dict:
    mod = importlib.import_module(f"sa.rules.{prop.lower()}")
    variants = list(getattr(mod, "VARIANTS", []))
    files = list(getattr(mod, "TWIN_FILES", []))
    # baseline must be clean (known findings allowed), otherwise the self-test says nothing
    base = _analyse(prop, repo)
    res = {"baseline": base["status"], "variants": [], "twins": []}
    if base["status"] != "clean":
        return res
    with ProcessPoolExecutor(max_workers=jobs) as ex:
        vres = list(ex.map(_run_variant, [(prop, repo, v) for v in variants]))
        tres = list(ex.map(_run_twin, [(prop, repo, k, files, seed) for k in ("unparse", "rename", "logging")])) if files else []
    res["variants"] = vres
    res["twins"] = tres
    if verbose:
        for name, st, detail, exp in vres:
            print(f"  variant {name!r}: {st} (expect {exp}) {detail if st != 'killed' else ''}")
        for kind, st, detail in tres:
            print(f"  twin {kind}: {st} {detail}")
    return res


if __name__ == "__main__":
    prop = sys.argv[1].upper()
    repo = sys.argv[2] if len(sys.argv) > 2 else "/repo"
    r = run_selftest(prop, repo)
    bad = [v for v in r["variants"] if v[1] == "SURVIVED"] + [t for t in r["twins"] if t[1] == "NOISY"]
    print(f"{prop}: baseline={r['baseline']} variants={len(r['variants'])} killed={sum(1 for v in r['variants'] if v[1] == 'killed')} "
          f"skipped={sum(1 for v in r['variants'] if v[1] == 'skipped')} survived={sum(1 for v in r['variants'] if v[1] == 'SURVIVED')} "
          f"twins_silent={sum(1 for t in r['twins'] if t[1] == 'silent')}/{len(r['twins'])}")
    sys.exit(2 if bad or r["baseline"] != "clean" else 0)
