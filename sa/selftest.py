"""Self-test of the checker, both ways (DESIGN section 6, step 2).

For every seeded *breaking variant* of a rule module (``VARIANTS``) the current tree is copied to a scratch
directory outside /repo and /verif, the edit is applied, the copy is **analysed - never executed -** and the
expected obligation must be reported as VIOLATED.  Generic *passing twins* - behaviour-preserving rewrites of EVERY file of the package: ``ast.unparse``
re-formatting, renaming of every local, a logging statement after every simple statement, temporaries introduced
for returned expressions and nested calls, ``if c: A else: B`` swapped to ``if not c: B else: A``, and
``else`` branches after a terminating ``if`` flattened / introduced - must stay silent.  A variant whose ``old`` text is no longer present is counted as skipped.
"""

from __future__ import annotations

import ast
import importlib
import io
import os
import shutil
import sys
import tempfile
from concurrent.futures import ProcessPoolExecutor
from contextlib import redirect_stdout


def _copy_tree(repo: str) -> str:
    d = tempfile.mkdtemp(prefix="verif-selftest-")
    shutil.copytree(os.path.join(repo, "aiohomekit"), os.path.join(d, "aiohomekit"),
                    ignore=shutil.ignore_patterns("__pycache__", "*.pyc"))
    return d


def _analyse(prop: str, root: str, tier: str = "quick"):
    from sa.engine.context import Context
    from sa.engine.loader import AnalysisError, Program
    from sa.engine.report import Checker

    mod = importlib.import_module(f"sa.rules.{prop.lower()}")
    ck = Checker(prop, tier, 0, None, False, scratch=True)
    buf = io.StringIO()
    try:
        with redirect_stdout(buf):
            prog = Program(root)
            ctx = Context(prog, ck)
            ctx.tier = tier
            ctx.seed = 0
            mod.run(ctx)
            if tier == "thorough" and hasattr(mod, "run_thorough"):
                mod.run_thorough(ctx)
    except AnalysisError as e:
        return {"status": "analysis-error", "detail": str(e), "rules": []}
    except Exception as e:  # noqa: BLE001
        import traceback

        return {"status": "crash", "detail": traceback.format_exc()[-800:], "rules": []}
    viol = sorted({i.rule for i in ck.instances if i.status == "VIOLATED"})
    known = sorted({i.rule for i in ck.instances if i.status == "KNOWN-FINDING"})
    unk = sorted({i.rule + ": " + i.message for i in ck.instances if i.status == "UNKNOWN"})
    keys = sorted({i.key for i in ck.instances if i.status == "VIOLATED"})
    return {"status": "violated" if viol else ("unknown" if unk else "clean"), "rules": viol, "known": known, "unknown": unk, "keys": keys}


# ---------------------------------------------------------------------- twins
class _RenameLocals(ast.NodeTransformer):
    """Rename every local variable (not parameters, not globals/nonlocals) of every function in a module."""

    def __init__(self, suffix: str):
        self.suffix = suffix

    def _rename_in(self, fn):
        assigned = set()
        banned = set()
        for n in ast.walk(fn):
            if isinstance(n, (ast.Global, ast.Nonlocal)):
                banned.update(n.names)
        params = {a.arg for a in fn.args.posonlyargs + fn.args.args + fn.args.kwonlyargs}
        if fn.args.vararg:
            params.add(fn.args.vararg.arg)
        if fn.args.kwarg:
            params.add(fn.args.kwarg.arg)

        def own(n):
            stack = list(ast.iter_child_nodes(n))
            while stack:
                x = stack.pop()
                yield x
                if isinstance(x, (ast.FunctionDef, ast.AsyncFunctionDef, ast.Lambda, ast.ClassDef)):
                    continue
                stack.extend(ast.iter_child_nodes(x))

        nested_uses = set()
        for n in own(fn):
            if isinstance(n, ast.Name) and isinstance(n.ctx, ast.Store):
                assigned.add(n.id)
            if isinstance(n, ast.ExceptHandler) and n.name:
                banned.add(n.name)
            if isinstance(n, (ast.FunctionDef, ast.AsyncFunctionDef, ast.Lambda, ast.ClassDef)):
                for m in ast.walk(n):
                    if isinstance(m, ast.Name):
                        nested_uses.add(m.id)
                if hasattr(n, "name"):
                    banned.add(n.name)
            if isinstance(n, (ast.ListComp, ast.SetComp, ast.DictComp, ast.GeneratorExp)):
                for g in n.generators:
                    for m in ast.walk(g.target):
                        if isinstance(m, ast.Name):
                            banned.add(m.id)
        todo = assigned - params - banned - nested_uses
        if not todo:
            return
        for n in own(fn):
            if isinstance(n, ast.Name) and n.id in todo:
                n.id = n.id + self.suffix

    def visit_FunctionDef(self, node):
        self.generic_visit(node)
        self._rename_in(node)
        return node

    visit_AsyncFunctionDef = visit_FunctionDef


class _AddLogging(ast.NodeTransformer):
    """Insert a harmless logging call after every simple statement of every function body."""

    def _pad(self, body):
        out = []
        for st in body:
            out.append(st)
            if isinstance(st, (ast.Assign, ast.AugAssign, ast.AnnAssign, ast.Expr)) and not (
                isinstance(st, ast.Expr) and isinstance(st.value, ast.Constant)
            ) and not any(isinstance(x, (ast.Yield, ast.YieldFrom)) for x in ast.walk(st)):
                out.append(ast.parse("logging.getLogger('twin').debug('twin')").body[0])
        return out

    def generic_visit(self, node):
        super().generic_visit(node)
        if isinstance(node, (ast.FunctionDef, ast.AsyncFunctionDef)):
            node.body = self._pad(node.body)
        return node


def _has(node, kinds) -> bool:
    return any(isinstance(x, kinds) for x in ast.walk(node))


class _Temps(ast.NodeTransformer):
    """Introduce temporaries: `return <expr>` -> `t = <expr>; return t`; `x = f(g(y), ...)` -> `t = g(y); x = f(t, ...)`.

    Evaluation order is kept: only the FIRST positional argument is hoisted and only when the callee expression is a plain
    (dotted) name, so nothing that was evaluated before the hoisted call is evaluated after it now."""

    def __init__(self, seed: int):
        self.n = 0
        self.seed = seed

    def _fresh(self):
        self.n += 1
        return f"_tmp{self.seed}_{self.n}"

    @staticmethod
    def _plain(e):
        while isinstance(e, ast.Attribute):
            e = e.value
        return isinstance(e, ast.Name)

    def _split(self, st):
        if isinstance(st, ast.Return) and st.value is not None and not isinstance(st.value, (ast.Name, ast.Constant)) and not _has(st.value, (ast.Yield, ast.YieldFrom, ast.NamedExpr)):
            t = self._fresh()
            return [ast.Assign(targets=[ast.Name(id=t, ctx=ast.Store())], value=st.value), ast.Return(value=ast.Name(id=t, ctx=ast.Load()))]
        if isinstance(st, (ast.Assign, ast.Expr)) and isinstance(st.value, ast.Call):
            c = st.value
            if c.args and isinstance(c.args[0], ast.Call) and self._plain(c.func) and not _has(c.args[0], (ast.Yield, ast.YieldFrom, ast.NamedExpr, ast.Await, ast.Starred)) \
                    and not (isinstance(c.func, ast.Name) and c.func.id in ("super", "isinstance", "len")):
                t = self._fresh()
                inner = c.args[0]
                c.args[0] = ast.Name(id=t, ctx=ast.Load())
                return [ast.Assign(targets=[ast.Name(id=t, ctx=ast.Store())], value=inner), st]
        return [st]

    def _body(self, body):
        out = []
        for st in body:
            out.extend(self._split(st))
        return out

    def generic_visit(self, node):
        super().generic_visit(node)
        if isinstance(node, (ast.ClassDef, ast.Module)):
            return node
        for f in ("body", "orelse", "finalbody"):
            b = getattr(node, f, None)
            if isinstance(b, list) and b and isinstance(b[0], ast.stmt):
                setattr(node, f, self._body(b))
        return node


class _IfSwap(ast.NodeTransformer):
    """`if c: A else: B` -> `if not c: B else: A` (elif chains left alone)."""

    def visit_If(self, node):
        self.generic_visit(node)
        if node.orelse and not (len(node.orelse) == 1 and isinstance(node.orelse[0], ast.If)) and not _has(node.test, (ast.NamedExpr,)):
            node.test = ast.UnaryOp(op=ast.Not(), operand=node.test)
            node.body, node.orelse = node.orelse, node.body
        return node


class _ElseFlat(ast.NodeTransformer):
    """`if c: ...; return/raise/continue/break  else: B` -> `if c: ...` followed by B, and the converse for a
    terminating `if` that is followed by more statements at the end of a function body (`if c: return x; rest` ->
    `if c: return x  else: rest`)."""

    TERM = (ast.Return, ast.Raise, ast.Continue, ast.Break)

    def _flat(self, body, in_function_tail):
        out = []
        i = 0
        while i < len(body):
            st = body[i]
            if isinstance(st, ast.If) and st.orelse and st.body and isinstance(st.body[-1], self.TERM) and not (len(st.orelse) == 1 and isinstance(st.orelse[0], ast.If)):
                rest = st.orelse
                st.orelse = []
                out.append(st)
                out.extend(rest)
            elif in_function_tail and isinstance(st, ast.If) and not st.orelse and st.body and isinstance(st.body[-1], (ast.Return, ast.Raise)) and i + 1 < len(body):
                st.orelse = body[i + 1:]
                out.append(st)
                break
            else:
                out.append(st)
            i += 1
        return out

    def generic_visit(self, node):
        super().generic_visit(node)
        if isinstance(node, (ast.ClassDef, ast.Module)):
            return node
        for f in ("body", "orelse", "finalbody"):
            b = getattr(node, f, None)
            if isinstance(b, list) and b and isinstance(b[0], ast.stmt):
                setattr(node, f, self._flat(b, f == "body" and isinstance(node, (ast.FunctionDef, ast.AsyncFunctionDef))))
        return node


class _CmpFlip(ast.NodeTransformer):
    """`a < b` -> `b > a`, `a == b` -> `b == a` ... for single-operator ordering / equality comparisons."""

    MIRROR = {ast.Eq: ast.Eq, ast.NotEq: ast.NotEq, ast.Lt: ast.Gt, ast.Gt: ast.Lt, ast.LtE: ast.GtE, ast.GtE: ast.LtE}

    def visit_Compare(self, node):
        self.generic_visit(node)
        if len(node.ops) == 1 and type(node.ops[0]) in self.MIRROR and not _has(node, (ast.NamedExpr, ast.Await, ast.Yield, ast.YieldFrom)) \
                and not (_has(node.left, ast.Call) and _has(node.comparators[0], ast.Call)):
            return ast.Compare(left=node.comparators[0], ops=[self.MIRROR[type(node.ops[0])]()], comparators=[node.left])
        return node


class _AugAssign(ast.NodeTransformer):
    """`x += e` -> `x = x + e` for names and plain attribute chains (numbers / immutable values in this package)."""

    def visit_AugAssign(self, node):
        import copy

        t = node.target
        base = t
        while isinstance(base, ast.Attribute):
            base = base.value
        if not isinstance(base, ast.Name) or not isinstance(node.op, (ast.Add, ast.Sub, ast.Mult)):
            return node
        load = copy.deepcopy(t)
        for x in ast.walk(load):
            if hasattr(x, "ctx"):
                x.ctx = ast.Load()
        return ast.Assign(targets=[t], value=ast.BinOp(left=load, op=node.op, right=node.value))


class _Recv(ast.NodeTransformer):
    """Alias an attribute of self that receives a statement-level method call: `self.a.m(x)` -> `t = self.a; t.m(x)`
    (also `v = self.a.m(x)`), the `transport = self.transport` idiom."""

    def __init__(self, seed: int):
        self.n = 0
        self.seed = seed

    def _split(self, st):
        if isinstance(st, (ast.Expr, ast.Assign)) and isinstance(st.value, ast.Call) and isinstance(st.value.func, ast.Attribute):
            recv = st.value.func.value
            if isinstance(recv, ast.Attribute) and isinstance(recv.value, ast.Name) and recv.value.id == "self" and not _has(st, (ast.Yield, ast.YieldFrom, ast.NamedExpr)):
                self.n += 1
                t = f"_recv{self.seed}_{self.n}"
                st.value.func.value = ast.Name(id=t, ctx=ast.Load())
                return [ast.Assign(targets=[ast.Name(id=t, ctx=ast.Store())], value=recv), st]
        return [st]

    def generic_visit(self, node):
        super().generic_visit(node)
        if isinstance(node, (ast.ClassDef, ast.Module)):
            return node
        for f in ("body", "orelse", "finalbody"):
            b = getattr(node, f, None)
            if isinstance(b, list) and b and isinstance(b[0], ast.stmt):
                out = []
                for st in b:
                    out.extend(self._split(st))
                setattr(node, f, out)
        return node


def _twin_transform(root: str, files: list[str], kind: str, seed: int) -> None:
    for rel in files:
        p = os.path.join(root, rel)
        if not os.path.exists(p):
            continue
        src = open(p, encoding="utf-8").read()
        tree = ast.parse(src)
        if kind == "unparse":
            pass
        elif kind == "rename":
            tree = _RenameLocals(f"_tw{seed}").visit(tree)
        elif kind == "temps":
            tree = _Temps(seed).visit(tree)
        elif kind == "ifswap":
            tree = _IfSwap().visit(tree)
        elif kind == "elseflat":
            tree = _ElseFlat().visit(tree)
        elif kind == "cmpflip":
            tree = _CmpFlip().visit(tree)
        elif kind == "augassign":
            tree = _AugAssign().visit(tree)
        elif kind == "recv":
            tree = _Recv(seed).visit(tree)
        elif kind == "logging":
            tree = _AddLogging().visit(tree)
            # make sure `logging` is importable in the module (analysis only needs the name to resolve)
            tree.body.insert(1 if (tree.body and isinstance(tree.body[0], ast.Expr)) else 0, ast.parse("import logging").body[0])
            # `from __future__` imports must stay first
            fut = [s for s in tree.body if isinstance(s, ast.ImportFrom) and s.module == "__future__"]
            for s in fut:
                tree.body.remove(s)
            doc = [tree.body[0]] if tree.body and isinstance(tree.body[0], ast.Expr) and isinstance(tree.body[0].value, ast.Constant) else []
            rest = tree.body[len(doc):]
            tree.body = doc + fut + rest
        ast.fix_missing_locations(tree)
        open(p, "w", encoding="utf-8").write(ast.unparse(tree) + "\n")


def _run_variant(args):
    prop, repo, v = args
    d = _copy_tree(repo)
    try:
        edits = v.get("edits") or [(v["file"], v["old"], v["new"])]
        for rel, old, new in edits:
            p = os.path.join(d, rel)
            if not os.path.exists(p):
                return (v["name"], "skipped", "file missing", v["expect"])
            src = open(p, encoding="utf-8").read()
            if src.count(old) < 1:
                return (v["name"], "skipped", "anchor text not present", v["expect"])
            src = src.replace(old, new, 1)
            try:
                ast.parse(src)
            except SyntaxError as e:
                return (v["name"], "skipped", f"variant does not parse: {e}", v["expect"])
            open(p, "w", encoding="utf-8").write(src)
        r = _analyse(prop, d)
        exp = v["expect"]
        exps = exp if isinstance(exp, (list, tuple)) else [exp]
        if r["status"] == "violated" and any(e in r["rules"] for e in exps):
            return (v["name"], "killed", ",".join(r["rules"]), exp)
        return (v["name"], "SURVIVED", f"{r['status']} {r.get('rules')} {r.get('unknown', '')} {r.get('detail', '')}", exp)
    finally:
        shutil.rmtree(d, ignore_errors=True)


TWIN_KINDS = ("unparse", "rename", "logging", "temps", "ifswap", "elseflat", "augassign", "recv", "cmpflip")


def _package_files(root: str) -> list[str]:
    out = []
    for dp, _dn, fn in os.walk(os.path.join(root, "aiohomekit")):
        for x in fn:
            if x.endswith(".py"):
                out.append(os.path.relpath(os.path.join(dp, x), root))
    return sorted(out)


def _run_twin(args):
    prop, repo, kind, files, seed = args
    d = _copy_tree(repo)
    try:
        _twin_transform(d, _package_files(d), kind, seed)
        r = _analyse(prop, d)
        if r["status"] == "clean":
            return (kind, "silent", "")
        return (kind, "NOISY", f"{r['status']} {r.get('rules')} {r.get('keys', '')} {r.get('unknown', '')} {r.get('detail', '')}")
    finally:
        shutil.rmtree(d, ignore_errors=True)


def run_selftest(prop: str, repo: str, seed: int = 0, jobs: int = 16, verbose: bool = True) -> dict:
    mod = importlib.import_module(f"sa.rules.{prop.lower()}")
    variants = list(getattr(mod, "VARIANTS", []))
    files = list(getattr(mod, "TWIN_FILES", []))
    # baseline must be clean (known findings allowed), otherwise the self-test says nothing
    base = _analyse(prop, repo)
    res = {"baseline": base["status"], "variants": [], "twins": []}
    if base["status"] != "clean":
        return res
    with ProcessPoolExecutor(max_workers=jobs) as ex:
        vres = list(ex.map(_run_variant, [(prop, repo, v) for v in variants]))
        tres = list(ex.map(_run_twin, [(prop, repo, k, files, seed) for k in TWIN_KINDS]))
    res["variants"] = vres
    res["twins"] = tres
    if verbose:
        for name, st, detail, exp in vres:
            print(f"  variant {name!r}: {st} (expect {exp}) {detail if st != 'killed' else ''}")
        for kind, st, detail in tres:
            print(f"  twin {kind}: {st} {detail}")
    return res


if __name__ == "__main__":
    prop = sys.argv[1].upper()
    repo = sys.argv[2] if len(sys.argv) > 2 else "/repo"
    r = run_selftest(prop, repo)
    bad = [v for v in r["variants"] if v[1] == "SURVIVED"] + [t for t in r["twins"] if t[1] == "NOISY"]
    print(f"{prop}: baseline={r['baseline']} variants={len(r['variants'])} killed={sum(1 for v in r['variants'] if v[1] == 'killed')} "
          f"skipped={sum(1 for v in r['variants'] if v[1] == 'skipped')} survived={sum(1 for v in r['variants'] if v[1] == 'SURVIVED')} "
          f"twins_silent={sum(1 for t in r['twins'] if t[1] == 'silent')}/{len(r['twins'])}")
    sys.exit(2 if bad or r["baseline"] != "clean" else 0)
