#!/venv/bin/python
"""Copy confirmed seeds into /verif/seeded/<prop>-<k>/ with meta.json extended by what was run and what detected it."""
import glob, json, os, shutil, sys
# usage: import_seeds.py [--offset N] <jsonl...>   (--offset: seed k of a later batch is stored as <prop>-<k+N>, never over an earlier one)
args = sys.argv[1:]
offset = 0
if args and args[0] == "--offset":
    offset = int(args[1])
    args = args[2:]
res = {}
for fn in args:
    for l in open(fn):
        try:
            d = json.loads(l)
        except Exception:
            continue
        key = d["seed"]
        res.setdefault(key, {}).update(d)
for seed, d in sorted(res.items()):
    prop = d["property"]
    k = os.path.basename(seed)
    if offset:
        k = str(int(k) + offset)
    dst = f"/verif/seeded/{prop}-{k}"
    if offset and os.path.exists(dst):
        print("EXISTS, not overwritten", dst)
        continue
    kind = "faulty"
    try:
        kind = json.load(open(os.path.join(seed, "meta.json"))).get("kind", "faulty")
    except Exception:
        pass
    if kind == "benign":
        # a behaviour-preserving refactoring: its regression demo passes with and without the change, the suite passes,
        # and it is kept as a negative example (every check must stay silent on it)
        confirmed = d.get("demo_clean_passes") and not d.get("demo_patched_fails") and d.get("patch_applies") and d.get("compiles")
        dst = f"/verif/seeded/benign/{prop}-b{k}"
        if os.path.exists(dst):
            print("EXISTS, not overwritten", dst)
            continue
    else:
        confirmed = d.get("demo_clean_passes") and d.get("demo_patched_fails") and d.get("patch_applies") and d.get("compiles")
    suite = d.get("suite", "")
    if confirmed and suite and "failed" in suite:
        print("SUITE NOT GREEN", seed, suite)
        continue
    if not confirmed:
        print("NOT CONFIRMED", seed, {x: d.get(x) for x in ("demo_clean_passes", "demo_patched_fails", "patch_applies", "compiles")})
        continue
    os.makedirs(dst, exist_ok=True)
    for f in glob.glob(os.path.join(seed, "*")):
        if os.path.isfile(f):
            shutil.copy(f, dst)
    meta = {}
    mp = os.path.join(dst, "meta.json")
    if os.path.exists(mp):
        try:
            meta = json.load(open(mp))
        except Exception:
            meta = {"raw_meta_unparsable": True}
    meta["property"] = prop
    meta["kind"] = kind
    meta["confirmed_by_me"] = {
        "ran": "tools/seedcheck.py (scratch git worktree of /repo HEAD under /tmp, removed afterwards): demo on the clean worktree, "
        "git apply patch.diff, compileall, demo again, the 229-test suite in a private network namespace, then ./check <all 20> --repo <worktree>",
        "demo_on_clean_tree": "pass",
        "demo_with_patch": "pass (behaviour-preserving change)" if kind == "benign" else "fail",
        "suite_with_patch": suite or "not run yet",
    }
    meta["checks_that_fire"] = {p: v for p, v in d.get("fired", {}).items()}
    meta["detected_by_own_property"] = d.get("detected_by_own_property")
    json.dump(meta, open(mp, "w"), indent=1)
    if kind == "benign":
        print("imported benign", dst, "SILENT" if not d.get("fired") else f"NOISY {d.get('fired')}", suite)
    else:
        print("imported", dst, "own" if d.get("detected_by_own_property") else "NOT-OWN", suite)
