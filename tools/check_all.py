#!/venv/bin/python
"""All 20 quick checks against one scratch tree, parsing it once: tools/check_all.py --repo DIR [C01 C02 ..]

The package is loaded and normalised once; every property is then decided in a forked child of its own (fresh Context,
Checker and caches - exactly what `./check CNN --repo DIR` does after loading), so the verdicts are those of the single
checks.  Used by the seed matrix, where 20 separate loads per seed are most of the cost.  Prints one JSON line:
{"C01": {"exit": 0, "rules": [...]}, ...}.  Scratch trees only (nothing is written under /verif).
"""
import importlib
import io
import json
import os
import sys

ROOT = os.path.dirname(os.path.dirname(os.path.abspath(__file__)))
sys.path.insert(0, ROOT)
os.chdir(ROOT)


def main() -> int:
    args = sys.argv[1:]
    repo = args[args.index("--repo") + 1]
    props = [a for a in args if a.startswith("C") and len(a) == 3] or [f"C{i:02d}" for i in range(1, 21)]
    if os.path.abspath(repo) == "/repo":
        print("check_all.py is for scratch trees", file=sys.stderr)
        return 2
    from sa.engine.context import TRUSTED_BASE, Context
    from sa.engine.loader import AnalysisError, Program
    from sa.engine.report import Checker

    try:
        prog = Program(repo)
    except AnalysisError as e:
        print(json.dumps({p: {"exit": 2, "rules": [], "out": f"ANALYSIS-ERROR property={p}: {e}"} for p in props}))
        return 0
    # graphs, resolver and exception flow are built once as well (they depend on the tree only); each child gets a copy of the
    # context with a checker of its own
    import copy

    try:
        base = Context(prog, Checker(props[0], "quick", 0, None, False, scratch=True), inline_depth=3)
    except AnalysisError as e:
        print(json.dumps({p: {"exit": 2, "rules": [], "out": f"ANALYSIS-ERROR property={p}: {e}"} for p in props}))
        return 0
    except Exception:  # noqa: BLE001
        import traceback

        tb = traceback.format_exc()
        print(json.dumps({p: {"exit": 2, "rules": [], "out": f"ANALYSIS-ERROR property={p}: analyser crashed\n{tb}"} for p in props}))
        return 0
    res = {}
    for p in props:
        r, w = os.pipe()
        pid = os.fork()
        if pid == 0:
            os.close(r)
            buf = io.StringIO()
            sys.stdout = buf
            rc = 2
            try:
                mod = importlib.import_module(f"sa.rules.{p.lower()}")
                ck = Checker(p, "quick", 0, None, False, scratch=True)
                ctx = copy.copy(base)
                ctx.ck = ck
                ctx._profiles = {}
                ctx.tier, ctx.seed = "quick", 0
                mod.run(ctx)
                ck.stats.update(ctx.stats())
                rc = ck.finish(mod.EXPLANATION, TRUSTED_BASE + list(getattr(mod, "TRUSTED", [])))
            except AnalysisError as e:
                print(f"ANALYSIS-ERROR property={p}: {e}")
            except BaseException:  # noqa: BLE001
                import traceback

                print(f"ANALYSIS-ERROR property={p}: analyser crashed")
                print(traceback.format_exc())
            with os.fdopen(w, "w") as fh:
                fh.write(json.dumps({"exit": rc, "out": buf.getvalue()}))
            os._exit(0)
        os.close(w)
        with os.fdopen(r) as fh:
            data = fh.read()
        os.waitpid(pid, 0)
        try:
            d = json.loads(data)
        except ValueError:
            d = {"exit": 2, "out": "ANALYSIS-ERROR: child died"}
        out = d["out"]
        d["rules"] = sorted({l.split("rule ")[1].split(":")[0] for l in out.splitlines() if l.strip().startswith("rule ")})
        res[p] = d
    print(json.dumps(res))
    return 0


if __name__ == "__main__":
    sys.exit(main())
