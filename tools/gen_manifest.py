#!/venv/bin/python
"""Regenerates MANIFEST.json from the rule modules' own MANIFEST metadata (keeps it valid at all times)."""
import importlib
import json
import os
import sys

HERE = os.path.dirname(os.path.dirname(os.path.abspath(__file__)))
sys.path.insert(0, HERE)

props = [json.loads(l) for l in open(os.path.join(HERE, "properties.jsonl"))]
checks, na = [], []
for p in props:
    pid = p["id"]
    try:
        mod = importlib.import_module(f"sa.rules.{pid.lower()}")
        meta = getattr(mod, "MANIFEST", None)
    except ModuleNotFoundError:
        mod, meta = None, None
    reviewed = json.load(open(os.path.join(HERE, "tools", "claimed.json")))
    if pid not in reviewed:
        meta = None
    if not meta:
        na.append({"property_id": pid, "reason": "rule module not completed yet (static-analysis family; see DESIGN.md section 5)"})
        continue
    checks.append(
        {
            "property_id": pid,
            "quick_cmd": f"./check {pid} --tier quick",
            "thorough_cmd": f"./check {pid} --tier thorough",
            "evidence_file": f"/verif/evidence/{pid}.json",
            "replay_cmd_template": f"./check {pid} --replay {{path}}",
            "engine": "sa",
            "level_claimed": {
                "category": "other",
                "text": meta["level_text"],
                "design_ref": meta.get("design_ref", f"DESIGN.md section 5, {pid}"),
            },
            "level_note": meta["level_note"],
            "technique": meta["technique"],
        }
    )
extra_na = os.path.join(HERE, "tools", "not_applicable.json")
if os.path.exists(extra_na):
    for e in json.load(open(extra_na)):
        na = [x for x in na if x["property_id"] != e["property_id"]] + [e]
man = {
    "version": 1,
    "setup_cmd": "true",
    "hooks": {
        "guard": "JC2K_AIOHOMEKIT_VERIF",
        "enable": "none needed: the checks parse /repo's working tree with ast and never import or run it; no hook commit exists",
        "baseline_off_cmd": "cd /repo && /venv/bin/python -m pytest -ra -q -p no:cacheprovider --timeout=900 --continue-on-collection-errors",
        "source_commits": [],
        "add_only": True,
    },
    "engines": [
        {
            "name": "sa",
            "path": "/verif/sa",
            "serves_properties": [c["property_id"] for c in checks],
            "kind_free_text": "repository-specific static analyser (stdlib ast only): program model with class-hierarchy call "
            "resolution, statement-level CFGs with exception edges and per-exit finally copies, inter-procedural "
            "exception escape fix-point, reaching-definitions/term provenance with value numbering, constant "
            "propagation through decision functions, who-may-write sweeps; rules in sa/rules/cNN.py compare against "
            "frozen specification tables in sa/spec/",
        }
    ],
    "checks": checks,
    "notes": "Static analysis family only. Every check parses /repo's current working tree on each run (no cache across runs), "
    "reports file:line + witness path for violations, exit 2 + ANALYSIS-ERROR when an anchor vanished or a shape is not "
    "recognised (never a silent pass). Known findings: /verif/known_findings.json. See DESIGN.md.",
    "not_applicable": na,
}
json.dump(man, open(os.path.join(HERE, "MANIFEST.json"), "w"), indent=1)
print(f"claimed {len(checks)}, not_applicable {len(na)}")
