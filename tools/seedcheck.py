#!/venv/bin/python
"""Confirm a seeded change and run the checks against it, in a scratch worktree (never in /repo).

usage: tools/seedcheck.py <property> <seed-dir> [--suite]
  1. scratch worktree of /repo HEAD under /tmp; demo must PASS on it
  2. apply patch.diff; demo must FAIL; (--suite) the existing suite must still pass (run in a private network namespace)
  3. ./check <every property> --repo <worktree>: which obligations fire
  4. remove the worktree
Prints one JSON line.
"""
import glob
import json
import os
import shutil
import subprocess
import sys
import tempfile

prop, seed = sys.argv[1], os.path.abspath(sys.argv[2])
do_suite = "--suite" in sys.argv
wt = tempfile.mkdtemp(prefix=f"seedchk_{prop}_")
os.rmdir(wt)
res = {"property": prop, "seed": seed}


def run(cmd, cwd=None, timeout=1500):
    p = subprocess.run(cmd, cwd=cwd, shell=isinstance(cmd, str), capture_output=True, text=True, timeout=timeout)
    return p.returncode, (p.stdout + p.stderr)


try:
    rc, out = run(["git", "-C", "/repo", "worktree", "add", "--detach", wt, "HEAD"])
    if rc != 0:
        res["error"] = "worktree: " + out[-300:]
        print(json.dumps(res))
        sys.exit(0)
    demos = sorted(glob.glob(os.path.join(seed, "demo*.py")))
    if not demos:
        res["error"] = "no demo"
    demo = demos[0] if demos else None
    ddir = os.path.join(wt, "_demo")
    os.makedirs(ddir)
    if demo:
        shutil.copy(demo, ddir)

    def run_demo():
        name = os.path.basename(demo)
        if name.startswith("demo_test") or name.endswith("_test.py"):
            cmd = f"cd {wt} && unshare -n -r sh -c 'ip link set lo up 2>/dev/null; /venv/bin/python -m pytest -q -p no:cacheprovider --timeout=300 -x _demo/{name}' 2>&1 | tail -5"
        else:
            cmd = f"cd {wt} && unshare -n -r sh -c 'ip link set lo up 2>/dev/null; /venv/bin/python _demo/{name}'; echo EXIT=$?"
        rc, out = run(cmd)
        ok = (" passed" in out and " failed" not in out and "error" not in out.lower().split("warnings")[0][-200:]) if "pytest" in cmd else "EXIT=0" in out
        return ok, out[-400:]

    if demo:
        ok, out = run_demo()
        res["demo_clean_passes"] = ok
        if not ok:
            res["demo_clean_out"] = out
    rc, out = run(["git", "-C", wt, "apply", os.path.join(seed, "patch.diff")])
    res["patch_applies"] = rc == 0
    if rc != 0:
        res["apply_out"] = out[-300:]
    else:
        rc, out = run(f"cd {wt} && /venv/bin/python -m compileall -q aiohomekit >/dev/null && echo COMPILED")
        res["compiles"] = "COMPILED" in out
        if demo:
            ok, out = run_demo()
            res["demo_patched_fails"] = not ok
            res["demo_patched_out"] = out[-200:]
        if do_suite:
            cmd = f"cd {wt} && unshare -n -r sh -c 'ip link set lo up 2>/dev/null; /venv/bin/python -m pytest -q -p no:cacheprovider --timeout=900 --ignore=_demo --ignore=seeds' 2>&1 | grep -E ' passed| failed| error' | tail -1"
            rc, out = run(cmd)
            if " failed" in out or " error" in out:
                # tests/test_ip_discovery.py is flaky under load: one more try before the seed is judged
                res["suite_first_try"] = out.strip()[-120:]
                rc, out = run(cmd)
            res["suite"] = out.strip()[-120:]
        fired = {}
        root = os.path.dirname(os.path.dirname(os.path.abspath(__file__)))  # the checkout this script belongs to
        # all 20 quick checks with one load of the tree (tools/check_all.py: the same rules, a forked child per property)
        rc, out = run(["/venv/bin/python", "-B", os.path.join(root, "tools", "check_all.py"), "--repo", wt], cwd=root)
        try:
            allres = json.loads(out.strip().splitlines()[-1])
        except Exception:  # noqa: BLE001
            allres = {}
            res["check_all_error"] = out[-300:]
        for p_, v in sorted(allres.items()):
            if v["exit"] != 0:
                fired[p_] = {"rc": v["exit"], "rules": v["rules"], "errors": [l[:160] for l in v["out"].splitlines() if "ANALYSIS-ERROR" in l][:3]}
        res["fired"] = fired
        res["detected_by_own_property"] = fired.get(prop, {}).get("rc") == 1
        res["detected_by_any"] = any(v.get("rc") == 1 for v in fired.values())
finally:
    subprocess.run(["git", "-C", "/repo", "worktree", "remove", "--force", wt], capture_output=True)
    shutil.rmtree(wt, ignore_errors=True)
print(json.dumps(res))
