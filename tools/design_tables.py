#!/venv/bin/python
"""Regenerate the generated tables of DESIGN.md (between the BEGIN/END markers) from /verif/seeded.

  <!-- SEED-TABLE-BEGIN --> ... <!-- SEED-TABLE-END -->   one row per kept seeded change: what it changes, which obligations fire
"""
import glob, json, os, re

rows = []
for sd in sorted(x for x in glob.glob("/verif/seeded/C*-*") if os.path.isdir(x)):
    name = os.path.basename(sd)
    meta = json.load(open(os.path.join(sd, "meta.json")))
    prop = name.split("-")[0]
    fired = meta.get("checks_that_fire", {})
    own = ", ".join(r.split(".")[1] for r in fired.get(prop, {}).get("rules", [])) or "–"
    if not meta.get("detected_by_own_property"):
        own = "**missed**"
    others = "; ".join(", ".join(v["rules"]) for k, v in sorted(fired.items()) if k != prop and v.get("exit") == 1) or ""
    title = re.sub(r"\s+", " ", meta["title"]).replace("|", "/")
    if len(title) > 150:
        title = title[:147] + "…"
    rows.append(f"| {name} | {title} | {own} | {others} |")

table = "\n".join(["| seed | change (suite still 229/229; own demonstration fails with it, passes without) | own property: obligations that fire | other properties that fire |", "|---|---|---|---|"] + rows)
p = "/verif/DESIGN.md"
s = open(p).read()
s2 = re.sub(r"(<!-- SEED-TABLE-BEGIN -->\n).*?(<!-- SEED-TABLE-END -->)", lambda m: m.group(1) + table + "\n" + m.group(2), s, flags=re.S)
# benign table
brow = []
mx = {}
try:
    mx = json.load(open("/verif/seeded/MATRIX.json"))
except Exception:
    pass
for sd in sorted(x for x in glob.glob("/verif/seeded/benign/C*-*") if os.path.isdir(x)):
    name = os.path.basename(sd)
    meta = json.load(open(os.path.join(sd, "meta.json")))
    r = mx.get("benign/" + name, {})
    fired = r.get("fired", {})
    if "error" in r:
        verdict = "patch no longer applies"
    elif not fired:
        verdict = "silent"
    else:
        verdict = "; ".join(f"{p}: " + ("**VIOLATION** " + ",".join(v.get("rules", [])) if v.get("exit") == 1 else "not decided (exit 2)") for p, v in sorted(fired.items()))
    title = re.sub(r"\s+", " ", meta.get("title", "")).replace("|", "/")
    if len(title) > 150:
        title = title[:147] + "…"
    brow.append(f"| {name} | {title} | {verdict} |")
btable = "\n".join(["| behaviour-preserving change | what it does | checks on it |", "|---|---|---|"] + brow)
s3 = re.sub(r"(<!-- BENIGN-TABLE-BEGIN -->\n).*?(<!-- BENIGN-TABLE-END -->)", lambda m: m.group(1) + btable + "\n" + m.group(2), s2, flags=re.S)
open(p, "w").write(s3)
print(len(rows), "rows", len(brow), "benign rows", "updated" if s3 != s else "unchanged")
