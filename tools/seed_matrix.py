#!/venv/bin/python
"""Run every check against every kept seed (scratch copies under /tmp, removed at once) and record which obligations fire.

Writes /verif/seeded/MATRIX.json and refreshes `checks_that_fire` / `detected_by_own_property` in each meta.json.
"""
import glob, json, os, shutil, subprocess, sys, tempfile
from concurrent.futures import ThreadPoolExecutor

PROPS = [f"C{i:02d}" for i in range(1, 21)]
# the checkout whose checks are run (a development worktree measures itself against /verif/seeded without recording anything)
ROOT = os.path.dirname(os.path.dirname(os.path.abspath(__file__)))
RECORD = ROOT == "/verif"
JOBS = int(os.environ.get("SEED_MATRIX_JOBS", "12"))


def one(sd):
    name = os.path.basename(sd)
    prop = name.split("-")[0]
    d = tempfile.mkdtemp(prefix="seedmx_")
    try:
        shutil.copytree("/repo/aiohomekit", os.path.join(d, "aiohomekit"), ignore=shutil.ignore_patterns("__pycache__"))
        r = subprocess.run(["patch", "-p1", "-s", "-i", os.path.join(sd, "patch.diff")], cwd=d, capture_output=True, text=True)
        if r.returncode != 0:
            return name, {"error": "patch does not apply on the current tree: " + (r.stdout + r.stderr)[-200:]}
        fired = {}
        # all 20 quick checks with one load of the scratch tree (tools/check_all.py: the rules and verdicts of `./check CNN
        # --repo DIR`, each property decided in a forked child of its own)
        r = subprocess.run(["/venv/bin/python", "-B", os.path.join(ROOT, "tools", "check_all.py"), "--repo", d], cwd=ROOT, capture_output=True, text=True)
        try:
            allres = json.loads(r.stdout.strip().splitlines()[-1])
        except Exception:  # noqa: BLE001
            return name, {"error": "check_all failed: " + (r.stdout + r.stderr)[-200:]}
        for p in PROPS:
            v = allres.get(p, {"exit": 2, "rules": []})
            if v["exit"] != 0:
                fired[p] = {"exit": v["exit"], "rules": v["rules"]}
        return name, {"property": prop, "fired": fired, "own": fired.get(prop, {}).get("exit") == 1}
    finally:
        shutil.rmtree(d, ignore_errors=True)


seeds = sorted(x for x in glob.glob("/verif/seeded/C*-*") if os.path.isdir(x))
benign = sorted(x for x in glob.glob("/verif/seeded/benign/C*-*") if os.path.isdir(x))
with ThreadPoolExecutor(max_workers=JOBS) as ex:
    res = dict(ex.map(one, seeds))
with ThreadPoolExecutor(max_workers=JOBS) as ex:
    bres = dict(ex.map(one, benign))
noisy = []
for name, r in sorted(bres.items()):
    r["benign"] = True
    if r.get("fired") or "error" in r:
        noisy.append(name)
    print("benign", name, "SILENT" if not r.get("fired") and "error" not in r else f"NOISY {r}")
res_all = dict(res)
res_all.update({"benign/" + k: v for k, v in bres.items()})
json.dump(res_all, open("/verif/seeded/MATRIX.json" if RECORD else "/tmp/matrix_dev.json", "w"), indent=1, sort_keys=True)
missed = []
for name, r in sorted(res.items()):
    mp = f"/verif/seeded/{name}/meta.json"
    if "error" in r:
        print(name, r["error"])
        continue
    if RECORD:
        meta = json.load(open(mp))
        meta["checks_that_fire"] = r["fired"]
        meta["detected_by_own_property"] = r["own"]
        json.dump(meta, open(mp, "w"), indent=1)
    others = {k: v["rules"] for k, v in r["fired"].items() if k != r["property"]}
    print(name, "OWN" if r["own"] else "MISSED-BY-OWN", r["fired"].get(r["property"], {}).get("rules"), "also:", others)
    if not r["own"]:
        missed.append(name)
print("seeds", len(res), "missed by own property:", missed, "| benign changes", len(bres), "noisy:", noisy)
