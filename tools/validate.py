#!/usr/bin/env python3-vt
"""Validate MANIFEST.json and evidence files against the given schemas (tooling venv has jsonschema)."""
import glob, json, sys
import jsonschema
ok = True
m = json.load(open('/verif/MANIFEST.json'))
jsonschema.validate(m, json.load(open('/root/.vp/MANIFEST.schema.json')))
es = json.load(open('/root/.vp/EVIDENCE.schema.json'))
for f in sorted(glob.glob('/verif/evidence/*.json')):
    try:
        jsonschema.validate(json.load(open(f)), es)
    except Exception as e:
        ok = False
        print("INVALID", f, str(e)[:300])
ids = {c['property_id'] for c in m['checks']} | {c['property_id'] for c in m.get('not_applicable', [])}
print("manifest ok; properties covered:", len(ids), "valid evidence:", ok)
sys.exit(0 if ok else 1)
