import json,re
M=json.load(open('/verif/seeded/MATRIX.json'))
batches={
 "BATCH4":(lambda k: k in (7,8), lambda b: b in (9,10)),
 "BATCH5":(lambda k: False, lambda b: b in (11,12,13)),
 "BATCH6":(lambda k: k in (9,10), lambda b: b in (14,15)),
 "BATCH7":(lambda k: k==11, lambda b: b in (16,17,18)),
 "BATCH8":(lambda k: k==12, lambda b: b in (19,20,21)),
 "BATCH9":(lambda k: k==13, lambda b: b in (22,23,24)),
}
def stats(fk,bk):
    F=own=e2=miss=0; B=sil=be2=bv=0; missed=[]; viol=[]; und=[]
    for name,r in M.items():
        if 'error' in r: continue
        if name.startswith('benign/'):
            m=re.match(r'benign/(C\d\d)-b(\d+)$',name)
            if not m or not bk(int(m.group(2))): continue
            B+=1
            fired=r.get('fired',{})
            if any(v['exit']==1 for v in fired.values()): bv+=1; viol.append(name[7:])
            elif fired: be2+=1
            else: sil+=1
        else:
            m=re.match(r'(C\d\d)-(\d+)$',name)
            if not m or not fk(int(m.group(2))): continue
            F+=1
            ex=r.get('fired',{}).get(m.group(1),{}).get('exit',0)
            if ex==1: own+=1
            elif ex==2: e2+=1; und.append(name)
            else: miss+=1; missed.append(name)
    return F,own,e2,miss,B,sil,be2,bv,missed,viol,und
s=open('/verif/DESIGN.md').read()
for b,(fk,bk) in batches.items():
    F,own,e2,miss,B,sil,be2,bv,missed,viol,und=stats(fk,bk)
    txt=f"*State of this batch in the last recorded matrix (`seeded/MATRIX.json`):* "
    if F: txt+=f"faulty {F}: reported by their own property {own}, not decided {e2}" + (f" ({', '.join(und)})" if und and len(und)<=8 else "") + f", missed {miss}" + (f" ({', '.join(missed)}: reported by another property)" if missed else "") + "; "
    txt+=f"behaviour-preserving {B}: silent {sil}, not decided (exit 2) {be2}, reported {bv}" + (f" ({', '.join(viol)}: the by-design re-report of the CoAP counter rewind, see batch 7)" if viol else "") + "."
    marker=f"<!-- {b}-STATE -->"
    # replace marker and any previously generated line following it
    s=re.sub(re.escape(marker)+r"(\n\*State of this batch[^\n]*\n)?", marker+"\n"+txt+"\n", s, count=1)
open('/verif/DESIGN.md','w').write(s)
F,own,e2,miss,B,sil,be2,bv,missed,viol,und=stats(lambda k:True, lambda b:True)
print("ALL faulty",F,own,e2,miss,"benign",B,sil,be2,bv,missed,viol)

# headline
F,own,e2,miss,B,sil,be2,bv,missed,viol,und=stats(lambda k:True, lambda b:True)
# hand-written benign examples (names without -bN)
extra=[k for k in M if k.startswith('benign/') and not re.match(r'benign/C\d\d-b\d+$',k)]
for k in extra:
    B+=1
    fired=M[k].get('fired',{})
    if any(v['exit']==1 for v in fired.values()): bv+=1
    elif fired: be2+=1
    else: sil+=1
s=open('/verif/DESIGN.md').read()
head=(f"**Where this ended (nine batches, 180 agents; numbers from the last `seeded/MATRIX.json`).** {F} faulty changes are kept: "
      f'{own} ({100*own//F} %) are reported by the check of the property they were written against, {e2} are "not decided" (exit 2 with the reason - '
      f"the fault sits in code that was also restructured beyond what the rule reads), {miss if miss else 'none'} {'is' if miss < 2 else 'are'} reported only by a neighbouring property"
      f"{' (' + ', '.join(missed) + ')' if missed else ''}. {B} behaviour-preserving changes are kept as negative examples: {sil} leave all twenty checks silent, "
      f'{be2} make at least one check say "not decided" (never a VIOLATION), {bv} are reported - both are rewrites of the CoAP counter-recovery loops whose '
      "rewind of `recv_ctr` is a recorded finding, re-reported by design under the new construct keys (see batch 7). "
      "The numbers that matter for a new change are the *first-run* tables of the batches below: on changes the machinery had never seen, faults were "
      "reported 14-20 times in 20, and a behaviour-preserving refactoring of a new kind drew a false VIOLATION about once in three (batches 7-9; each was "
      "then repaired, and every kept refactoring is re-run on every change of the machinery).")
s=re.sub(r"<!-- HEADLINE-BEGIN -->.*?<!-- HEADLINE-END -->", "<!-- HEADLINE-BEGIN -->\n"+head+"\n<!-- HEADLINE-END -->", s, flags=re.S)
open('/verif/DESIGN.md','w').write(s)
